//! C20, thread-schedule engine: `Tag::new` / `StaticTag::get` under every thread schedule.
//!
//! The real functions of `texlang::command` are built with `--cfg texcraft_verif_sched`, so their
//! mutex and once-cell go through the dependency-free seam `command::verif_sync` (hook H1, DESIGN
//! §1.7). This binary installs the scheduler behind that seam: every seam lock is backed by a
//! `shuttle::sync::Mutex<()>` whose guard is held between `acquire` and `release`, so mutual
//! exclusion, blocking and deadlock detection are shuttle's, and `shuttle`'s depth-first scheduler
//! enumerates every interleaving of the scheduling points (lock acquire, lock release, spawn, join).
//!
//! c20-sched [--tier quick|thorough] [--replay <file>] [--family <name>]
//!   exit 0: every schedule of every configuration satisfied the assertions
//!   exit 1: `VIOLATION property=C20 replay=<path>` printed (replay file holds shuttle's schedule string)
//!   exit 2: machinery error
//! Output: $VERIF_OUT/evidence/C20-sched.json (default /verif), replay files in $VERIF_OUT/replays.

use serde_json::{json, Value};
use std::cell::{Cell, UnsafeCell};
use std::collections::{BTreeMap, HashMap};
use std::panic::{catch_unwind, AssertUnwindSafe};
use std::path::{Path, PathBuf};
use std::sync::atomic::{AtomicU64, Ordering};
use std::time::Instant;
use texlang::command::{verif_sync, StaticTag, Tag};

// ---------------------------------------------------------------- the scheduler behind the seam

struct Lock {
    m: *mut shuttle::sync::Mutex<()>,
    g: Option<shuttle::sync::MutexGuard<'static, ()>>,
}

struct Sched {
    table: UnsafeCell<HashMap<usize, Lock>>,
    /// some acquire of the current execution found its lock held (the caller had to wait)
    contended: Cell<bool>,
}
// shuttle runs every task of an execution on one OS thread, one at a time, and this binary runs one
// exploration at a time, so the table is never accessed concurrently.
unsafe impl Sync for Sched {}
unsafe impl Send for Sched {}

impl Sched {
    #[allow(clippy::mut_from_ref)]
    fn t(&self) -> &mut HashMap<usize, Lock> {
        unsafe { &mut *self.table.get() }
    }
    /// Start of an execution: forget the locks of the previous one (their mutexes are freed; lock
    /// ids are addresses, and the `StaticTag` of every execution is a fresh allocation).
    fn reset(&self) {
        for (_, mut l) in self.t().drain() {
            drop(l.g.take());
            drop(unsafe { Box::from_raw(l.m) });
        }
        self.contended.set(false);
    }
    /// After a failed execution: its guards belong to an execution that no longer exists, so they
    /// are leaked rather than dropped.
    fn forget(&self) {
        for (_, l) in self.t().drain() {
            std::mem::forget(l);
        }
    }
}

impl verif_sync::Scheduler for Sched {
    fn acquire(&self, id: usize) {
        let (m, held) = {
            let l = self.t().entry(id).or_insert_with(|| Lock { m: Box::into_raw(Box::new(shuttle::sync::Mutex::new(()))), g: None });
            (l.m, l.g.is_some())
        };
        if held {
            self.contended.set(true);
        }
        // scheduling point; blocks (under shuttle's control) while another task holds the guard
        let g: shuttle::sync::MutexGuard<'static, ()> = unsafe { &*m }.lock().unwrap();
        let l = self.t().get_mut(&id).unwrap();
        assert!(l.g.is_none(), "seam lock {id:#x} acquired while held");
        l.g = Some(g);
    }
    fn try_acquire(&self, id: usize) -> bool {
        let m = self.t().entry(id).or_insert_with(|| Lock { m: Box::into_raw(Box::new(shuttle::sync::Mutex::new(()))), g: None }).m;
        // shuttle's try_lock is a scheduling point and fails exactly when another task holds the guard
        match unsafe { &*m }.try_lock() {
            Ok(g) => {
                let g: shuttle::sync::MutexGuard<'static, ()> = g;
                let l = self.t().get_mut(&id).unwrap();
                assert!(l.g.is_none(), "seam lock {id:#x} acquired while held");
                l.g = Some(g);
                true
            }
            Err(_) => {
                self.contended.set(true);
                false
            }
        }
    }
    fn release(&self, id: usize) {
        let g = self.t().get_mut(&id).expect("release of an unknown seam lock").g.take();
        assert!(g.is_some(), "seam lock {id:#x} released while not held");
        drop(g); // scheduling point
    }
}

static SCHED: std::sync::OnceLock<Sched> = std::sync::OnceLock::new();
fn sched() -> &'static Sched {
    SCHED.get().unwrap()
}

// ---------------------------------------------------------------- harness bodies

#[derive(Clone, Copy, Debug, PartialEq, Eq)]
struct Config {
    threads: usize,
    /// Tag::new calls per thread (before the gets)
    creations: usize,
    /// number of StaticTags shared by the threads (0, 1 or 2); even threads get() them in the
    /// order 0,1 and odd threads in the order 1,0
    statics: usize,
    /// rounds of get() per thread (2 = every static is resolved a second time by the same thread)
    gets: usize,
}
impl Config {
    const fn new(threads: usize, creations: usize, statics: usize, gets: usize) -> Config {
        Config { threads, creations, statics, gets }
    }
    fn name(&self) -> String {
        let g = match (self.statics, self.gets) {
            (0, _) | (_, 0) => String::new(),
            (1, 1) => " + StaticTag::get".to_string(),
            (1, n) => format!(" + {n} x StaticTag::get"),
            (k, 1) => format!(" + get on {k} StaticTags, opposite orders"),
            (k, n) => format!(" + {n} x get on {k} StaticTags, opposite orders"),
        };
        format!("{} threads x ({} Tag::new{g})", self.threads, self.creations)
    }
    fn json(&self) -> Value {
        json!({"threads": self.threads, "creations": self.creations, "statics": self.statics, "gets": self.gets, "with_static": self.statics > 0})
    }
    fn from_json(v: &Value) -> Config {
        let statics = v["statics"].as_u64().map(|x| x as usize).unwrap_or(if v["with_static"] == true { 1 } else { 0 });
        Config { threads: v["threads"].as_u64().unwrap_or(2) as usize, creations: v["creations"].as_u64().unwrap_or(1) as usize, statics, gets: v["gets"].as_u64().unwrap_or(1) as usize }
    }
}

static EXECS: AtomicU64 = AtomicU64::new(0);
static CONTENDED: AtomicU64 = AtomicU64::new(0);
/// outcome -> number of schedules. An outcome is, per thread, the ranks of the tags it created (in
/// creation order) and the ranks of the values its `get()` calls returned (100 + rank), ranks taken
/// among all tag values of the execution (the global counter keeps counting across executions).
static OUTCOMES: std::sync::Mutex<BTreeMap<Vec<Vec<usize>>, u64>> = std::sync::Mutex::new(BTreeMap::new());

fn body(c: Config) {
    EXECS.fetch_add(1, Ordering::Relaxed);
    sched().reset();
    // `shuttle::sync::Arc` is std's Arc: no scheduling points of its own.
    let st = shuttle::sync::Arc::new([StaticTag::new(), StaticTag::new()]);
    let hs: Vec<_> = (0..c.threads)
        .map(|t| {
            let st = st.clone();
            shuttle::thread::spawn(move || {
                let mut v = vec![];
                for _ in 0..c.creations {
                    v.push(Tag::new());
                }
                let mut g: Vec<(usize, Tag)> = vec![];
                for _ in 0..c.gets {
                    for i in 0..c.statics {
                        let which = if t % 2 == 0 { i } else { c.statics - 1 - i };
                        g.push((which, st[which].get()));
                    }
                }
                (v, g)
            })
        })
        .collect();
    let results: Vec<(Vec<Tag>, Vec<(usize, Tag)>)> = hs.into_iter().map(|h| h.join().unwrap()).collect();
    // every get() on one static tag returned the same value (across threads and across repeated calls)
    let mut all: Vec<Tag> = results.iter().flat_map(|r| r.0.iter().copied()).collect();
    for which in 0..c.statics {
        let vals: Vec<Tag> = results.iter().flat_map(|r| r.1.iter().filter(|g| g.0 == which).map(|g| g.1)).collect();
        assert!(vals.windows(2).all(|w| w[0] == w[1]), "C20: StaticTag::get returned different values for one static tag: {vals:?}");
        if let Some(s) = vals.first() {
            all.push(*s);
        }
    }
    // all created tags (the explicit ones and the one behind each static tag) are pairwise distinct
    let mut sorted = all.clone();
    sorted.sort();
    let before = sorted.len();
    sorted.dedup();
    assert_eq!(sorted.len(), before, "C20: two Tag::new calls returned the same tag: {all:?}");
    // bookkeeping (not a scheduling point: plain std primitives, never contended)
    if sched().contended.get() {
        CONTENDED.fetch_add(1, Ordering::Relaxed);
    }
    let rank = |t: &Tag| sorted.binary_search(t).unwrap();
    let outcome: Vec<Vec<usize>> = results.iter().map(|(v, g)| v.iter().map(rank).chain(g.iter().map(|t| 100 + rank(&t.1))).collect()).collect();
    *OUTCOMES.lock().unwrap().entry(outcome).or_insert(0) += 1;
}

// ---------------------------------------------------------------- driver

static LAST_PANIC: std::sync::Mutex<Option<String>> = std::sync::Mutex::new(None);

fn shuttle_config(persist_dir: &Path) -> shuttle::Config {
    let mut cfg = shuttle::Config::new();
    cfg.failure_persistence = shuttle::FailurePersistence::File(Some(persist_dir.to_path_buf()));
    cfg.max_steps = shuttle::MaxSteps::FailAfter(100_000);
    cfg
}

struct Explored {
    schedules: u64,
    contended: u64,
    outcomes: BTreeMap<Vec<Vec<usize>>, u64>,
    wall_s: f64,
    /// Some((panic message, schedule string)) if an execution failed
    failure: Option<(String, String)>,
}

fn explore(c: Config, persist_dir: &Path, cap: u64) -> Explored {
    EXECS.store(0, Ordering::Relaxed);
    CONTENDED.store(0, Ordering::Relaxed);
    OUTCOMES.lock().unwrap().clear();
    *LAST_PANIC.lock().unwrap() = None;
    let _ = std::fs::remove_dir_all(persist_dir);
    std::fs::create_dir_all(persist_dir).expect("create schedule directory");
    let t0 = Instant::now();
    let cfg = shuttle_config(persist_dir);
    let r = catch_unwind(AssertUnwindSafe(|| {
        let scheduler = shuttle::scheduler::DfsScheduler::new(Some(cap as usize), false);
        let runner = shuttle::Runner::new(scheduler, cfg);
        runner.run(move || body(c));
    }));
    let failure = match r {
        Ok(()) => None,
        Err(_) => {
            sched().forget();
            let msg = LAST_PANIC.lock().unwrap().clone().unwrap_or_else(|| "<no panic message recorded>".into());
            let mut schedule = String::new();
            if let Ok(rd) = std::fs::read_dir(persist_dir) {
                let mut files: Vec<PathBuf> = rd.flatten().map(|e| e.path()).collect();
                files.sort();
                if let Some(f) = files.first() {
                    schedule = std::fs::read_to_string(f).unwrap_or_default();
                }
            }
            Some((msg, schedule))
        }
    };
    let outcomes = OUTCOMES.lock().unwrap_or_else(|e| e.into_inner()).clone();
    Explored { schedules: EXECS.load(Ordering::Relaxed), contended: CONTENDED.load(Ordering::Relaxed), outcomes, wall_s: t0.elapsed().as_secs_f64(), failure }
}

fn outcome_text(o: &[Vec<usize>]) -> String {
    o.iter().enumerate().map(|(i, v)| format!("T{i}:{}", v.iter().map(|r| if *r >= 100 { format!("s{}", r - 100) } else { format!("{r}") }).collect::<Vec<_>>().join(","))).collect::<Vec<_>>().join(" ")
}

fn main() {
    let args: Vec<String> = std::env::args().collect();
    let mut tier = match std::env::var("VERIF_TIER").ok().as_deref() {
        Some("thorough") => "thorough",
        _ => "quick",
    };
    let mut replay: Option<PathBuf> = None;
    let mut family: Option<String> = None;
    let mut i = 1;
    while i < args.len() {
        match args[i].as_str() {
            "--tier" => {
                i += 1;
                tier = if args.get(i).map(|s| s.as_str()) == Some("thorough") { "thorough" } else { "quick" };
            }
            "--replay" => {
                i += 1;
                replay = args.get(i).map(PathBuf::from);
            }
            "--family" => {
                i += 1;
                family = args.get(i).cloned();
            }
            _ => {}
        }
        i += 1;
    }
    let out = PathBuf::from(std::env::var("VERIF_OUT").unwrap_or_else(|_| "/verif".into()));

    // quiet hook that keeps the message; shuttle chains its own hook (schedule persistence) in front of it
    std::panic::set_hook(Box::new(|info| {
        let msg = if let Some(s) = info.payload().downcast_ref::<&str>() {
            s.to_string()
        } else if let Some(s) = info.payload().downcast_ref::<String>() {
            s.clone()
        } else {
            "<non-string panic payload>".to_string()
        };
        let loc = info.location().map(|l| format!(" at {}:{}", l.file(), l.line())).unwrap_or_default();
        let mut g = LAST_PANIC.lock().unwrap_or_else(|e| e.into_inner());
        if g.is_none() {
            *g = Some(format!("{msg}{loc}"));
        }
    }));
    SCHED.get_or_init(|| Sched { table: Default::default(), contended: Cell::new(false) });
    verif_sync::install(sched());
    let persist_dir = std::env::temp_dir().join(format!("c20-sched-{}", std::process::id()));

    // ---- replay of one schedule
    if let Some(path) = replay {
        let text = std::fs::read_to_string(&path).unwrap_or_else(|e| {
            eprintln!("cannot read replay file {}: {e}", path.display());
            std::process::exit(2)
        });
        let v: Value = serde_json::from_str(&text).unwrap_or_else(|e| {
            eprintln!("bad replay file: {e}");
            std::process::exit(2)
        });
        if v["family"] != "tags-schedules" {
            // a replay file of the sequential families: the c20 binary handles it
            std::process::exit(0);
        }
        let c = Config::from_json(&v["case"]);
        let schedule = v["case"]["schedule"].as_str().unwrap_or("").to_string();
        let mut cfg = shuttle::Config::new();
        cfg.failure_persistence = shuttle::FailurePersistence::None;
        let r = catch_unwind(AssertUnwindSafe(|| {
            let scheduler = shuttle::scheduler::ReplayScheduler::new_from_encoded(&schedule);
            shuttle::Runner::new(scheduler, cfg).run(move || body(c));
        }));
        match r {
            Ok(()) => {
                println!("REPLAY property=C20 passes (schedule of {} replayed, assertions hold)", c.name());
                std::process::exit(0)
            }
            Err(_) => {
                let msg = LAST_PANIC.lock().unwrap_or_else(|e| e.into_inner()).clone().unwrap_or_default();
                if ["scheduled task is not runnable", "schedule ended early", "expected context switch", "expected random choice", "invalid schedule"].iter().any(|m| msg.contains(m)) {
                    // shuttle could not follow the schedule: the code under test no longer has the scheduling points it was recorded on
                    let short: String = msg.chars().take(160).collect();
                    println!("REPLAY property=C20 cannot be judged: the recorded schedule does not fit this build of {} ({short}...); run the exploration again", c.name());
                    std::process::exit(2)
                }
                println!("REPLAY property=C20 FAILS\n  case: {} under schedule {}\n  expected: {}\n  observed: {}", c.name(), schedule.trim(), v["expected"].as_str().unwrap_or(""), msg);
                std::process::exit(1)
            }
        }
    }
    if let Some(f) = &family {
        if f != "tags-schedules" {
            std::process::exit(0);
        }
    }

    // ---- exploration
    let mut configs = vec![
        Config::new(2, 1, 1, 1),
        Config::new(2, 2, 1, 1),
        Config::new(3, 1, 0, 0),
        // a second instance of the kind: two static tags resolved in opposite orders; the same static tag resolved twice
        Config::new(2, 0, 2, 1),
        Config::new(2, 0, 1, 2),
    ];
    if tier == "thorough" {
        configs.push(Config::new(2, 3, 0, 0));
        configs.push(Config::new(2, 1, 2, 1));
        configs.push(Config::new(3, 1, 1, 1));
    }
    let replay_dir = out.join("replays");
    let _ = std::fs::create_dir_all(&replay_dir);
    if let Ok(rd) = std::fs::read_dir(&replay_dir) {
        for e in rd.flatten() {
            if e.file_name().to_string_lossy().starts_with("C20-sched-") {
                let _ = std::fs::remove_file(e.path());
            }
        }
    }
    let t0 = Instant::now();
    let mut conf_json = vec![];
    let mut total_schedules = 0u64;
    let mut total_outcomes = 0u64;
    let mut violations = 0u64;
    let mut lines = vec![];
    // Budget per configuration (the depth-first enumeration has no partial-order reduction, so a
    // subject with more scheduling points can be out of reach). A configuration that hits it is
    // reported as not exhaustive - what was explored is the first `cap` schedules in depth-first
    // order - and never as a verdict of its own.
    let cap: u64 = std::env::var("VERIF_SCHED_CAP").ok().and_then(|s| s.parse().ok()).unwrap_or(if tier == "quick" { 1_000_000 } else { 80_000_000 });
    let mut caps_hit: Vec<String> = vec![];
    for c in &configs {
        let e = explore(*c, &persist_dir, cap);
        let capped = e.failure.is_none() && e.schedules >= cap;
        if capped {
            caps_hit.push(format!("{}: schedule budget {cap} hit; the first {cap} schedules in depth-first order were explored", c.name()));
        }
        eprintln!("[C20-sched] {:<44} schedules={:<9} contended={:<9} outcomes={:<4} {:.1}s{}", c.name(), e.schedules, e.contended, e.outcomes.len(), e.wall_s, if e.failure.is_some() { "  FAILED" } else if capped { "  CAPPED" } else { "" });
        total_schedules += e.schedules;
        total_outcomes += e.outcomes.len() as u64;
        let samples: Vec<Value> = e.outcomes.iter().take(4).map(|(o, n)| json!({"outcome": outcome_text(o), "schedules": n})).collect();
        conf_json.push(json!({
            "name": c.name(), "threads": c.threads, "creations_per_thread": c.creations, "static_tags": c.statics, "get_rounds": c.gets,
            "schedules": e.schedules, "schedules_with_contention": e.contended, "distinct_outcomes": e.outcomes.len(),
            "sample_outcomes": samples, "wall_s": (e.wall_s * 100.0).round() / 100.0, "exhaustive": e.failure.is_none() && !capped,
        }));
        if let Some((msg, schedule)) = e.failure {
            violations += 1;
            let p = replay_dir.join(format!("C20-sched-{violations}.json"));
            let expected = "all created tags pairwise distinct, every StaticTag::get() returns the same value, no deadlock";
            let v = json!({
                "property": "C20", "family": "tags-schedules", "idx": e.schedules,
                "case": {"kind": "tags", "threads": c.threads, "creations": c.creations, "statics": c.statics, "gets": c.gets, "with_static": c.statics > 0, "schedule": schedule,
                         "text": format!("{}; the failing execution is schedule number {} of the depth-first enumeration", c.name(), e.schedules)},
                "expected": expected, "observed": msg,
                "note": "schedule is shuttle's encoded schedule string; replay with shuttle::replay(body, schedule) or the command below",
                "replay": format!("./check C20 --replay {}", p.display()),
            });
            std::fs::write(&p, serde_json::to_string_pretty(&v).unwrap()).expect("write replay file");
            eprintln!("  failing schedule of {}: {}\n    expected: {expected}\n    observed: {msg}", c.name(), schedule.trim());
            lines.push(format!("VIOLATION property=C20 replay={}", p.display()));
        }
    }
    let _ = std::fs::remove_dir_all(&persist_dir);
    let wall = t0.elapsed().as_secs_f64();
    let ev = json!({
        "property_id": "C20", "engine": "shuttle 0.9.3 DfsScheduler (every schedule, no partial-order reduction) through the H1 sync seam (texlang built with --cfg texcraft_verif_sched)",
        "tier": tier, "complete": true, "exhaustive": violations == 0 && caps_hit.is_empty(), "caps_hit": caps_hit, "schedule_budget_per_configuration": cap,
        "assertions": "per execution: all created tags pairwise distinct (incl. the tag behind the static tag), every get() returned the same value, no deadlock (shuttle), seam locks never acquired while held / released while free",
        "scheduling_points": "seam acquire / try_acquire / release (locks, once cells, and before and after every single atomic operation), thread spawn, thread join",
        "configurations": conf_json, "schedules_total": total_schedules, "distinct_outcomes_total": total_outcomes,
        "violations": violations, "wall_s": (wall * 100.0).round() / 100.0,
    });
    let dir = out.join("evidence");
    let _ = std::fs::create_dir_all(&dir);
    std::fs::write(dir.join("C20-sched.json"), serde_json::to_string_pretty(&ev).unwrap() + "\n").expect("write evidence");
    for l in &lines {
        println!("{l}");
    }
    println!("C20-sched {} tier={tier} configurations={} schedules={total_schedules} outcomes={total_outcomes} violations={violations} wall={wall:.1}s", if violations == 0 { "HELD" } else { "VIOLATED" }, configs.len());
    std::process::exit(if violations > 0 { 1 } else { 0 })
}
