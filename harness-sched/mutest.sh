#!/bin/bash
# harness-sched/mutest.sh <patch.diff|-> [args for run]   |   harness-sched/mutest.sh --clean
# Thread-schedule engine against a *scratch worktree* of /repo (never touches /repo's files):
# /repo HEAD + hooks H1 and H1b (/verif/hooks/H1-sync-seam.patch, H1b-seam-api.patch; each skipped if HEAD already has it) + the patch.
# Everything lives in /tmp/mutest-$MUTEST_SLOT-sched (worktree, path-rewritten engine copy, output).
set -u
SLOT="${MUTEST_SLOT:-0}"
BASE="/tmp/mutest-$SLOT-sched"
if [ "${1:-}" = "--clean" ]; then
  git -C /repo worktree remove --force "$BASE/wt" 2>/dev/null; rm -rf "$BASE"; git -C /repo worktree prune; exit 0
fi
PATCH="${1:--}"; shift || true
case "$PATCH" in -|/*) ;; *) PATCH="$PWD/$PATCH";; esac
mkdir -p "$BASE/out"
HEAD=$(git -C /repo rev-parse HEAD)
if [ ! -d "$BASE/wt" ]; then
  git -C /repo worktree add --detach "$BASE/wt" "$HEAD" >/dev/null 2>&1 || { echo "cannot create worktree" >&2; exit 2; }
fi
git -C "$BASE/wt" checkout -q --detach "$HEAD" 2>/dev/null
git -C "$BASE/wt" checkout -q -- . && git -C "$BASE/wt" clean -fdq -e target
if [ ! -f "$BASE/wt/crates/texlang/src/command/verif_sync.rs" ]; then
  git -C "$BASE/wt" apply /verif/hooks/H1-sync-seam.patch || { echo "hook H1 does not apply to /repo HEAD" >&2; exit 2; }
fi
if ! grep -q 'fn try_acquire' "$BASE/wt/crates/texlang/src/command/verif_sync.rs"; then
  git -C "$BASE/wt" apply /verif/hooks/H1b-seam-api.patch || { echo "hook H1b does not apply to /repo HEAD" >&2; exit 2; }
fi
if [ "$PATCH" != "-" ]; then
  git -C "$BASE/wt" apply "$PATCH" || { echo "patch does not apply" >&2; exit 2; }
fi
VERIF_REPO="$BASE/wt" SCHED_SCRATCH="$BASE/harness-sched" VERIF_OUT="$BASE/out" "$(dirname "$0")/run" "$@"
rc=$?
echo "mutest(sched): C20 exit=$rc"
exit $rc
