#!/bin/bash
# /verif/harness-sched/build.sh — build the thread-schedule engine of C20 against the repository.
#   VERIF_REPO=/repo (default): build in place, target dir /verif/harness-sched/target.
#   VERIF_REPO=<other tree>   : build a path-rewritten copy under $SCHED_SCRATCH
#                               (default /tmp/harness-sched-$MUTEST_SLOT) - /repo is never touched.
# Prints the path of the binary on success. exit 2: hook H1 missing or build failure (machinery).
set -u
HERE="$(cd "$(dirname "$0")" && pwd)"
REPO="${VERIF_REPO:-/repo}"
if ! grep -q 'texcraft_verif_sched' "$REPO/crates/texlang/src/command/mod.rs" 2>/dev/null || [ ! -f "$REPO/crates/texlang/src/command/verif_sync.rs" ]; then
  echo "MACHINERY-ERROR C20: hook H1 (sync seam) is not applied to $REPO - apply /verif/hooks/H1-sync-seam.patch (git -C $REPO apply /verif/hooks/H1-sync-seam.patch); the thread-schedule engine cannot be built without it" >&2
  exit 2
fi
if [ "$REPO" = "/repo" ]; then
  DIR="$HERE"
else
  DIR="${SCHED_SCRATCH:-/tmp/harness-sched-${MUTEST_SLOT:-0}}"
  mkdir -p "$DIR"
  rsync -a --delete --exclude target "$HERE/" "$DIR/"
  sed -i "s#/repo/crates#$REPO/crates#g" "$DIR/Cargo.toml"
fi
export CARGO_NET_OFFLINE=true
export CARGO_TARGET_DIR="$DIR/target"
export RUSTFLAGS='--cfg texcraft_verif_sched'
mkdir -p "$CARGO_TARGET_DIR"
if ! (cd "$DIR" && cargo build --release --offline -q 2>"$DIR/target/build.log"); then
  tail -n 40 "$DIR/target/build.log" >&2
  echo "MACHINERY-ERROR C20: build of the thread-schedule engine failed" >&2
  exit 2
fi
echo "$CARGO_TARGET_DIR/release/c20-sched"
