#!/bin/bash
# /verif/harness-sched/build.sh — build the thread-schedule engine of C20 against the repository.
#   VERIF_REPO=/repo (default): build in place, target dir /verif/harness-sched/target.
#   VERIF_REPO=<other tree>   : build a path-rewritten copy under $SCHED_SCRATCH
#                               (default /tmp/harness-sched-$MUTEST_SLOT) - /repo is never touched.
# Prints the path of the binary on success. exit 2 (machinery, never a verdict): hook missing, the
# subject bypasses the seam, the subject uses an API the seam lacks, or the tree does not compile.
set -u
HERE="$(cd "$(dirname "$0")" && pwd)"
REPO="${VERIF_REPO:-/repo}"
MOD="$REPO/crates/texlang/src/command/mod.rs"
SEAM="$REPO/crates/texlang/src/command/verif_sync.rs"
if ! grep -q 'texcraft_verif_sched' "$MOD" 2>/dev/null || [ ! -f "$SEAM" ]; then
  echo "MACHINERY-ERROR C20: hook H1 (sync seam) is not applied to $REPO - apply /verif/hooks/H1-sync-seam.patch and /verif/hooks/H1b-seam-api.patch; the thread-schedule engine cannot be built without it" >&2
  exit 2
fi
if ! grep -q 'fn try_acquire' "$SEAM"; then
  echo "MACHINERY-ERROR C20: the sync seam in $REPO is the first version (no try_acquire / atomics) - apply /verif/hooks/H1b-seam-api.patch" >&2
  exit 2
fi
# The seam only sees what goes through the name `sync`. A direct use of std::sync / core::sync in
# command/mod.rs (outside the lines guarded by cfg(not(texcraft_verif_sched))) would compile under the
# cfg but be invisible to the scheduler: its races could not be found, so no verdict may be given.
BYPASS=$(awk '
  /^[[:space:]]*\/\// { next }
  { line=$0; sub(/\/\/.*$/, "", line) }
  line ~ /(std|core)::sync/ && prev !~ /cfg\(not\(texcraft_verif_sched\)\)/ { printf "%d: %s\n", NR, $0 }
  /[^[:space:]]/ { prev=$0 }
' "$MOD")
if [ -n "$BYPASS" ]; then
  echo "MACHINERY-ERROR C20: command/mod.rs uses std::sync directly, past the sync seam (write \`sync::...\` so that the controlled scheduler sees it, or guard the line with #[cfg(not(texcraft_verif_sched))] and give it a seam twin); no verdict:" >&2
  echo "$BYPASS" | head -n 10 >&2
  exit 2
fi
if [ "$REPO" = "/repo" ]; then
  DIR="$HERE"
else
  DIR="${SCHED_SCRATCH:-/tmp/harness-sched-${MUTEST_SLOT:-0}}"
  mkdir -p "$DIR"
  rsync -a --delete --exclude target "$HERE/" "$DIR/"
  sed -i "s#/repo/crates#$REPO/crates#g" "$DIR/Cargo.toml"
fi
export CARGO_NET_OFFLINE=true
export CARGO_TARGET_DIR="$DIR/target"
mkdir -p "$CARGO_TARGET_DIR"
if ! (cd "$DIR" && RUSTFLAGS='--cfg texcraft_verif_sched' cargo build --release --offline -q 2>"$DIR/target/build.log"); then
  # Why? If texlang compiles without the cfg, the subject now uses a part of std::sync that the seam
  # does not mirror: name it. Otherwise the tree itself is broken.
  ERRS=$(grep -E -A6 '^error(\[E[0-9]+\])?:' "$DIR/target/build.log" | grep -v '^--$' | head -n 24)
  if (cd "$DIR" && CARGO_TARGET_DIR="$DIR/target/nocfg" cargo check --offline -q -p texlang 2>"$DIR/target/build-nocfg.log"); then
    MISSING=$(grep -E '^error' "$DIR/target/build.log" | grep -oE '`[^`]+`' | tr -d '`' | grep -vxE 'sync|texlang|std|core' | sort -u | head -n 8 | tr '\n' ' ')
    echo "MACHINERY-ERROR C20: texlang compiles WITHOUT --cfg texcraft_verif_sched but not WITH it: command/mod.rs now uses a synchronisation API that the seam crates/texlang/src/command/verif_sync.rs does not provide (names in the errors: $MISSING). Extend the seam (hook H1) with that API; this is not a verdict on the property." >&2
    echo "$ERRS" >&2
  else
    echo "MACHINERY-ERROR C20: build of the thread-schedule engine failed, and texlang does not compile without the cfg either (the tree is broken):" >&2
    echo "$ERRS" >&2
    tail -n 15 "$DIR/target/build-nocfg.log" >&2
  fi
  exit 2
fi
echo "$CARGO_TARGET_DIR/release/c20-sched"
