// Design-time probe: C14 invariants with synthetic lig/kern programs that involve the hyphen and the boundaries.
use boxworks::ds::{self, Horizontal as H};
use boxworks::{Hyphenator as _, TextPreprocessor};
use boxworks_text as bwt;
use std::collections::{BTreeMap, HashMap};
use tfm::ligkern::lang::{Instruction, Operation, PostLigOperation as P, Program};
use tfm::{Char, FixWord};
#[derive(Clone, Copy, PartialEq, Eq, Debug, Hash, PartialOrd, Ord)]
enum Sym { LB, C(u8), RB }
#[derive(Clone, Copy, Debug, PartialEq)]
enum Op { Kern(i32), Lig(u8, P) }
#[derive(Clone, Copy, Debug, PartialEq)]
struct Rule { left: Sym, right: Sym, op: Op }

#[derive(Debug, PartialEq, Clone)]
enum Out { G(u8), K(i32) }

fn build(rules: &[Rule], rbc: Option<u8>) -> (Program, HashMap<Char, u16>) {
    let mut instrs: Vec<Instruction> = vec![]; let mut eps = HashMap::new(); let mut lb = None;
    let mut lefts: Vec<Sym> = rules.iter().map(|r| r.left).collect(); lefts.sort(); lefts.dedup();
    for l in lefts {
        let start = instrs.len() as u16;
        match l { Sym::LB => lb = Some(start), Sym::C(c) => { eps.insert(Char(c), start); } Sym::RB => unreachable!() }
        let rs: Vec<&Rule> = rules.iter().filter(|r| r.left == l).collect();
        for (i, r) in rs.iter().enumerate() {
            let right_char = match r.right { Sym::C(c) => Char(c), Sym::RB => Char(rbc.unwrap()), Sym::LB => unreachable!() };
            let operation = match r.op { Op::Kern(k) => Operation::Kern(FixWord(k)), Op::Lig(z, p) => Operation::Ligature { char_to_insert: Char(z), post_lig_operation: p, post_lig_tag_invalid: false } };
            instrs.push(Instruction { next_instruction: if i + 1 < rs.len() { Some(0) } else { None }, right_char, operation });
        }
    }
    (Program { instructions: instrs, left_boundary_char_entrypoint: lb, right_boundary_char: rbc.map(Char), passthrough: Default::default() }, eps)
}


fn letters_of(h: &H) -> String { match h { H::Char(c) => c.char.to_string(), H::Ligature(l) => l.original_chars.to_string(), _ => String::new() } }
fn dletters(e: &ds::DiscretionaryElem) -> String { match e { ds::DiscretionaryElem::Char(c) => c.char.to_string(), ds::DiscretionaryElem::Ligature(l) => l.original_chars.to_string(), _ => String::new() } }
fn main() {
    std::panic::set_hook(Box::new(|_| {}));
    let maxrules: usize = std::env::args().nth(1).map(|s| s.parse().unwrap()).unwrap_or(1);
    let tfm_bytes = std::fs::read("/repo/crates/tfm/corpus/computer-modern/cmr10.tfm").unwrap();
    let letters = [b'a', b'b', b'c'];
    let ops: Vec<Op> = { let mut v = vec![Op::Kern(1 << 16)]; for z in letters { for p in [P::RetainNeitherMoveToInserted, P::RetainRightMoveToInserted, P::RetainRightMoveToRight, P::RetainLeftMoveNowhere, P::RetainLeftMoveToInserted, P::RetainBothMoveNowhere, P::RetainBothMoveToInserted, P::RetainBothMoveToRight] { v.push(Op::Lig(z, p)); } } v };
    let mut all_rules = vec![];
    for left in [Sym::LB, Sym::C(b'a'), Sym::C(b'b'), Sym::C(b'-')] { for right in [Sym::C(b'a'), Sym::C(b'b'), Sym::C(b'-'), Sym::RB] { for op in &ops { all_rules.push(Rule { left, right, op: *op }); } } }
    let mut sets: Vec<Vec<Rule>> = vec![vec![]]; for r in &all_rules { sets.push(vec![*r]); }
    if maxrules >= 2 { for (i, a) in all_rules.iter().enumerate().step_by(3) { for b in all_rules.iter().skip(i + 1).step_by(11) { if a.left == b.left && a.right == b.right { continue; } sets.push(vec![*a, *b]); } } }
    let words = ["ab", "ba", "aab", "aba", "abab", "baab", "aa", "bbb"];
    let mut classes: BTreeMap<String, (u64, String)> = BTreeMap::new(); let (mut total, mut ok, mut discs) = (0u64, 0u64, 0u64);
    for rules in &sets { for rbc in [None, Some(b'c')] {
        if rbc.is_none() && rules.iter().any(|r| r.right == Sym::RB) { continue; }
        let (prog, eps) = build(rules, rbc);
        let mut tfm_file = tfm::File::deserialize(&tfm_bytes).0.unwrap();
        tfm_file.replace_lig_kern_program(prog, eps);
        let (lkp, errs) = tfm::ligkern::CompiledProgram::compile_from_tfm_file(&mut tfm_file);
        if !errs.is_empty() { continue; }
        for w in words { for punct in ["", ".", "-a"] {
            let text = format!("x {w}{punct}"); total += 1;
            let mut tp = bwt::TextPreprocessorImpl::new(bwt::Params::plain_tex_defaults()); tp.register_font(0, &tfm_file, lkp.clone()); tp.activate_font(0);
            let mut list = vec![]; tp.add_text(&text, &mut list); let before = list.clone();
            let mut hy = boxworks_hyphenate::Hyphenator::plain_tex_en_us(lkp.clone());
            let mut h = hyphenate::Hyphenator::default(); h.load_patterns("a1 b1"); hy.hyphenator = h; hy.left_hyphen_min = 1; hy.right_hyphen_min = 1;
            let r = std::panic::catch_unwind(std::panic::AssertUnwindSafe(|| { let mut l = list.clone(); hy.hyphenate(&mut l); l }));
            let desc = format!("rules={rules:?} rbc={rbc:?} text={text:?}");
            let after = match r { Err(_) => { classes.entry("PANIC".into()).or_insert((0, desc)).0 += 1; continue; } Ok(l) => l };
            let nd = |l: &Vec<H>| l.iter().filter(|h| !matches!(h, H::Discretionary(_))).cloned().collect::<Vec<_>>();
            let mut good = true;
            if nd(&before) != nd(&after) { good = false; let b: Vec<String> = nd(&before).iter().map(|h| h.to_string().replace('\n', "")).collect(); let a: Vec<String> = nd(&after).iter().map(|h| h.to_string().replace('\n', "")).collect();
                let i = b.iter().zip(a.iter()).position(|(x, y)| x != y).unwrap_or(b.len().min(a.len()));
                classes.entry("I1 unbroken list changed".into()).or_insert((0, format!("{desc} first difference at node {i}: before={:?} after={:?}", b.get(i), a.get(i)))).0 += 1; }
            let mut i = 0; while i < after.len() { if let H::Discretionary(d) = &after[i] { if !before.contains(&after[i]) || !(d.pre_break.is_empty() && d.post_break.is_empty()) { discs += 1;
                    let mut pre: String = d.pre_break.iter().map(dletters).collect(); let post: String = d.post_break.iter().map(dletters).collect();
                    let repl: String = after[i + 1..(i + 1 + d.replace_count as usize).min(after.len())].iter().map(letters_of).collect();
                    if !(d.pre_break.is_empty() && d.post_break.is_empty()) { if pre.ends_with('-') { pre.pop(); } else { good = false; classes.entry("I2 pre-break does not spell ...-".into()).or_insert((0, format!("{desc} pre={pre:?}"))).0 += 1; }
                        if format!("{pre}{post}") != repl { good = false; classes.entry("I2 letters not conserved at break".into()).or_insert((0, format!("{desc} pre={pre} post={post} repl={repl}"))).0 += 1; } } } } i += 1; }
            if good { ok += 1; }
        } }
    } }
    println!("lists={total} ok={ok} discretionaries={discs}");
    for (k, (n, ex)) in &classes { println!("{n:8} {k}\n      first: {}", ex.chars().take(460).collect::<String>()); }
}
// Results on the pinned tree (cmr10 with its lig/kern program replaced; rules over {left boundary, a, b, -} x {a, b, -, right boundary}; "every position"
// patterns; minima (1,1); texts "x W", "x W.", "x W-a" for 8 words W):
//   <= 1 rule : 15 120 lists, 18 946 discretionaries: I2 (letters conserved at each break) holds everywhere; I1 (delete discretionaries = identity)
//               fails on 240 lists;  <= 2 rules (sampled pairs): 83 184 lists, I1 fails on 2 023, I2 nowhere, no panic.
//   Every I1 failure inspected has a LEFT-BOUNDARY rule: the kern (or ligature) that the boundary produced when the text was first typeset is copied
//   by the word search and then produced a second time because the reconstitution always runs the program with the left boundary enabled.
//   TeX 903 starts reconstitution at j = 1 (no boundary processing) when the node before the first letter is not a same-font character or a
//   boundary ligature, so it keeps exactly one kern. Suspected defect D21, to be triaged in the build phase.
