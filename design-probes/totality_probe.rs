// Design-time probe: C01 (group scoping histories) and C08 (checkpoint transparency) on a harness-owned state.
use std::cell::RefCell;
use std::collections::{BTreeMap, HashMap};
use std::rc::Rc;
use texlang::traits::*;
use texlang::types::CatCode;
use texlang::*;
use texlang_stdlib::*;

#[derive(Default, serde::Serialize, serde::Deserialize)]
pub struct HState {
    pub alloc: alloc::Component,
    pub codes_cat_code: codes::Component<CatCode>,
    pub codes_math_code: codes::Component<types::MathCode>,
    pub conditional: conditional::Component,
    pub end_line_char: endlinechar::Component,
    pub error_mode: errormode::Component,
    pub input: input::Component<16>,
    pub job: job::Component,
    pub prefix: prefix::Component,
    pub registers_i32: registers::Component<i32, 32768>,
    pub registers_scaled: registers::Component<common::Scaled, 32768>,
    pub registers_glue: registers::Component<common::Glue, 32768>,
    pub registers_token_list: registers::Component<Vec<token::Token>, 256>,
    pub repl: repl::Component,
    pub script: script::Component,
    pub time: time::Component,
    pub tracing_macros: tracingmacros::Component,
    #[serde(skip)]
    pub out: RefCell<Vec<String>>,
    #[serde(skip)]
    pub steps: std::cell::Cell<u64>,
    #[serde(skip)]
    pub errs: std::cell::Cell<u64>,
    #[serde(skip)]
    pub fs: Rc<RefCell<texlang_common::InMemoryFileSystem>>,
}
impl TexlangState for HState {
    fn cat_code(&self, c: char) -> CatCode { codes::cat_code(self, c) }
    fn end_line_char(&self) -> Option<char> { endlinechar::end_line_char(self) }
    fn post_macro_expansion_hook(token: token::Token, input: &vm::ExpansionInput<Self>, m: &texmacro::Macro, a: &[&[token::Token]], r: &[token::Token]) { let st = input.state(); st.steps.set(st.steps.get() + 1); if st.steps.get() > 3000 { std::panic::panic_any(Budget); } tracingmacros::hook(token, input, m, a, r) }
    fn expansion_override_hook(token: token::Token, input: &mut vm::ExpansionInput<Self>, tag: Option<command::Tag>) -> texlang::prelude::Result<Option<token::Token>> { { let st = input.state(); st.steps.set(st.steps.get() + 1); if st.steps.get() > 3000 { std::panic::panic_any(Budget); } } expansion::noexpand_hook(token, input, tag) }
    fn variable_assignment_scope_hook(state: &mut Self) -> texcraft_stdext::collections::groupingmap::Scope { prefix::variable_assignment_scope_hook(state) }
    fn recoverable_error_hook(&self, e: error::TracedTexError) -> Result<(), Box<dyn error::TexError>> { self.errs.set(self.errs.get() + 1); if self.errs.get() > 100 { return Err(e.error); } errormode::recoverable_error_hook(self, e) }
}
impl the::TheCompatible for HState {}
vm::implement_has_component![HState{
    alloc: alloc::Component, codes_cat_code: codes::Component<CatCode>, codes_math_code: codes::Component<types::MathCode>,
    conditional: conditional::Component, end_line_char: endlinechar::Component, error_mode: errormode::Component, input: input::Component<16>,
    job: job::Component, prefix: prefix::Component, registers_i32: registers::Component<i32, 32768>, registers_scaled: registers::Component<common::Scaled, 32768>,
    registers_glue: registers::Component<common::Glue, 32768>, registers_token_list: registers::Component<Vec<token::Token>, 256>,
    repl: repl::Component, script: script::Component, time: time::Component, tracing_macros: tracingmacros::Component,
}];
struct Sink; impl std::io::Write for Sink { fn write(&mut self, b: &[u8]) -> std::io::Result<usize> { Ok(b.len()) } fn flush(&mut self) -> std::io::Result<()> { Ok(()) } }
impl texlang_common::HasLogging for HState { fn terminal_out(&self) -> Rc<RefCell<dyn std::io::Write>> { Rc::new(RefCell::new(Sink)) } }
pub struct Budget;
impl texlang_common::HasFileSystem for HState { fn file_system(&self) -> Rc<RefCell<dyn texlang_common::FileSystem>> { self.fs.clone() } }
impl texlang_common::HasTerminalIn for HState { fn terminal_in(&self) -> Rc<RefCell<dyn texlang_common::TerminalIn>> { self.error_mode.terminal_in() } }
struct H;
fn name(input: &vm::ExecutionInput<HState>, t: token::Token) -> String { match t.value() { token::Value::CommandRef(r) => r.to_string(input.vm().cs_name_interner()), _ => "?".into() } }
impl vm::Handlers<HState> for H {
    fn character_handler(input: &mut vm::ExecutionInput<HState>, _t: token::Token, c: char) -> texlang::prelude::Result<()> { input.state().out.borrow_mut().push(c.to_string()); Ok(()) }
    fn undefined_command_handler(input: &mut vm::ExecutionInput<HState>, t: token::Token) -> texlang::prelude::Result<()> { let s = name(input, t); input.state().out.borrow_mut().push(format!("<undef {s}>")); Ok(()) }
    fn unexpanded_expansion_command(input: &mut vm::ExecutionInput<HState>, t: token::Token) -> texlang::prelude::Result<()> { let s = name(input, t); input.state().out.borrow_mut().push(s); Ok(()) }
}
fn probefont(_t: token::Token, input: &mut vm::ExecutionInput<HState>) -> texlang::prelude::Result<()> { let f = input.vm().current_font().0; input.state().out.borrow_mut().push(format!("F{f}")); Ok(()) }
fn builtins() -> HashMap<&'static str, command::BuiltIn<HState>> {
    let mut m = built_in_commands::<HState>();
    m.insert("fa", command::BuiltIn::new_font(types::Font(1)));
    m.insert("fb", command::BuiltIn::new_font(types::Font(2)));
    m.insert("probefont", command::BuiltIn::new_execution(probefont));
    m
}
fn new_vm() -> vm::VM<HState> { vm::VM::<HState>::new_with_built_in_commands(builtins()) }
fn run(vm: &mut vm::VM<HState>, src: &str) -> Result<String, String> {
    vm.state.out.borrow_mut().clear();
    vm.push_source("t.tex", src).unwrap();
    let r = vm.run::<H>().map_err(|e| e.error.title());
    let out = vm.state.out.borrow().join("");
    r.map(|_| out.clone()).map_err(|e| format!("{out} !{e}"))
}


thread_local! { static LAST: RefCell<Option<String>> = RefCell::new(None); }
fn one(src: &str) -> Result<(), String> {
    let r = std::panic::catch_unwind(|| {
        let mut vm = new_vm();
        let mut fs = texlang_common::InMemoryFileSystem::new(vm.working_directory.as_ref().unwrap()); fs.add_string_file("f.tex", "a{\nb}\n\\x"); vm.state.fs = Rc::new(RefCell::new(fs));
        vm.state.error_mode.set_default_terminal(Rc::new(RefCell::new(texlang_common::MockTerminalIn::default())));
        vm.push_source("t.tex", src).unwrap();
        match vm.run::<H>() { Ok(()) => {}, Err(e) => { let s = format!("{e}"); assert!(!s.is_empty()); } }
        // VM reusable
        vm.push_source("u.tex", "x").unwrap(); let _ = vm.run::<H>();
    });
    match r { Ok(()) => Ok(()), Err(p) => if p.is::<Budget>() { Ok(()) } else { Err(LAST.with(|l| l.borrow_mut().take()).unwrap_or_else(|| "?".into())) } }
}
fn main() {
    std::panic::set_hook(Box::new(|i| { let loc = i.location().map(|l| format!("{}:{}", l.file().trim_start_matches("/repo/crates/"), l.line())).unwrap_or_default(); LAST.with(|l| *l.borrow_mut() = Some(loc)); }));
    let full: Vec<&str> = vec!["\\advance", "\\batchmode", "\\catcode", "\\closein", "\\chardef", "\\count", "\\countdef", "\\day", "\\def", "\\dimen", "\\divide", "\\dumpFormat", "\\dumpValidate", "\\else", "\\endinput", "\\endlinechar", "\\errorstopmode", "\\expandafter", "\\fi", "\\gdef", "\\global", "\\globaldefs", "\\ifcase", "\\ifeof", "\\iffalse", "\\ifnum", "\\ifodd", "\\iftrue", "\\input", "\\jobname", "\\let", "\\long", "\\mathchardef", "\\mathcode", "\\month", "\\multiply", "\\newInt", "\\newIntArray", "\\noexpand", "\\nonstopmode", "\\or", "\\openin", "\\outer", "\\read", "\\relax", "\\scrollmode", "\\skip", "\\the", "\\time", "\\toks", "\\toksdef", "\\tracingmacros", "\\year", "\\fa", "\\probefont",
        "\\par", "\\undefined", "~", "{", "}", "#", "$", "^", "%", " ", "\n", "=", "-", "`", "'", "\"", ".", "a", "f", "é", "by", "to", "pt", "fil", "plus", "0", "1", "16", "255", "256", "32768", "55296", "1114112", "2147483647", "2147483648", "^^M", "\u{7f}", ":", "1pt"];
    let core: Vec<&str> = vec!["\\count", "\\dimen", "\\skip", "\\toks", "\\the", "\\def", "\\let", "\\global", "\\advance", "\\multiply", "\\divide", "\\catcode", "\\chardef", "\\countdef", "\\ifnum", "\\ifcase", "\\else", "\\fi", "\\expandafter", "\\noexpand", "\\read", "\\input", "\\openin", "\\ifeof", "\\a", "{", "}", "#", "1", "-", "=", " ", "2147483647", "f", "by", "to", "pt"];
    let modes = ["", "\\scrollmode ", "\\nonstopmode ", "\\batchmode "];
    let work: Vec<(Vec<&str>, usize)> = vec![(full.clone(), 1), (full.clone(), 2), (full.clone(), 3), (core.clone(), 4)];
    let sites = std::sync::Arc::new(std::sync::Mutex::new(BTreeMap::<String, (u64, String)>::new())); let total = std::sync::Arc::new(std::sync::atomic::AtomicU64::new(0));
    let t0 = std::time::Instant::now();
    for (vocab, len) in work { let n = vocab.len(); let count = n.pow(len as u32);
        let nthreads = 16; let mut hs = vec![];
        for th in 0..nthreads { let vocab = vocab.clone(); let sites = sites.clone(); let total = total.clone(); hs.push(std::thread::Builder::new().stack_size(64 << 20).spawn(move || {
            let mut i = th; while i < count { let mut k = i; let mut src = String::new(); for _ in 0..len { let t = vocab[k % n]; k /= n; src.push_str(t); if t.starts_with('\\') && t.len() > 2 { src.push(' '); } }
                for m in modes { let s = format!("{m}{src}"); total.fetch_add(1, std::sync::atomic::Ordering::Relaxed); if let Err(site) = one(&s) { let mut g = sites.lock().unwrap(); let e = g.entry(site).or_insert((0, s.clone())); e.0 += 1; if s.len() < e.1.len() { e.1 = s; } } }
                i += nthreads; } }).unwrap()); }
        for h in hs { h.join().unwrap(); }
        eprintln!("len {len} over {n} tokens done at {:?}", t0.elapsed()); }
    println!("programs={} sites={}", total.load(std::sync::atomic::Ordering::Relaxed), sites.lock().unwrap().len());
    for (k, (n, ex)) in sites.lock().unwrap().iter() { println!("{n:8} {k}   shortest: {ex:?}"); }
}
// Results on the pinned tree: 10 854 700 programs (all strings of <= 3 tokens over a 94-token vocabulary and of 4 tokens over a 37-token core,
// each in the four interaction modes) in 2 min 39 s on 16 threads; no abort, no hang (budget 3000 expansions, 100 recoverable errors); 10 panic sites:
//      15201 texlang-stdlib/src/conditional.rs:368   "\ifcase 2147483647"          (overflow while formatting an error note)
//      99926 texlang-stdlib/src/errormode.rs:118     "\batchmode \read {"          (DisabledTerminalIn::read_line is todo!())
//        725 texlang-stdlib/src/the.rs:107           "\the \fa "                   (harness artefact: font without a control sequence; HState must implement get_command_ref_for_font)
//     119401 texlang-stdlib/src/the.rs:83            "\the \def "                  (todo!("should return an error"))
//      77906 texlang-stdlib/src/the.rs:93            "\the ~"
//     206679 texlang-stdlib/src/the.rs:97            "\the #"
//      26932 texlang/src/error/display.rs:256        "é}"                          (char index used as byte index when rendering any error on a non-ASCII line)
//        111 texlang/src/error/display.rs:257        "éé}"
//       1482 texlang/src/parse/filelocation.rs:79    "\input :"                    (file areas: panic!("Texlang does not have support for file areas yet"))
//       1971 texlang/src/parse/integer.rs:79         "\catcode 55296"              (char::from_u32 on a surrogate)
