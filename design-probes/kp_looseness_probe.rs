// Design-time probe (not framework code): brute-force Knuth-Plass oracle (TeX 813-875 semantics)
// vs boxworks-knuthplass::break_line_single_attempt. Result recorded in DESIGN.md (C04).
// Built as src/main.rs of a scratch crate with path deps on boxworks, boxworks-knuthplass, common.
use boxworks::ds;
use boxworks_knuthplass::{debug, LineBreaker, Params};
use common::{Glue, GlueOrder, Scaled};
use std::collections::BTreeMap;

struct FR;
fn cw(c: char) -> i64 { (match c { 'a' => 5, 'b' => 3, 'c' => 2, '-' => 1, _ => 4 }) * 65536 }
impl boxworks::FontRepo for FR {
    fn width(&self, c: char, _f: u32) -> Option<Scaled> { Some(Scaled(cw(c) as i32)) }
    fn height(&self, _c: char, _f: u32) -> Option<Scaled> { Some(Scaled::ZERO) }
    fn depth(&self, _c: char, _f: u32) -> Option<Scaled> { Some(Scaled::ZERO) }
}
struct NoHyph; impl boxworks::Hyphenator for NoHyph { fn hyphenate(&self, _l: &mut Vec<ds::Horizontal>) {} }
struct Log(Vec<(usize, usize, i32, i32, i32)>);
impl debug::Logger for Log {
    fn log_attempt(&mut self, _a: debug::Attempt) {}
    fn log_feasible_breakpoint(&mut self, _l: &[ds::Horizontal], fb: debug::FeasibleBreakpoint) { self.0.push((fb.elem_index, fb.previous_node_index, fb.badness, fb.penalty, fb.demerits)); }
    fn log_new_active_node(&mut self, _an: debug::NewActiveNode) {}
}
const PT: i32 = 65536;
fn glue(w: i32, st: i32, sh: i32) -> ds::Horizontal { ds::Horizontal::Glue(ds::Glue { kind: ds::GlueKind::Normal, value: Glue { width: Scaled(w * PT), stretch: Scaled(st * PT), stretch_order: GlueOrder::Normal, shrink: Scaled(sh * PT), shrink_order: GlueOrder::Normal } }) }
fn ch(c: char) -> ds::Horizontal { ds::Char { char: c, font: 0 }.into() }
fn pen(p: i32) -> ds::Horizontal { ds::Horizontal::Penalty(ds::Penalty(p)) }
fn disc(pre: &str, post: &str, rc: u32) -> ds::Horizontal {
    ds::Horizontal::Discretionary(ds::Discretionary { pre_break: pre.chars().map(|c| ds::Char { char: c, font: 0 }.into()).collect(), post_break: post.chars().map(|c| ds::Char { char: c, font: 0 }.into()).collect(), replace_count: rc })
}
fn ekern(w: i32) -> ds::Horizontal { ds::Kern { width: Scaled(w * PT), kind: ds::KernKind::Explicit }.into() }

// ---------- oracle
#[derive(Clone, Copy, Default, Debug)]
struct W6 { w: i64, st: [i64; 4], sh: i64 }
impl W6 { fn add(&mut self, o: &W6, s: i64) { self.w += s * o.w; for i in 0..4 { self.st[i] += s * o.st[i]; } self.sh += s * o.sh; } }
fn item_w(it: &ds::Horizontal) -> W6 {
    use ds::Horizontal::*;
    match it {
        Char(c) => W6 { w: cw(c.char), ..Default::default() },
        Glue(g) => { let mut x = W6 { w: g.value.width.0 as i64, sh: g.value.shrink.0 as i64, ..Default::default() }; x.st[g.value.stretch_order as usize] = g.value.stretch.0 as i64; x }
        Kern(k) => W6 { w: k.width.0 as i64, ..Default::default() },
        _ => W6::default(),
    }
}
fn tex_badness(t: i64, s: i64) -> i32 {
    if t == 0 { return 0; } if s <= 0 { return 10000; }
    let r = if t <= 7230584 { (t * 297) / s } else if s >= 1663497 { t / (s / 297) } else { t };
    if r > 1290 { 10000 } else { ((r * r * r + 0o400000) / 0o1000000) as i32 }
}
#[derive(Clone, Copy, PartialEq, Debug)]
struct Bp { idx: usize, penalty: i32, hyph: bool }
struct Oracle<'a> { list: &'a [ds::Horizontal], params: &'a Params, widths: &'a [i64], tol: i32, s: Vec<W6>, bps: Vec<Bp> }
impl<'a> Oracle<'a> {
    fn new(list: &'a [ds::Horizontal], params: &'a Params, widths: &'a [i64], tol: i32) -> Self {
        use ds::Horizontal::*;
        let n = list.len();
        let mut s = vec![W6::default(); n + 1];
        for i in 0..n { s[i + 1] = s[i]; let w = item_w(&list[i]); s[i + 1].add(&w, 1); }
        let mut bps = vec![];
        let mut skip_until = 0usize;
        for i in 0..n {
            if i < skip_until { continue; }
            match &list[i] {
                Glue(_) => { if i > 0 && list[i - 1].precedes_break() { bps.push(Bp { idx: i, penalty: 0, hyph: false }); } }
                Kern(k) => { if k.kind == ds::KernKind::Explicit && matches!(list.get(i + 1), Some(Glue(_))) { bps.push(Bp { idx: i, penalty: 0, hyph: false }); } }
                Penalty(p) => { if p.0 < 10000 { bps.push(Bp { idx: i, penalty: p.0.max(-10000), hyph: false }); } }
                Discretionary(d) => { let p = if d.pre_break.is_empty() { params.ex_hyphen_penalty } else { params.hyphen_penalty }; if p < 10000 { bps.push(Bp { idx: i, penalty: p.max(-10000), hyph: true }); } skip_until = i + 1 + d.replace_count as usize; }
                _ => {}
            }
        }
        bps.push(Bp { idx: n, penalty: -10000, hyph: true });
        Oracle { list, params, widths, tol, s, bps }
    }
    fn background(&self) -> W6 { let mut b = W6::default(); for g in [&self.params.left_skip, &self.params.right_skip] { b.w += g.width.0 as i64; b.st[g.stretch_order as usize] += g.stretch.0 as i64; b.sh += g.shrink.0 as i64; } b }
    // TeX 837: total of the discardable run starting at index j (glue, penalty, math, explicit kern)
    fn disc_run(&self, mut j: usize) -> W6 {
        use ds::Horizontal::*;
        let mut d = W6::default();
        while j < self.list.len() {
            match &self.list[j] { Glue(_) => d.add(&item_w(&self.list[j]), 1), Penalty(_) => {}, Math(_) => {}, Kern(k) if k.kind == ds::KernKind::Explicit => d.add(&item_w(&self.list[j]), 1), _ => break }
            j += 1;
        }
        d
    }
    // line measures from break a (None = start) to break b:  background + S(b) - S(a) - D(a), TeX 837-844
    fn line(&self, a: Option<Bp>, b: Bp) -> W6 {
        use ds::Horizontal::*;
        let mut l = self.background();
        l.add(&self.s[b.idx], 1);
        match a {
            None => {}
            Some(a) => match &self.list[a.idx] {
                Discretionary(d) => {
                    let after = a.idx + 1 + d.replace_count as usize;
                    l.add(&self.s[after], -1);
                    for e in &d.post_break { l.w += e.width(&FR).0 as i64; }
                    if d.post_break.is_empty() { l.add(&self.disc_run(after), -1); }
                }
                _ => { l.add(&self.s[a.idx], -1); l.add(&self.disc_run(a.idx), -1); }
            },
        }
        if b.idx < self.list.len() { if let Discretionary(d) = &self.list[b.idx] { for e in &d.pre_break { l.w += e.width(&FR).0 as i64; } } }
        l
    }
    // returns (badness, fitness class 0 very loose, 1 loose, 2 decent, 3 tight); badness 10001 = overfull
    fn fit(&self, a: Option<Bp>, b: Bp, line_no: usize) -> (i32, i32) {
        let l = self.line(a, b);
        let lw = self.widths[(line_no - 1).min(self.widths.len() - 1)];
        let shortfall = lw - l.w;
        if shortfall > 0 {
            if l.st[1] != 0 || l.st[2] != 0 || l.st[3] != 0 { (0, 2) } else { let bd = tex_badness(shortfall, l.st[0]); (bd, if bd > 12 { if bd > 99 { 0 } else { 1 } } else { 2 }) }
        } else {
            let bd = if -shortfall > l.sh { 10001 } else { tex_badness(-shortfall, l.sh) };
            (bd, if bd > 12 { 3 } else { 2 })
        }
    }
    // TeX 859
    fn demerits(&self, bd: i32, b: Bp, prev_fit: i32, fit: i32, prev_hyph: bool, last: bool) -> i64 {
        let mut d = (self.params.line_penalty + bd) as i64;
        d = if d.abs() >= 10000 { 100000000 } else { d * d };
        let p = b.penalty as i64;
        if p != 0 { if p > 0 { d += p * p } else if p > -10000 { d -= p * p } }
        if b.hyph && prev_hyph { if !last { d += self.params.double_hyphen_demerits as i64 } else { d += self.params.final_hyphen_demerits as i64 } }
        if (fit - prev_fit).abs() > 1 { d += self.params.adj_demerits as i64 }
        d
    }
    // the premise in the property: "a->b overfull" is upward closed in b
    fn monotone(&self) -> bool {
        let mut starts: Vec<Option<Bp>> = vec![None]; starts.extend(self.bps.iter().map(|b| Some(*b)));
        for a in &starts { let mut seen_over = false; for b in &self.bps { if let Some(a) = a { if b.idx <= a.idx { continue; } }
            let over = (1..=3).any(|ln| self.fit(*a, *b, ln).0 > 10000);
            if seen_over && !over { return false; } if over { seen_over = true; } } }
        true
    }
    // brute force over all subsets of legal breakpoints
    fn best(&self) -> Option<(i64, Vec<usize>)> {
        let m = self.bps.len();
        let mut best: Option<(i64, Vec<usize>)> = None;
        'outer: for mask in 0u32..(1 << (m - 1)) {
            let mut seq: Vec<Bp> = (0..m - 1).filter(|i| mask >> i & 1 == 1).map(|i| self.bps[i]).collect();
            for i in 0..m - 1 { if self.bps[i].penalty <= -10000 && mask >> i & 1 == 0 { continue 'outer; } }
            seq.push(self.bps[m - 1]);
            let mut prev: Option<Bp> = None; let mut prev_fit = 2; let mut total = 0i64;
            for (k, b) in seq.iter().enumerate() {
                let (bd, fit) = self.fit(prev, *b, k + 1);
                if bd > self.tol || bd > 10000 { continue 'outer; }
                total += self.demerits(bd, *b, prev_fit, fit, prev.map(|p| p.hyph).unwrap_or(false), b.idx == self.list.len());
                prev = Some(*b); prev_fit = fit;
            }
            if best.as_ref().map(|x| total < x.0).unwrap_or(true) { best = Some((total, seq.iter().map(|b| b.idx).collect())); }
        }
        best
    }
    fn per_count(&self) -> std::collections::BTreeMap<usize, i64> {
        let m = self.bps.len(); let mut out = std::collections::BTreeMap::new();
        'outer: for mask in 0u32..(1 << (m - 1)) {
            let mut seq: Vec<Bp> = (0..m - 1).filter(|i| mask >> i & 1 == 1).map(|i| self.bps[i]).collect();
            for i in 0..m - 1 { if self.bps[i].penalty <= -10000 && mask >> i & 1 == 0 { continue 'outer; } }
            seq.push(self.bps[m - 1]);
            let mut prev: Option<Bp> = None; let mut prev_fit = 2; let mut total = 0i64;
            for (k, b) in seq.iter().enumerate() { let (bd, fit) = self.fit(prev, *b, k + 1); if bd > self.tol || bd > 10000 { continue 'outer; }
                total += self.demerits(bd, *b, prev_fit, fit, prev.map(|p| p.hyph).unwrap_or(false), b.idx == self.list.len()); prev = Some(*b); prev_fit = fit; }
            let e = out.entry(seq.len()).or_insert(i64::MAX); if total < *e { *e = total; }
        }
        out
    }
    fn eval(&self, breaks: &[usize]) -> Option<i64> {
        let mut prev: Option<Bp> = None; let mut prev_fit = 2; let mut total = 0i64;
        for (k, bi) in breaks.iter().enumerate() {
            let b = *self.bps.iter().find(|b| b.idx == *bi)?;
            let (bd, fit) = self.fit(prev, b, k + 1);
            if bd > self.tol || bd > 10000 { return None; }
            total += self.demerits(bd, b, prev_fit, fit, prev.map(|p| p.hyph).unwrap_or(false), b.idx == self.list.len());
            prev = Some(b); prev_fit = fit;
        }
        Some(total)
    }
}

fn main() {
    std::panic::set_hook(Box::new(|_| {}));
    let menu: Vec<Vec<ds::Horizontal>> = vec![vec![glue(2, 1, 1)], vec![glue(2, 3, 0)], vec![glue(1, 0, 1)], vec![glue(3, 2, 2)], vec![pen(50)], vec![disc("-", "", 0)], vec![disc("-", "c", 0)], vec![]];
    let boxes = ['a', 'b'];
    let mut classes: BTreeMap<String, (u64, String)> = BTreeMap::new();
    let (mut total, mut agree, mut changed, mut ties) = (0u64, 0u64, 0u64, 0u64);
    let nb = 5usize; let m = menu.len(); let mut idx = vec![0usize; nb - 1 + nb];
    loop {
        let mut list: Vec<ds::Horizontal> = vec![];
        for k in 0..nb { list.push(ch(boxes[idx[nb - 1 + k] % 2])); if k + 1 < nb { list.extend(menu[idx[k]].iter().cloned()); } }
        list.push(pen(10000)); list.push(ds::Horizontal::Glue(ds::Glue { kind: ds::GlueKind::Normal, value: Params::plain_tex_defaults().par_fill_skip }));
        for widths in [vec![9i64], vec![12], vec![16]] { for tol in [10000, 200] { for loose in [1i32, -1, 2] { for force in [false, true] {
            let mut params = Params::plain_tex_defaults(); params.looseness = loose;
            let wsp: Vec<Scaled> = widths.iter().map(|w| Scaled((*w as i32) * PT)).collect(); let wsi: Vec<i64> = widths.iter().map(|w| w * 65536).collect();
            let o = Oracle::new(&list, &params, &wsi, tol);
            if o.bps.len() > 12 || !o.monotone() { continue; }
            let pc = o.per_count(); if pc.is_empty() { continue; } // force_solution artificial demerits not modelled
            let minv = *pc.values().min().unwrap(); let bests: Vec<usize> = pc.iter().filter(|(_, v)| **v == minv).map(|(k, _)| *k).collect();
            if bests.len() > 1 { ties += 1; continue; }
            total += 1;
            let best_line = bests[0] as i32;
            let mut actual = 0i32; for (l, _) in &pc { let d = *l as i32 - best_line; if (d < actual && loose <= d) || (d > actual && loose >= d) { actual = d; } }
            let want: Option<(usize, i64)> = if actual != loose && !force { None } else { Some(((best_line + actual) as usize, pc[&((best_line + actual) as usize)])) };
            let got = { let mut lb = LineBreaker { params: &params, line_widths: &wsp, line_indents: &[], debug_logger: None, hyphenator: &NoHyph };
                std::panic::catch_unwind(std::panic::AssertUnwindSafe(|| lb.break_line_single_attempt(&list, &FR, tol, Scaled::ZERO, force))) };
            let desc = || format!("list={} widths={:?} tol={tol} looseness={loose} force={force} per_count={pc:?}", list.iter().map(|x| x.to_string().replace('\n', " ")).collect::<Vec<_>>().join(" "), widths);
            match got { Err(_) => { classes.entry("PANIC".into()).or_insert((0, desc())).0 += 1; }
                Ok(g) => { let g2 = g.as_ref().map(|b| (b.len(), o.eval(b)));
                    match (&want, &g2) { (None, None) => agree += 1, (Some((l, d)), Some((gl, Some(gd)))) if l == gl && d == gd => { agree += 1; if actual != 0 { changed += 1; } }
                        _ => { classes.entry(format!("looseness result differs (loose={loose} force={force})")).or_insert((0, format!("{} want={want:?} got={g2:?}", desc()))).0 += 1; } } } }
        } } } }
        let mut k = idx.len(); let mut done = false;
        loop { if k == 0 { done = true; break; } k -= 1; idx[k] += 1; let lim = if k < nb - 1 { m } else { 2 }; if idx[k] < lim { break; } idx[k] = 0; }
        if done { break; }
    }
    println!("looseness instances={total} agree={agree} line-count-changed={changed} skipped-ties={ties}");
    for (k, (n, ex)) in &classes { println!("{n:8} {k}\n      e.g. {}", ex.chars().take(700).collect::<String>()); }
}
// Result on the pinned tree: looseness in {+1, -1, +2}, force_solution off/on, 5 boxes x 8 separators, 3 widths, 2 tolerances:
// 3 004 626 instances with at least one feasible sequence and a unique optimal line count, 1 329 549 of them with a changed line count:
// line count and total demerits equal the TeX 875 rule evaluated over all feasible sequences in every instance (10 s, one core).
