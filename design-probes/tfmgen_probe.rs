// Design-time probe: C11 on generated property lists at the size boundaries (entry-point redirection, table compression).
use std::collections::BTreeMap;
use std::fmt::Write;
fn chars() -> Vec<char> { ('A'..='Z').chain('a'..='z').chain('0'..='9').collect() }
fn runall(p: &tfm::ligkern::CompiledProgram) -> Vec<String> { let mut out = vec![]; for (l, r) in p.all_pairs_with_replacements() { let word: String = match l { Some(l) => vec![char::from(l), char::from(r)], None => vec![char::from(r)] }.into_iter().collect();
    let items: Vec<String> = p.run_with_options(word.chars(), tfm::ligkern::RunOptions { disable_left_boundary: l.is_some(), right_boundary_override: None }).map(|i| format!("{i:?}")).collect(); out.push(format!("{l:?}{r:?}->{}", items.join(","))); } out }
fn main() {
    std::panic::set_hook(Box::new(|_| {}));
    let fmt = |_: &tfm::pl::File| tfm::pl::CharDisplayFormat::Default;
    let mut classes: BTreeMap<String, (u64, String)> = BTreeMap::new(); let (mut total, mut ok) = (0u64, 0u64);
    let cs = chars();
    let mut cases: Vec<(String, String)> = vec![];
    // family A: n instructions spread over labelled chains; boundary on/off; ligatures mixed in
    for n in (248..=262).chain([300, 509, 510, 511, 512, 513, 600, 1000]) { for per in [1usize, 3, 7, 40] { for boundary in [false, true] {
        let mut pl = String::from("(DESIGNSIZE R 10.0)\n"); if boundary { pl.push_str("(BOUNDARYCHAR C z)\n"); }
        for c in &cs { writeln!(pl, "(CHARACTER C {c} (CHARWD R 1.0))").unwrap(); }
        pl.push_str("(LIGTABLE\n"); let mut made = 0usize; let mut ci = 0usize;
        if boundary { pl.push_str(" (LABEL BOUNDARYCHAR)\n (KRN C A R 0.5)\n (STOP)\n"); made += 1; }
        while made < n { let c = cs[ci % cs.len()]; ci += 1; if ci > cs.len() { break; } writeln!(pl, " (LABEL C {c})").unwrap(); let k = per.min(n - made);
            for j in 0..k { let r = cs[(ci + j * 5) % cs.len()]; if j % 4 == 3 { writeln!(pl, " (LIG C {r} C {})", cs[(ci + j) % 26]).unwrap(); } else { writeln!(pl, " (KRN C {r} R 0.{})", 1 + (j % 9)).unwrap(); } } made += k; pl.push_str(" (STOP)\n"); }
        pl.push_str(" )\n"); cases.push((format!("ligtable n={n} per={per} boundary={boundary} (made {made})"), pl)); } } }
    // family B: distinct heights / depths / italics around the table limits
    for (prop, lims) in [("CHARHT", vec![14usize, 15, 16, 17, 40]), ("CHARDP", vec![14, 15, 16, 17]), ("CHARIC", vec![62, 63, 64, 65])] { for k in lims {
        let mut pl = String::from("(DESIGNSIZE R 10.0)\n"); for (i, c) in cs.iter().enumerate() { writeln!(pl, "(CHARACTER C {c} (CHARWD R 1.0) ({prop} R {}.{}))", (i % k) / 10, (i % k) % 10 * 1 + 1).unwrap(); }
        cases.push((format!("{prop} with {k} distinct values"), pl)); } }
    for (name, pl) in &cases { total += 1;
        let r = std::panic::catch_unwind(|| {
            let (pl_file, w0) = tfm::pl::File::from_pl_source_code(pl); if !w0.is_empty() { return Err(format!("generator produced a PL with {} warnings: {:?}", w0.len(), format!("{:?}", w0[0]).chars().take(100).collect::<String>())); }
            let (b0, _) = tfm::algorithms::pl_to_tfm(pl);
            let o1 = tfm::algorithms::tfm_to_pl(&b0, 3, &fmt).unwrap(); let p1 = o1.pl_data.map_err(|e| format!("own output unreadable: {e:?}"))?; if !o1.error_messages.is_empty() { return Err(format!("TFtoPL complains about PLtoTF output: {}", o1.error_messages[0].tftopl_message().chars().take(120).collect::<String>())); }
            let (b1, w1) = tfm::algorithms::pl_to_tfm(&p1); if !w1.is_empty() { return Err("second PLtoTF warns".into()); }
            if b1 != b0 { return Err(format!("not a fixed point: first difference at byte {} (len {} vs {})", b0.iter().zip(b1.iter()).position(|(a, b)| a != b).unwrap_or(0), b0.len(), b1.len())); }
            let from_pl = tfm::ligkern::CompiledProgram::compile_from_pl_file(&pl_file); let mut f = tfm::File::deserialize(&b0).0.unwrap(); let from_tfm = tfm::ligkern::CompiledProgram::compile_from_tfm_file(&mut f);
            if from_pl.1.len() != from_tfm.1.len() { return Err("loop verdict differs between PL and TFM".into()); }
            let (a, b) = (runall(&from_pl.0), runall(&from_tfm.0)); if a != b { let i = a.iter().zip(b.iter()).position(|(x, y)| x != y); return Err(format!("lig/kern behaviour differs between the PL and the TFM: {:?} vs {:?} ({} vs {} pairs)", i.map(|i| &a[i]), i.map(|i| &b[i]), a.len(), b.len())); }
            Ok(())
        });
        match r { Err(_) => { classes.entry("PANIC".into()).or_insert((0, name.clone())).0 += 1; } Ok(Ok(())) => ok += 1, Ok(Err(e)) => { classes.entry(e.split(':').next().unwrap().to_string()).or_insert((0, format!("{name}: {e}"))).0 += 1; } } }
    println!("generated fonts={total} ok={ok}");
    for (k, (n, ex)) in &classes { println!("{n:6} {k}\n      first: {}", ex.chars().take(420).collect::<String>()); }
}
// Result on the pinned tree: 197 generated property lists (lig tables of 248..262, 300, 509..513, 600 and 1000 instructions with 1, 3, 7 or 40
// instructions per label, with and without a boundary label; 14..17 / 40 distinct heights, 14..17 depths, 62..65 italic corrections):
// every one is warning-free, PL -> TFM -> PL -> TFM is a byte fixed point with no message, and the lig/kern program compiled from the property
// list behaves like the one compiled from the TFM bytes on every pair (entry-point redirection beyond 255 instructions included).
