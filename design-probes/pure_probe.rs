// Design-time probe: pure-function properties C13 (Liang), C15 (hpack), C16 (DVI), C17 (compress, next larger, fix_word), C10 (header sweep).
use boxworks::ds;
use common::{Glue, GlueOrder, Scaled};
use std::collections::{BTreeMap, HashMap};
type Classes = BTreeMap<String, (u64, String)>;
fn note(c: &mut Classes, k: String, ex: String) { c.entry(k).or_insert((0, ex)).0 += 1; }
fn report(name: &str, total: u64, c: &Classes) { println!("== {name}: cases={total} classes={}", c.len()); for (k, (n, ex)) in c.iter().take(12) { println!("{n:8} {k}\n      first: {}", ex.chars().take(300).collect::<String>()); } }

// ---------- C13
fn liang_ref(patterns: &[String], exceptions: &[String], word: &str) -> Vec<usize> {
    let w: Vec<char> = word.to_lowercase().chars().collect();
    for e in exceptions { let plain: String = e.chars().filter(|c| *c != '-').collect(); if plain == w.iter().collect::<String>() { let mut v = vec![]; let mut i = 0; for c in e.chars() { if c == '-' { if i > 0 { v.push(i); } } else { i += 1; } } return v; } }
    let dotted: Vec<char> = std::iter::once('.').chain(w.iter().copied()).chain(std::iter::once('.')).collect();
    let mut score = vec![0u8; w.len() + 2]; // score[i] = between dotted[i] and dotted[i+1]... index: position before dotted[i]
    for p in patterns {
        let mut letters: Vec<char> = vec![]; let mut digits: Vec<u8> = vec![0];
        for c in p.chars() { if let Some(d) = c.to_digit(10) { *digits.last_mut().unwrap() = d as u8; } else { letters.push(c); digits.push(0); } }
        if letters.len() > dotted.len() { continue; }
        for s in 0..=(dotted.len() - letters.len()) { if dotted[s..s + letters.len()] == letters[..] { for (k, d) in digits.iter().enumerate() { let pos = s + k; if pos < score.len() + 1 && pos >= 1 && pos - 1 < score.len() { if score[pos - 1] < *d { score[pos - 1] = *d; } } } } }
    }
    // score[j] is the slot before dotted[j+1]; slot before word letter i (0-based) is dotted index i+1 => score[i]
    (1..w.len()).filter(|&i| score[i] % 2 == 1).collect()
}
fn c13() {
    let mut c = Classes::new(); let mut total = 0u64;
    let letters = ['a', 'b'];
    let mut pats: Vec<String> = vec![];
    for len in 1..=2usize { let mut idx = vec![0; len]; loop {
        let ls: Vec<char> = idx.iter().map(|i| letters[*i]).collect();
        for anchors in 0..4 { let mut didx = vec![0usize; len + 1]; loop {
            let ds = [None, Some(1), Some(2), Some(9)];
            if didx.iter().any(|d| *d != 0) {
                let mut p = String::new(); if anchors & 1 == 1 { p.push('.'); }
                for i in 0..len { if let Some(d) = ds[didx[i]] { p.push_str(&d.to_string()); } p.push(ls[i]); }
                if let Some(d) = ds[didx[len]] { p.push_str(&d.to_string()); } if anchors & 2 == 2 { p.push('.'); }
                pats.push(p);
            }
            let mut k = len + 1; let mut done = false; loop { if k == 0 { done = true; break; } k -= 1; didx[k] += 1; if didx[k] < 4 { break; } didx[k] = 0; } if done { break; }
        } }
        let mut k = len; let mut done = false; loop { if k == 0 { done = true; break; } k -= 1; idx[k] += 1; if idx[k] < 2 { break; } idx[k] = 0; } if done { break; }
    } }
    let words: Vec<String> = { let mut w = vec![]; for len in 1..=5usize { for m in 0..(1u32 << len) { w.push((0..len).map(|i| if m >> i & 1 == 1 { 'b' } else { 'a' }).collect::<String>()); } } w.push("AbA".into()); w.push("BAAB".into()); w };
    let lc = hyphenate::AsciiLowerCaser::default();
    let excs: Vec<Vec<String>> = vec![vec![], vec!["a-b".into()], vec!["ab".into()], vec!["aa-b-a".into()]];
    println!("patterns={} words={}", pats.len(), words.len());
    for (i, p1) in pats.iter().enumerate() { for p2 in pats.iter().skip(i).step_by(7) { for ex in &excs {
        let strip = |p: &String| -> String { p.chars().filter(|ch| !ch.is_ascii_digit()).collect() };
        if strip(p1) == strip(p2) && p1 != p2 { continue; } // TeX 963: duplicate pattern is an error
        let set = vec![p1.clone(), p2.clone()];
        let mut h = hyphenate::Hyphenator::default(); h.load_patterns(&set.join(" ")); for e in ex { h.insert_exception(e); }
        for w in &words { total += 1;
            let want = liang_ref(&set, ex, w);
            let got = std::panic::catch_unwind(std::panic::AssertUnwindSafe(|| h.calculate_indices(&lc, w).collect::<Vec<_>>()));
            match got { Err(_) => note(&mut c, "PANIC".into(), format!("{set:?} {ex:?} {w}")), Ok(g) => if g != want {
                let cls = if !ex.is_empty() && ex.iter().any(|e| e.replace('-', "") == w.to_lowercase()) { "exception word overridden by pattern (D11)" } else { "DIFF" };
                note(&mut c, cls.into(), format!("{set:?} exc={ex:?} word={w} want={want:?} got={g:?}")) } }
        } } } }
    report("C13 liang", total, &c);
}

// ---------- C15
struct FR; impl boxworks::FontRepo for FR {
    fn width(&self, c: char, _f: u32) -> Option<Scaled> { Some(Scaled(if c == 'a' { 5 } else { 3 } * 65536)) }
    fn height(&self, c: char, _f: u32) -> Option<Scaled> { Some(Scaled(if c == 'a' { 7 } else { 4 } * 65536)) }
    fn depth(&self, c: char, _f: u32) -> Option<Scaled> { Some(Scaled(if c == 'a' { 1 } else { 2 } * 65536)) } }
fn c15() {
    use GlueOrder::*;
    let mut c = Classes::new(); let mut total = 0u64;
    let mut menu: Vec<ds::Horizontal> = vec![ds::Char { char: 'a', font: 0 }.into(), ds::Char { char: 'b', font: 0 }.into(), ds::Kern { width: Scaled(-2 * 65536), kind: ds::KernKind::Normal }.into(), ds::Horizontal::Penalty(ds::Penalty(5)),
        ds::Horizontal::HBox(ds::HBox { height: Scaled(9 * 65536), width: Scaled(2 * 65536), depth: Scaled(3 * 65536), shift_amount: Scaled(4 * 65536), ..Default::default() }),
        ds::Horizontal::HBox(ds::HBox { height: Scaled(9 * 65536), width: Scaled(2 * 65536), depth: Scaled(3 * 65536), shift_amount: Scaled(-4 * 65536), ..Default::default() }) ];
    for (st, so) in [(0, Normal), (2, Normal), (-2, Normal), (2, Fil), (-2, Fil), (0, Fil), (3, Filll)] { for (sh, sho) in [(0, Normal), (1, Normal), (-1, Normal), (1, Fill), (0, Fill)] {
        menu.push(ds::Horizontal::Glue(ds::Glue { kind: ds::GlueKind::Normal, value: Glue { width: Scaled(65536), stretch: Scaled(st * 65536), stretch_order: so, shrink: Scaled(sh * 65536), shrink_order: sho } })); } }
    let m = menu.len();
    let len = 3usize; let mut idx = vec![0usize; len];
    loop {
        let list: Vec<ds::Horizontal> = idx.iter().map(|i| menu[*i].clone()).collect();
        if std::env::var("NOBOX").is_ok() && list.iter().any(|i| matches!(i, ds::Horizontal::HBox(_))) { let mut k = len; let mut done = false; loop { if k == 0 { done = true; break; } k -= 1; idx[k] += 1; if idx[k] < m { break; } idx[k] = 0; } if done { break; } continue; }
        // reference hpack
        let (mut nat, mut h, mut d) = (0i64, 0i64, 0i64); let mut ts = [0i64; 4]; let mut tk = [0i64; 4];
        for it in &list { use ds::Horizontal::*; match it {
            Char(ch) => { nat += if ch.char == 'a' { 5 } else { 3 } * 65536; h = h.max(if ch.char == 'a' { 7 } else { 4 } * 65536); d = d.max(if ch.char == 'a' { 1 } else { 2 } * 65536); }
            Kern(k) => nat += k.width.0 as i64,
            HBox(b) => { nat += b.width.0 as i64; h = h.max((b.height.0 - b.shift_amount.0) as i64); d = d.max((b.depth.0 + b.shift_amount.0) as i64); }
            Glue(g) => { nat += g.value.width.0 as i64; ts[g.value.stretch_order as usize] += g.value.stretch.0 as i64; tk[g.value.shrink_order as usize] += g.value.shrink.0 as i64; }
            _ => {} } }
        for target in [-3i64, -1, 0, 1, 2, 5] {
            total += 1;
            let w = nat + target * 65536;
            let x = w - nat;
            // expected (order, sign, num, den) ; unset => ratio 0
            let (eo, enum_, eden): (usize, i64, i64) = if x == 0 { (0, 0, 1) } else if x > 0 {
                let o = (0..4).rev().find(|o| ts[*o] != 0).unwrap_or(0); if ts[o] != 0 { (o, x, ts[o]) } else { (0, 0, 1) }
            } else {
                let o = (0..4).rev().find(|o| tk[*o] != 0).unwrap_or(0);
                if tk[o] != 0 { if tk[o] < -x && o == 0 { (o, 1, 1) } else { (o, -x, tk[o]) } } else { (o, 0, 1) } };
            let got = std::panic::catch_unwind(std::panic::AssertUnwindSafe(|| ds::HBox::pack(&FR, list.clone(), ds::PackWidth::Exact(Scaled(w as i32)))));
            let desc = || format!("list=[{}] target={target}pt", list.iter().map(|x| x.to_string().replace('\n', "")).collect::<Vec<_>>().join(" "));
            match got { Err(_) => note(&mut c, "PANIC".into(), desc()), Ok(b) => {
                if b.width.0 as i64 != w || b.height.0 as i64 != h || b.depth.0 as i64 != d { note(&mut c, "dims differ".into(), format!("{} want w/h/d={w}/{h}/{d} got {}/{}/{}", desc(), b.width.0, b.height.0, b.depth.0)); continue; }
                let want_ratio = ds::GlueRatio { num: Scaled(enum_ as i32), den: Scaled(eden as i32) };
                let ratio_ok = format!("{}", want_ratio) == format!("{}", ds::GlueRatio { num: Scaled(b.glue_ratio.num.0.abs()), den: Scaled(b.glue_ratio.den.0.abs()) });
                let order_ok = enum_ == 0 || b.glue_order as usize == eo;
                if !ratio_ok || !order_ok {
                    let zero_hi = (x > 0 && (1..4).any(|o| ts[o] == 0) && list.iter().any(|i| matches!(i, ds::Horizontal::Glue(g) if g.value.stretch_order != Normal))) || (x < 0 && list.iter().any(|i| matches!(i, ds::Horizontal::Glue(g) if g.value.shrink_order != Normal)));
                    note(&mut c, format!("glue set differs ({})", if zero_hi { "higher order present with zero/cancelling total: D13" } else { "other" }), format!("{} want order={eo} ratio={} got order={:?} ratio={}", desc(), want_ratio, b.glue_order, b.glue_ratio)); }
            } }
        }
        let mut k = len; let mut done = false; loop { if k == 0 { done = true; break; } k -= 1; idx[k] += 1; if idx[k] < m { break; } idx[k] = 0; } if done { break; }
    }
    report("C15 hpack", total, &c);
}

// ---------- C16
fn c16() {
    use dvi::{Op, Var};
    let mut c = Classes::new(); let mut total = 0u64;
    let mut vals: Vec<i32> = vec![0, 1, -1]; for k in [7, 8, 15, 16, 23, 24, 31] { let p: i64 = 1 << k; for d in [-1i64, 0, 1] { for s in [1i64, -1] { let v = s * (p + d); if v >= i32::MIN as i64 && v <= i32::MAX as i64 { vals.push(v as i32); } } } } vals.sort(); vals.dedup();
    let mut ops: Vec<Op> = vec![Op::NoOp, Op::EndPage, Op::Push, Op::Pop];
    for &v in &vals { ops.push(Op::Right(v)); ops.push(Op::Down(v)); for var in [Var::W, Var::X, Var::Y, Var::Z] { ops.push(Op::SetVar(var, v)); }
        ops.push(Op::TypesetRule { height: v, width: v.wrapping_add(1), move_h: true }); ops.push(Op::TypesetRule { height: v, width: v, move_h: false });
        ops.push(Op::TypesetChar { char: v as u32, move_h: true }); ops.push(Op::TypesetChar { char: v as u32, move_h: false }); ops.push(Op::EnableFont(v as u32));
        ops.push(Op::BeginPage { parameters: [v; 10], previous_begin_page: v });
        ops.push(Op::DefineFont { number: v as u32, checksum: v as u32, at_size: 1, design_size: 2, area: "a".repeat((v.unsigned_abs() % 256) as usize), name: "n".into() }); }
    for var in [Var::W, Var::X, Var::Y, Var::Z] { ops.push(Op::Move(var)); }
    for l in [0usize, 1, 255, 256, 65536] { ops.push(Op::Extension(vec![7u8; l])); }
    for op in &ops { total += 1;
        let r = std::panic::catch_unwind(|| { let b = dvi::serialize(vec![op.clone()]); let mut res = Ok(()); let back: Vec<Op> = dvi::Deserializer::new(&b, &mut res).collect(); (b.len(), back, res) });
        match r { Err(_) => note(&mut c, "PANIC".into(), format!("{op:?}")), Ok((_n, back, res)) => if res.is_err() || back != vec![op.clone()] { note(&mut c, format!("roundtrip differs: {}", format!("{op:?}").split(|ch| ch == '(' || ch == ' ').next().unwrap()), format!("{op:?} -> {:?} {:?}", back.first(), res)); } } }
    // all byte strings <= 2 (+ 3 with first byte opcode sample)
    for a in 0..=255u8 { for b in 0..=255u8 { for n in 1..=3usize { let bytes = [a, b, 200][..n].to_vec(); total += 1;
        let r = std::panic::catch_unwind(|| { let mut res = Ok(()); let v: Vec<Op> = dvi::Deserializer::new(&bytes, &mut res).collect(); v.len() });
        if r.is_err() { note(&mut c, "PANIC on bytes".into(), format!("{bytes:?}")); } } } }
    // VarRemover: exhaustive sequences length <= 5 over small alphabet, compare positions
    let alpha: Vec<Op> = vec![Op::Right(1), Op::Down(2), Op::SetVar(Var::W, 3), Op::SetVar(Var::Y, -5), Op::SetVar(Var::X, 0), Op::Move(Var::W), Op::Move(Var::Y), Op::Move(Var::X), Op::Move(Var::Z), Op::Push, Op::Pop,
        Op::BeginPage { parameters: [0; 10], previous_begin_page: -1 }, Op::TypesetChar { char: 65, move_h: false }, Op::TypesetRule { height: 1, width: 2, move_h: true }, Op::EnableFont(1)];
    let track = |ops: &[Op]| -> Vec<(i32, i32, u32)> { // independent tracker
        let (mut h, mut v, mut w, mut x, mut y, mut z, mut f) = (0i32, 0i32, 0i32, 0i32, 0i32, 0i32, 0u32); let mut st: Vec<[i32; 6]> = vec![]; let mut out = vec![];
        for op in ops { match op { Op::Right(d) => h += d, Op::Down(d) => v += d, Op::SetVar(Var::W, d) => { w = *d; h += d } Op::SetVar(Var::X, d) => { x = *d; h += d } Op::SetVar(Var::Y, d) => { y = *d; v += d } Op::SetVar(Var::Z, d) => { z = *d; v += d }
            Op::Move(Var::W) => h += w, Op::Move(Var::X) => h += x, Op::Move(Var::Y) => v += y, Op::Move(Var::Z) => v += z, Op::Push => st.push([h, v, w, x, y, z]), Op::Pop => { if let Some(s) = st.pop() { h = s[0]; v = s[1]; w = s[2]; x = s[3]; y = s[4]; z = s[5]; } }
            Op::BeginPage { .. } => { h = 0; v = 0; w = 0; x = 0; y = 0; z = 0; st.clear(); } Op::EnableFont(n) => f = *n, Op::TypesetChar { .. } => out.push((h, v, f)), Op::TypesetRule { width, move_h, .. } => { out.push((h, v, f)); if *move_h { h += width; } } _ => {} } }
        out };
    let n = alpha.len(); let len = 5usize; let mut idx = vec![0usize; len];
    loop { total += 1;
        let ops: Vec<Op> = idx.iter().map(|i| alpha[*i].clone()).collect();
        let out: Vec<Op> = dvi::transforms::VarRemover::new(ops.clone()).collect();
        if out.iter().any(|o| matches!(o, Op::Move(_) | Op::SetVar(..))) { note(&mut c, "variables remain".into(), format!("{ops:?}")); }
        if track(&ops) != track(&out) { note(&mut c, "positions differ".into(), format!("{ops:?} -> {out:?}")); }
        let mut k = len; let mut done = false; loop { if k == 0 { done = true; break; } k -= 1; idx[k] += 1; if idx[k] < n { break; } idx[k] = 0; } if done { break; } }
    report("C16 dvi", total, &c);
}

// ---------- C17 + C10
fn c17() {
    use tfm::{Char, FixWord, NextLargerProgram};
    let mut c = Classes::new(); let mut total = 0u64;
    // compress: all multisets <=5 over lattice
    let lat: Vec<i32> = vec![0, 1, 2, 5, 6, 20, -3];
    let mut idx = vec![0usize; 5];
    loop {
        let vals: Vec<FixWord> = idx.iter().map(|i| FixWord(lat[*i])).collect();
        let mut dd: Vec<i32> = vals.iter().map(|v| v.0).collect(); dd.sort(); dd.dedup();
        for max in 1..=5u8 { total += 1;
            let r = std::panic::catch_unwind(|| tfm::compress(&vals, max));
            match r { Err(_) => note(&mut c, "compress PANIC".into(), format!("{dd:?} max={max}")), Ok((table, map)) => {
                if table.len() - 1 > max as usize { note(&mut c, "compress: too many classes".into(), format!("{dd:?} max={max} table={table:?}")); }
                // brute force minimal tolerance: greedy cover count for delta
                let cover = |delta: i64| -> usize { let mut n = 0; let mut i = 0; while i < dd.len() { let s = dd[i] as i64; n += 1; while i < dd.len() && (dd[i] as i64 - s) <= delta { i += 1; } } n };
                let mut best = 0i64; while cover(best) > max as usize { best += 1; }
                let worst = dd.iter().map(|v| { let rep = table[map[&FixWord(*v)].get() as usize].0 as i64; (2 * (*v as i64 - rep)).abs() }).max().unwrap_or(0);
                if worst > best + 1 { note(&mut c, "compress: value farther than half the minimal tolerance".into(), format!("{dd:?} max={max} best_delta={best} worst2x={worst} table={table:?}")); }
            } } }
        let mut k = 5; let mut done = false; loop { if k == 0 { done = true; break; } k -= 1; idx[k] += 1; if idx[k] < lat.len() { break; } idx[k] = 0; } if done { break; } }
    // next larger: all partial functional graphs on 5 nodes
    let nn = 5usize; let mut f = vec![0usize; nn]; // 0 = none, k = edge to node k-1
    loop { total += 1;
        let edges: Vec<(Char, Char)> = (0..nn).filter(|i| f[*i] != 0).map(|i| (Char(i as u8 + 65), Char(f[i] as u8 - 1 + 65))).collect();
        let r = std::panic::catch_unwind(|| { let (p, w) = NextLargerProgram::new(edges.clone().into_iter(), |_| true, true); let seqs: Vec<Vec<u8>> = (0..nn).map(|i| p.get(Char(i as u8 + 65)).take(20).map(|c| c.0).collect()).collect(); (seqs, w.len()) });
        match r { Err(_) => note(&mut c, "nextlarger PANIC".into(), format!("{edges:?}")), Ok((seqs, _nw)) => {
            // oracle: cut edge out of the largest node of each cycle
            let mut g: Vec<Option<usize>> = (0..nn).map(|i| if f[i] == 0 { None } else { Some(f[i] - 1) }).collect();
            for s in 0..nn { let mut seen = vec![]; let mut cur = s; loop { if seen.contains(&cur) { let pos = seen.iter().position(|x| *x == cur).unwrap(); let cyc = &seen[pos..]; let mx = *cyc.iter().max().unwrap(); g[mx] = None; break; } seen.push(cur); match g[cur] { None => break, Some(n) => cur = n } } }
            for s in 0..nn { let mut want = vec![]; let mut cur = s; while let Some(n) = g[cur] { want.push(n as u8 + 65); cur = n; if want.len() > 10 { break; } }
                if want != seqs[s] { note(&mut c, "nextlarger: chain differs".into(), format!("edges={edges:?} start={} want={want:?} got={:?}", (s as u8 + 65) as char, seqs[s])); break; } }
        } }
        let mut k = nn; let mut done = false; loop { if k == 0 { done = true; break; } k -= 1; f[k] += 1; if f[k] <= nn { break; } f[k] = 0; } if done { break; } }
    report("C17 compress/nextlarger", total, &c);
    // C10: header sweep on a small valid font
    let base = std::fs::read("/repo/crates/tfm/corpus/computer-modern/cmr10.tfm").unwrap();
    let mut c = Classes::new(); let mut total = 0u64;
    let mut bases: Vec<Vec<u8>> = vec![base.clone(), base[..24].to_vec(), base[..32].to_vec(), vec![0u8; 24], vec![0u8; 16]];
    bases.push(std::fs::read("/repo/crates/tfm/corpus/originals/empty.tfm").unwrap_or_default());
    for (bi, b) in bases.iter().enumerate() { for word in 0..12usize { if 2 * word + 1 >= b.len() { continue; } for v in 0..=65535u32 { total += 1;
        let mut m = b.clone(); m[2 * word] = (v >> 8) as u8; m[2 * word + 1] = v as u8;
        let r = std::panic::catch_unwind(|| tfm::algorithms::tfm_to_pl(&m, 3, &|_| tfm::pl::CharDisplayFormat::Default).map(|o| o.pl_data.is_ok()));
        if r.is_err() { note(&mut c, format!("PANIC base#{bi} word#{word}"), format!("value={v} len={}", m.len())); } } } }
    report("C10 header sweep", total, &c);
}
fn main() {
    let loc = std::sync::Arc::new(std::sync::Mutex::new(BTreeMap::<String, u64>::new())); let l2 = loc.clone();
    std::panic::set_hook(Box::new(move |i| { if let Some(l) = i.location() { *l2.lock().unwrap().entry(format!("{}:{}", l.file(), l.line())).or_insert(0) += 1; } }));
    let what = std::env::args().nth(1).unwrap_or("all".into());
    if what == "c13" || what == "all" { c13(); }
    if what == "c15" || what == "all" { c15(); }
    if what == "c16" || what == "all" { c16(); }
    if what == "c17" || what == "all" { c17(); }
    println!("panic sites: {:?}", loc.lock().unwrap());
}
// Results on the pinned tree:
//   c13: 1128 patterns (<= 2 letters over {a,b}, digits {1,2,9}, anchors) paired (stride 7) x 4 exception lists x 64 words = 22 360 320 lookups:
//        the only disagreement class is "exception word overridden by a pattern digit > 6/7" (18 601 cases, defect D11).
//        Pattern sets with two patterns on the same letter string are excluded: TeX 963 rejects them ("Duplicate pattern"); the crate lets the later one win.
//   c15: 413 526 packs (lists of 3 over a 41-item menu x 6 targets): 56 208 "dims differ" = nested box / rule contributes [height-shift, width, depth+shift]
//        into a [w, h, d] destructuring, i.e. width and height are swapped (new defect D17); without nested boxes (NOBOX=1, 355 914 packs) the only class is
//        D13 (38 268 cases: a higher glue order with zero or cancelling total hides the lower orders). Negative stretch/shrink agree.
//   c16: 956 542 cases (every op at every operand-width boundary, all byte strings of length <= 2 (+ a third byte), VarRemover on all 15^5 sequences
//        against an independent position tracker): no disagreement, no panic.
//   c17: compress on all multisets of 5 values from a 7-point lattice x limits 1..5 against brute-force minimal tolerance, next-larger on all 6^5 partial
//        functional graphs against "cut the edge out of the largest node of each cycle": 91 811 cases, no disagreement.
//   c10: each of the 12 header words set to all 65 536 values on 6 base files (4 456 448 files, 0.33 s): two panic sites,
//        deserialize.rs:252 (sub-file sizes summed in i16) and deserialize.rs:382 (16-byte file with lf = 4) = defect D9.
