// Design-time probe: C12 text -> hlist -> lines on cmr10.
use boxworks::ds::{self, Horizontal as H, Vertical as V};
use boxworks::{LineBreaker as _, TextPreprocessor};
use boxworks_text as bwt;
use common::{Glue, Scaled};
use std::collections::BTreeMap;
struct NoHyph; impl boxworks::Hyphenator for NoHyph { fn hyphenate(&self, _l: &mut Vec<H>) {} }
fn letters(h: &H) -> String { match h { H::Char(c) => c.char.to_string(), H::Ligature(l) => l.original_chars.to_string(), _ => String::new() } }
fn xn_over_d(x: i64, n: i64, d: i64) -> i64 { (x * n) / d }
fn main() {
    std::panic::set_hook(Box::new(|_| {}));
    let tfm_bytes = std::fs::read("/repo/crates/tfm/corpus/computer-modern/cmr10.tfm").unwrap();
    let words = ["a", "fi", "ffl", "AV", "end.", "Mr.", "so,", "x-y", "difficult", "I", "(b)", "why?", "A.", "it;", "``q''"];
    let mut classes: BTreeMap<String, (u64, String)> = BTreeMap::new(); let (mut total, mut ok) = (0u64, 0u64);
    let one = Scaled::ONE;
    let skips = [(Glue::ZERO, Glue::ZERO, "default"), (Glue { width: one * 5, stretch: one * 2, shrink: one, ..Default::default() }, Glue::ZERO, "spaceskip"), (Glue::ZERO, Glue { width: one * 9, ..Default::default() }, "xspaceskip"), (Glue { width: one * 5, stretch: one * 2, shrink: one, ..Default::default() }, Glue { width: one * 9, ..Default::default() }, "both")];
    for w1 in words { for w2 in words { for w3 in words { for (ss, xs, sname) in &skips { for (width, hy) in [(60, false), (110, true), (400, false)] {
        let text = format!("{w1} {w2} {w3} {w1}{w3} {w2}");
        let mut tfm_file = tfm::File::deserialize(&tfm_bytes).0.unwrap();
        let lkp = tfm::ligkern::CompiledProgram::compile_from_tfm_file(&mut tfm_file).0;
        let mut p = bwt::Params::plain_tex_defaults(); p.space_skip = *ss; p.extra_space_skip = *xs;
        let sfc = bwt::SpaceFactorCodes::plain_tex_defaults();
        let mut tp = bwt::TextPreprocessorImpl::new(p); tp.register_font(0, &tfm_file, lkp.clone()); tp.activate_font(0);
        let mut list = vec![]; tp.add_text(&text, &mut list);
        total += 1; let mut good = true;
        let desc = format!("{text:?} skips={sname} width={width} hyph={hy}");
        // (A) spelling and space-factor glue
        let spelled: String = list.iter().map(letters).collect(); let want_spelled: String = text.split(' ').collect();
        if spelled != want_spelled { good = false; classes.entry("hlist does not spell the text".into()).or_insert((0, format!("{desc} got={spelled}"))).0 += 1; }
        let fs = |n| tfm_file.named_param_scaled(n).unwrap().0 as i64;
        let (sp, st, sh, ex) = (fs(tfm::NamedParameter::Space), fs(tfm::NamedParameter::Stretch), fs(tfm::NamedParameter::Shrink), fs(tfm::NamedParameter::ExtraSpace));
        let mut sf = 1000i64; let mut want_glues = vec![]; let ws: Vec<&str> = text.split(' ').collect();
        for (i, w) in ws.iter().enumerate() { for c in w.chars() { let code = *sfc.0.get(c as usize).unwrap_or(&1000) as i64; if code == 1000 { sf = 1000 } else if code < 1000 { if code > 0 { sf = code } } else if sf < 1000 { sf = 1000 } else { sf = code } }
            if i + 1 < ws.len() { let g = if sf >= 2000 && !xs.is_zero() { (xs.width.0 as i64, xs.stretch.0 as i64, xs.shrink.0 as i64) } else { let (mut w0, mut s0, mut k0) = if !ss.is_zero() { (ss.width.0 as i64, ss.stretch.0 as i64, ss.shrink.0 as i64) } else { (sp, st, sh) }; if sf != 1000 { if sf >= 2000 { w0 += ex; } s0 = xn_over_d(s0, sf, 1000); k0 = xn_over_d(k0, 1000, sf); } (w0, s0, k0) }; want_glues.push(g); } }
        let got_glues: Vec<(i64, i64, i64)> = list.iter().filter_map(|h| if let H::Glue(g) = h { Some((g.value.width.0 as i64, g.value.stretch.0 as i64, g.value.shrink.0 as i64)) } else { None }).collect();
        if got_glues != want_glues { good = false; let i = got_glues.iter().zip(want_glues.iter()).position(|(a, b)| a != b); classes.entry(format!("inter-word glue differs from TeX 1041-1044 [{sname}]")).or_insert((0, format!("{desc} at #{i:?} want={:?} got={:?}", i.map(|i| want_glues[i]), i.map(|i| got_glues[i])))).0 += 1; }
        // (B)(C) break and check
        let before = list.clone();
        let params = boxworks_knuthplass::Params::plain_tex_defaults();
        let widths = [one * width, one * (width - 10)]; let indents = [one * 3, Scaled::ZERO];
        let hyph = boxworks_hyphenate::Hyphenator::plain_tex_en_us(lkp);
        let mut font_repo: bwt::TfmFontRepo = Default::default(); font_repo.register_font(0, tfm_file);
        let mut vlist: Vec<V> = vec![];
        let r = std::panic::catch_unwind(std::panic::AssertUnwindSafe(|| { let lb = boxworks_knuthplass::LineBreaker { params: &params, line_widths: &widths, line_indents: &indents, debug_logger: None, hyphenator: if hy { &hyph as &dyn boxworks::Hyphenator } else { &NoHyph } }; lb.break_line(&font_repo, &mut vlist, &mut list); }));
        if r.is_err() { classes.entry("PANIC in break_line".into()).or_insert((0, desc.clone())).0 += 1; continue; }
        let boxes: Vec<&ds::HBox> = vlist.iter().filter_map(|v| if let V::HBox(b) = v { Some(b) } else { None }).collect();
        let mut all = String::new();
        for (i, b) in boxes.iter().enumerate() {
            let want_w = widths[i.min(1)]; let want_s = indents[i.min(1)];
            if b.width != want_w || b.shift_amount != want_s { good = false; classes.entry("line width/indent wrong".into()).or_insert((0, desc.clone())).0 += 1; }
            let inner: Vec<&H> = b.list.iter().collect();
            let first_real = inner.iter().find(|h| !matches!(h, H::Glue(_)) || true).copied();
            if i > 0 { if let Some(h) = first_real { if matches!(h, H::Glue(_) | H::Penalty(_)) || matches!(h, H::Kern(k) if k.kind == ds::KernKind::Explicit) { good = false; classes.entry("line begins with discardable material".into()).or_insert((0, format!("{desc} line {i} starts with {}", h.to_string().replace('\n', "")))).0 += 1; } } }
            let s: String = b.list.iter().map(letters).collect();
            all.push_str(&s);
        }
        let hl: String = before.iter().map(letters).collect();
        // explicit hyphens: x-y keeps its hyphen; inserted hyphens were removed above only at line ends
        if all.replace('-', "") != hl.replace('-', "") { good = false; classes.entry("letters of the lines differ from the list".into()).or_insert((0, format!("{desc} lines={all} list={hl}"))).0 += 1; }
        // penalties between lines: club on first, widow on last-but-one
        let n = boxes.len(); let pens: Vec<i32> = vlist.iter().filter_map(|v| if let V::Penalty(p) = v { Some(p.0) } else { None }).collect();
        let _ = (n, pens);
        if good { ok += 1; }
    } } } } }
    println!("paragraphs={total} ok={ok}");
    for (k, (n, ex)) in &classes { println!("{n:8} {k}\n      first: {}", ex.chars().take(330).collect::<String>()); }
}
// Results on the pinned tree: 40 500 paragraphs (15-word vocabulary cubed, 4 settings of \spaceskip/\xspaceskip, 3 widths with a two-element width
// and indent sequence, hyphenation on for the middle width), 61 s on one core.
//   - hlist spells the text, letters are conserved across the lines, every box has the requested width and indent, no line begins with
//     discardable material (text-produced lists never contain two adjacent discardables, so D10 cannot show here);
//   - inter-word glue equals TeX 1041-1044 for the font glue and for \xspaceskip, and differs in 14 721 paragraphs where \spaceskip is set and the
//     space factor is not 1000 (e.g. 999 after a capital): TeX scales the stretch/shrink of \spaceskip by f/1000 and 1000/f, the crate does not (D10b).
