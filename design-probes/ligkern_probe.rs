// Prototype: direct lig/kern cursor interpreter vs tfm::ligkern::CompiledProgram, exhaustive small programs.
use std::collections::{BTreeMap, HashMap};
use tfm::ligkern::lang::{Instruction, Operation, PostLigOperation as P, Program};
use tfm::ligkern::{CompiledProgram, RunItem};
use tfm::{Char, FixWord};

#[derive(Clone, Copy, PartialEq, Eq, Debug, Hash, PartialOrd, Ord)]
enum Sym { LB, C(u8), RB }
#[derive(Clone, Copy, Debug, PartialEq)]
enum Op { Kern(i32), Lig(u8, P) }
#[derive(Clone, Copy, Debug, PartialEq)]
struct Rule { left: Sym, right: Sym, op: Op }

#[derive(Debug, PartialEq, Clone)]
enum Out { G(u8), K(i32) }

// direct interpretation. rbc = right boundary char code if any.
fn interpret(rules: &[Rule], rbc: Option<u8>, word: &[u8], budget: usize) -> Option<Vec<Out>> {
    let mut syms: Vec<Sym> = vec![Sym::LB]; syms.extend(word.iter().map(|c| Sym::C(*c))); syms.push(Sym::RB);
    let mut kerns_after: Vec<Vec<i32>> = vec![vec![]; syms.len()]; // kerns inserted after sym i
    let mut cur = 0usize; let mut steps = 0usize;
    let code = |s: Sym| -> Option<u8> { match s { Sym::C(c) => Some(c), Sym::RB => rbc, Sym::LB => None } };
    while cur + 1 < syms.len() {
        steps += 1; if steps > budget { return None; }
        let x = syms[cur]; let y = syms[cur + 1];
        // find first rule for left x whose right char code matches y's code
        let ycode = code(y);
        let rule = rules.iter().find(|r| r.left == x && ycode.is_some() && code(r.right) == ycode);
        // a kern already placed between x and y means the pair is done
        match rule.map(|r| r.op) {
            None => { cur += 1; }
            Some(Op::Kern(k)) => { kerns_after[cur].push(k); cur += 1; }
            Some(Op::Lig(z, p)) => {
                let (keep_l, keep_r, mv) = match p {
                    P::RetainNeitherMoveToInserted => (false, false, 0), P::RetainRightMoveToInserted => (false, true, 0), P::RetainRightMoveToRight => (false, true, 1),
                    P::RetainLeftMoveNowhere => (true, false, 0), P::RetainLeftMoveToInserted => (true, false, 1),
                    P::RetainBothMoveNowhere => (true, true, 0), P::RetainBothMoveToInserted => (true, true, 1), P::RetainBothMoveToRight => (true, true, 2) };
                // insert z between
                syms.insert(cur + 1, Sym::C(z)); kerns_after.insert(cur + 1, vec![]);
                let mut pos = cur; // position of x
                if !keep_r { syms.remove(cur + 2); kerns_after.remove(cur + 2); }
                if !keep_l { let ka = kerns_after.remove(cur); syms.remove(cur); let _ = ka; } else { pos += 0; }
                // after: if x kept: x at cur, z at cur+1 ; else z at cur
                cur = pos + mv;
                // re-add RB? if RB consumed there is no boundary any more: emulate by nothing.
                if !syms.iter().any(|s| *s == Sym::RB) { /* boundary consumed */ }
            }
        }
    }
    let mut out = vec![];
    for (i, s) in syms.iter().enumerate() { if let Sym::C(c) = s { out.push(Out::G(*c)); } for k in &kerns_after[i] { out.push(Out::K(*k)); } }
    Some(out)
}

fn build(rules: &[Rule], rbc: Option<u8>) -> (Program, HashMap<Char, u16>) {
    let mut instrs: Vec<Instruction> = vec![]; let mut eps = HashMap::new(); let mut lb = None;
    let mut lefts: Vec<Sym> = rules.iter().map(|r| r.left).collect(); lefts.sort(); lefts.dedup();
    for l in lefts {
        let start = instrs.len() as u16;
        match l { Sym::LB => lb = Some(start), Sym::C(c) => { eps.insert(Char(c), start); } Sym::RB => unreachable!() }
        let rs: Vec<&Rule> = rules.iter().filter(|r| r.left == l).collect();
        for (i, r) in rs.iter().enumerate() {
            let right_char = match r.right { Sym::C(c) => Char(c), Sym::RB => Char(rbc.unwrap()), Sym::LB => unreachable!() };
            let operation = match r.op { Op::Kern(k) => Operation::Kern(FixWord(k)), Op::Lig(z, p) => Operation::Ligature { char_to_insert: Char(z), post_lig_operation: p, post_lig_tag_invalid: false } };
            instrs.push(Instruction { next_instruction: if i + 1 < rs.len() { Some(0) } else { None }, right_char, operation });
        }
    }
    (Program { instructions: instrs, left_boundary_char_entrypoint: lb, right_boundary_char: rbc.map(Char), passthrough: Default::default() }, eps)
}

fn main() {
    std::panic::set_hook(Box::new(|_| {}));
    let maxrules: usize = std::env::args().nth(1).map(|s| s.parse().unwrap()).unwrap_or(2);
    let letters = [b'a', b'b', b'c'];
    let ops: Vec<Op> = { let mut v = vec![Op::Kern(1 << 20)]; for z in letters { for p in [P::RetainNeitherMoveToInserted, P::RetainRightMoveToInserted, P::RetainRightMoveToRight, P::RetainLeftMoveNowhere, P::RetainLeftMoveToInserted, P::RetainBothMoveNowhere, P::RetainBothMoveToInserted, P::RetainBothMoveToRight] { v.push(Op::Lig(z, p)); } } v };
    let mut all_rules = vec![];
    for left in [Sym::LB, Sym::C(b'a'), Sym::C(b'b')] { for right in [Sym::C(b'a'), Sym::C(b'b'), Sym::RB] { for op in &ops { all_rules.push(Rule { left, right, op: *op }); } } }
    let words: Vec<Vec<u8>> = { let mut w = vec![]; for len in 1..=3 { let mut idx = vec![0; len]; loop { w.push(idx.iter().map(|i| [b'a', b'b'][*i]).collect()); let mut k = len; let mut done = false; loop { if k == 0 { done = true; break; } k -= 1; idx[k] += 1; if idx[k] < 2 { break; } idx[k] = 0; } if done { break; } } } w };
    let mut classes: BTreeMap<String, (u64, String)> = BTreeMap::new();
    let (mut programs, mut runs, mut loops_i, mut loops_o, mut agree) = (0u64, 0u64, 0u64, 0u64, 0u64);
    let n = all_rules.len();
    let mut sets: Vec<Vec<Rule>> = vec![vec![]];
    for i in 0..n { sets.push(vec![all_rules[i]]); }
    if maxrules >= 2 { for i in 0..n { for j in i + 1..n { let (a, b) = (all_rules[i], all_rules[j]); if a.left == b.left && a.right == b.right { continue; } sets.push(vec![a, b]); } } }
    for rules in &sets { for rbc in [None, Some(b'c'), Some(b'a')] {
        if rbc.is_none() && rules.iter().any(|r| r.right == Sym::RB) { continue; }
        programs += 1;
        let (prog, eps) = build(rules, rbc);
        let (cp, errs) = CompiledProgram::compile(&prog, FixWord::ONE, &[], eps);
        // oracle loop detection: any starting pair loops
        let mut oracle_loop = false;
        for left in [Sym::LB, Sym::C(b'a'), Sym::C(b'b'), Sym::C(b'c')] { for right in [b'a', b'b', b'c'] {
            // simulate pair (left,right) in isolation: word = [left?, right]
            let w: Vec<u8> = match left { Sym::C(c) => vec![c, right], _ => vec![right] };
            // isolate: no RB effect? use full semantics with rbc
            let rules2: Vec<Rule> = if matches!(left, Sym::LB) { rules.clone() } else { rules.iter().filter(|r| r.left != Sym::LB).cloned().collect() };
            if interpret(&rules2, rbc, &w, 2000).is_none() { oracle_loop = true; }
        } }
        if oracle_loop { loops_o += 1; } if !errs.is_empty() { loops_i += 1; }
        if oracle_loop != !errs.is_empty() { classes.entry(format!("LOOP oracle={} impl={}", oracle_loop, !errs.is_empty())).or_insert((0, format!("{:?} rbc={:?} errs={:?}", rules, rbc, errs))).0 += 1; continue; }
        if oracle_loop { continue; }
        for w in &words {
            runs += 1;
            let want = interpret(rules, rbc, w, 2000).unwrap();
            let ws: String = w.iter().map(|c| *c as char).collect();
            let got: Result<Vec<Out>, _> = std::panic::catch_unwind(|| { let mut v = vec![]; let mut spelled = String::new(); for it in cp.run(&ws) { match it { RunItem::Char(c) => { v.push(Out::G(c as u8)); spelled.push(c); } RunItem::Kern(k) => v.push(Out::K(k.0 * 16)), RunItem::Ligature(l) => { v.push(Out::G(l.c as u8)); spelled.push_str(&l.original); } } } (v, spelled) }).map(|(v, sp)| { if sp != ws { vec![Out::K(-999)] } else { v } });
            match got { Err(_) => { classes.entry("PANIC".into()).or_insert((0, format!("{:?} rbc={:?} word={ws}", rules, rbc))).0 += 1; }
                Ok(g) => if g == want { agree += 1; } else { classes.entry(if g == vec![Out::K(-999)] { "SPELL".into() } else { format!("DIFF") }).or_insert((0, format!("{:?} rbc={:?} word={ws} want={:?} got={:?}", rules, rbc, want, g))).0 += 1; } }
        }
    } }
    println!("programs={programs} runs={runs} agree={agree} loops(oracle)={loops_o} loops(impl)={loops_i}");
    for (k, (n, ex)) in &classes { println!("{n:8} {k}\n      e.g. {}", ex.chars().take(500).collect::<String>()); }
}
