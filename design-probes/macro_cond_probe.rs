// Design-time probe: C02 (macro parameter matching) and C07 (conditionals, \expandafter/\noexpand) on a minimal-state VM.
use std::cell::RefCell;
use std::collections::{BTreeMap, HashMap};
use texlang::traits::*;
use texlang::*;
use texlang_stdlib::*;
type Classes = BTreeMap<String, (u64, String)>;
fn note(c: &mut Classes, k: String, ex: String) { c.entry(k).or_insert((0, ex)).0 += 1; }
fn report(name: &str, total: u64, agree: u64, c: &Classes) { println!("== {name}: cases={total} agree={agree} classes={}", c.len()); for (k, (n, ex)) in c.iter().take(14) { println!("{n:8} {k}\n      first: {}", ex.chars().take(330).collect::<String>()); } }

#[derive(Default)]
struct M { prefix: prefix::Component, conditional: conditional::Component, out: RefCell<Vec<String>> }
impl TexlangState for M {
    fn variable_assignment_scope_hook(state: &mut Self) -> texcraft_stdext::collections::groupingmap::Scope { prefix::variable_assignment_scope_hook(state) }
    fn expansion_override_hook(token: token::Token, input: &mut vm::ExpansionInput<Self>, tag: Option<command::Tag>) -> texlang::prelude::Result<Option<token::Token>> { expansion::noexpand_hook(token, input, tag) }
}
vm::implement_has_component![M { prefix: prefix::Component, conditional: conditional::Component }];
fn tname(vm: &vm::VM<M>, t: token::Token) -> String { match t.value() { token::Value::CommandRef(r) => r.to_string(vm.cs_name_interner()), v => v.char().unwrap().to_string() } }
struct HM;
impl vm::Handlers<M> for HM {
    fn character_handler(input: &mut vm::ExecutionInput<M>, _t: token::Token, c: char) -> texlang::prelude::Result<()> { input.state().out.borrow_mut().push(c.to_string()); Ok(()) }
    fn unexpanded_expansion_command(input: &mut vm::ExecutionInput<M>, t: token::Token) -> texlang::prelude::Result<()> { let s = tname(input.vm(), t); input.state().out.borrow_mut().push(s); Ok(()) }
    fn undefined_command_handler(input: &mut vm::ExecutionInput<M>, t: token::Token) -> texlang::prelude::Result<()> { let s = tname(input.vm(), t); input.state().out.borrow_mut().push(s); Ok(()) }
}
fn capture(_t: token::Token, input: &mut vm::ExecutionInput<M>) -> texlang::prelude::Result<()> {
    loop { let t = match input.unexpanded().next()? { None => break, Some(t) => t }; let s = tname(input.vm(), t); if s == "\\END" { break; } input.state().out.borrow_mut().push(s); }
    Ok(())
}
fn run(src: &str, optimized: bool) -> Result<Vec<String>, String> {
    let r = std::panic::catch_unwind(|| {
        let mut vm = vm::VM::<M>::new_with_built_in_commands(HashMap::from([("def", def::get_def()), ("let", alias::get_let()), ("capture", command::BuiltIn::new_execution(capture)), ("relax", expansion::get_relax()),
            ("xa", if optimized { expansion::get_expandafter_optimized() } else { expansion::get_expandafter_simple() }), ("noexpand", expansion::get_noexpand()),
            ("iftrue", conditional::get_iftrue()), ("iffalse", conditional::get_iffalse()), ("ifnum", conditional::get_ifnum()), ("ifodd", conditional::get_ifodd()), ("ifcase", conditional::get_ifcase()), ("or", conditional::get_or()), ("else", conditional::get_else()), ("fi", conditional::get_fi())]));
        vm.push_source("t.tex", src).unwrap();
        let r = vm.run::<HM>().map_err(|e| e.error.title());
        let mut out = vm.state.out.borrow().clone(); if out.last().map(|s| s == " ").unwrap_or(false) { out.pop(); }
        r.map(|_| out)
    });
    match r { Err(_) => Err("PANIC".into()), Ok(x) => x }
}

// ------------ C02 reference matcher
#[derive(Clone, Debug, PartialEq)]
enum U { T(String), G(Vec<U>) }
fn parse_units(toks: &[String], i: &mut usize, depth: usize) -> Option<Vec<U>> { let mut v = vec![]; while *i < toks.len() { let t = &toks[*i]; *i += 1; if t == "{" { v.push(U::G(parse_units(toks, i, depth + 1)?)); } else if t == "}" { return if depth > 0 { Some(v) } else { None }; } else { v.push(U::T(t.clone())); } } if depth == 0 { Some(v) } else { None } }
fn flat(us: &[U], out: &mut Vec<String>) { for u in us { match u { U::T(t) => out.push(t.clone()), U::G(g) => { out.push("{".into()); flat(g, out); out.push("}".into()); } } } }
struct Def { prefix: Vec<String>, params: Vec<Option<Vec<String>>>, repl: Vec<String> } // repl items: literal token, "#1".., "##"
fn ref_call(d: &Def, input: &[String]) -> Option<Vec<String>> {
    let mut i = 0; let units = parse_units(input, &mut i, 0)?; // requires whole input balanced
    let mut pos = 0;
    for p in &d.prefix { match units.get(pos) { Some(U::T(t)) if t == p => pos += 1, _ => return None } }
    let mut args: Vec<Vec<String>> = vec![];
    let mut brace_delim_consumed = false;
    for p in &d.params { match p {
        None => { while matches!(units.get(pos), Some(U::T(t)) if t == " ") { pos += 1; } match units.get(pos)? { U::T(t) => args.push(vec![t.clone()]), U::G(g) => { let mut v = vec![]; flat(g, &mut v); args.push(v); } } pos += 1; }
        Some(dl) => { let m = dl.len(); let mut found = None;
            'search: for s in pos..units.len() { if s + m > units.len() { break; } for j in 0..m { let ok = if dl[j] == "{" { matches!(units[s + j], U::G(_)) && j == m - 1 } else { matches!(&units[s + j], U::T(t) if *t == dl[j]) }; if !ok { continue 'search; } } found = Some(s); break; }
            let s = found?; let arg = &units[pos..s];
            let mut v = vec![]; if arg.len() == 1 { if let U::G(g) = &arg[0] { flat(g, &mut v); } else { flat(arg, &mut v); } } else { flat(arg, &mut v); }
            args.push(v);
            if dl[m - 1] == "{" { pos = s + m - 1; brace_delim_consumed = true; } else { pos = s + m; } } } }
    let _ = brace_delim_consumed;
    let mut out = vec![];
    for r in &d.repl { if r == "##" { out.push("#".into()); } else if r.starts_with('#') { out.extend(args[r[1..].parse::<usize>().unwrap() - 1].iter().cloned()); } else { out.push(r.clone()); } }
    flat(&units[pos..], &mut out);
    Some(out)
}
fn c02(maxlen: usize) {
    let mut c = Classes::new(); let (mut total, mut agree, mut matched) = (0u64, 0u64, 0u64);
    let delims: Vec<Option<Vec<&str>>> = vec![None, Some(vec!["."]), Some(vec!["a", "b"]), Some(vec!["a", "a"]), Some(vec!["\\x"])];
    let mut defs: Vec<(String, Def)> = vec![];
    for prefix in [vec![], vec!["a"]] { for np in 0..=2usize { let mut di = vec![0usize; np]; loop { for hb in [false, true] { for repl in [vec!["[", "#1", "]"], vec!["#2", "##", "#1"], vec!["x"], vec!["{", "#1", "}", "#1"]] {
        if repl.iter().any(|r| r.starts_with('#') && *r != "##" && r[1..].parse::<usize>().unwrap() > np) { continue; }
        let mut params: Vec<Option<Vec<String>>> = di.iter().map(|i| delims[*i].as_ref().map(|v| v.iter().map(|s| s.to_string()).collect())).collect();
        let mut text = String::from("\\def\\m "); for p in &prefix { text.push_str(p); }
        for (k, p) in params.iter().enumerate() { text.push_str(&format!("#{}", k + 1)); if let Some(d) = p { for t in d { text.push_str(t); if t.starts_with('\\') { text.push(' '); } } } }
        let mut prefix2: Vec<String> = prefix.iter().map(|s| s.to_string()).collect();
        if hb { text.push('#'); match params.last_mut() { Some(Some(d)) => d.push("{".into()), Some(p @ None) => *p = Some(vec!["{".into()]), None => prefix2.push("{".into()) } }
        text.push('{'); for r in &repl { text.push_str(r); } text.push('}');
        // prefix containing "{" (no params + #{): treat as delimiter-less: model prefix match against a group start: skip this rare family
        if prefix2.iter().any(|p| p == "{") { continue; }
        defs.push((text, Def { prefix: prefix2, params, repl: repl.iter().map(|s| s.to_string()).collect() }));
    } } let mut k = np; let mut done = false; loop { if k == 0 { done = true; break; } k -= 1; di[k] += 1; if di[k] < delims.len() { break; } di[k] = 0; } if done { break; } } } }
    let alpha = ["a", "b", ".", "{", "}", " ", "\\x"];
    println!("definitions={}", defs.len());
    for len in 0..=maxlen { let mut idx = vec![0usize; len]; loop {
        let call: Vec<String> = idx.iter().map(|i| alpha[*i].to_string()).collect();
        let mut bal = 0i32; let mut ok = true; for t in &call { if t == "{" { bal += 1 } else if t == "}" { bal -= 1; if bal < 0 { ok = false; } } } if bal != 0 { ok = false; }
        // lexer merges/skips spaces after control words and double spaces: avoid "\x " ambiguity by rendering \x followed by a space only when next is a letter; skip calls with consecutive spaces or space after \x or leading space after \m
        let bad_space = call.windows(2).any(|w| w[1] == " " && (w[0] == " " || w[0] == "\\x")) || call.first().map(|t| t == " ").unwrap_or(false);
        if ok && !bad_space {
            let mut text = String::new(); for (k, t) in call.iter().enumerate() { text.push_str(t); if t == "\\x" && call.get(k + 1).map(|n| n == "a" || n == "b").unwrap_or(false) { text.push(' '); } }
            let call_for_model: Vec<String> = { let mut v = call.clone(); v }; 
            for (dtext, d) in &defs { total += 1;
                let src = format!("{dtext}\\xa\\capture\\m {text}\\relax Z\\END");
                let mut full = call_for_model.clone(); full.push("\\relax".into()); full.push("Z".into());
                let want = ref_call(d, &full);
                if let Some(w) = want { matched += 1; let got = run(&src, false);
                    if got.as_ref().ok() == Some(&w) { agree += 1; } else {
                        let cls = if d.params.iter().any(|p| p.is_some()) && matches!(&got, Err(_)) || got.as_ref().map(|g| g.len() != w.len()).unwrap_or(false) { "binding differs (several groups bound to a delimited parameter?)" } else { "binding differs" };
                        note(&mut c, cls.into(), format!("{src}  want={w:?} got={got:?}")); } }
                else { agree += 1; let got = run(&src, false); if got == Err("PANIC".into()) { note(&mut c, "PANIC on non-matching call".into(), src); } }
            } }
        let mut k = len; let mut done = false; loop { if k == 0 { done = true; break; } k -= 1; idx[k] += 1; if idx[k] < alpha.len() { break; } idx[k] = 0; } if done { break; } } }
    println!("matched calls={matched}");
    report("C02 macros", total, agree, &c);
}

// ------------ C07
struct Gen { n: u8 }
impl Gen { fn letter(&mut self) -> String { self.n += 1; ((b'a' + (self.n - 1) % 26) as char).to_string() } }
// returns list of (text, expected delivered letters) for all trees of given depth
fn trees(depth: usize, skipped: bool) -> Vec<(String, String)> {
    let conds: Vec<(&str, Option<bool>, i32)> = vec![("\\iftrue ", Some(true), 0), ("\\iffalse ", Some(false), 0), ("\\ifnum 1<2 ", Some(true), 0), ("\\ifnum 2=-3 ", Some(false), 0), ("\\ifnum 2>1 ", Some(true), 0),
        ("\\ifodd 3 ", Some(true), 0), ("\\ifodd -3 ", Some(true), 0), ("\\ifodd -2 ", Some(false), 0), ("\\myif ", Some(true), 0), ("\\ifcase 0 ", None, 0), ("\\ifcase 1 ", None, 1), ("\\ifcase 2 ", None, 2), ("\\ifcase -1 ", None, -1), ("\\ifcase 7 ", None, 7)];
    let junk = ["", "{", "}", "\\myif\\myfi ", "\\iffalse x\\else y\\fi "];
    let mut out = vec![];
    let bodies = |d: usize, sk: bool| -> Vec<(String, String)> { let mut v = vec![("p".to_string(), "p".to_string())]; if d > 0 { for (t, e) in trees(d - 1, sk) { v.push((format!("q{t}r"), format!("q{e}r"))); } } if sk { for j in junk { v.push((format!("s{j}"), "s".to_string())); } } v };
    for (txt, truth, n) in conds { match truth {
        Some(tv) => { for with_else in [false, true] { for (bt, be) in bodies(depth, skipped || !tv) { let elses = if with_else { bodies(if depth > 0 { depth - 1 } else { 0 }, skipped || tv) } else { vec![(String::new(), String::new())] };
            for (et, ee) in elses.iter().take(6) { let text = format!("{txt}{bt}{}\\fi ", if with_else { format!("\\else {et}") } else { String::new() }); let exp = if skipped { String::new() } else if tv { be.clone() } else if with_else { ee.clone() } else { String::new() }; out.push((text, exp)); } } } }
        None => { for nor in 0..=2usize { for with_else in [false, true] { let mut text = txt.to_string(); let mut exp = String::new(); let mut branches = vec![];
            for k in 0..=nor { let sel = n == k as i32; let b = &bodies(0, skipped || !sel)[if skipped || !sel { (k + 1) % 3 } else { 0 }]; branches.push((b.0.clone(), if sel { b.1.clone() } else { String::new() })); }
            for (k, (bt, be)) in branches.iter().enumerate() { if k > 0 { text.push_str("\\or "); } text.push_str(bt); exp.push_str(be); }
            if with_else { let sel = n < 0 || n as usize > nor; text.push_str("\\else e"); if sel { exp.push('e'); } }
            text.push_str("\\fi "); if skipped { exp.clear(); } out.push((text, exp)); } } } } }
    out
}
// reference expander with TeX's dont_expand marker semantics
#[derive(Clone, Debug, PartialEq)] enum X { Tok(String), NoExp(String) }
fn ref_expand(env: &HashMap<&str, Vec<&str>>, input: &[&str], keep_marker: bool) -> Option<Vec<String>> {
    let mut st: Vec<X> = input.iter().rev().map(|s| X::Tok(s.to_string())).collect(); let mut out = vec![]; let mut steps = 0;
    fn expand_once(env: &HashMap<&str, Vec<&str>>, st: &mut Vec<X>, keep: bool, steps: &mut usize) -> Option<()> { *steps += 1; if *steps > 500 { return None; }
        match st.pop() { None => Some(()), Some(X::NoExp(t)) => { st.push(X::NoExp(t)); Some(()) } Some(X::Tok(t)) => {
            if let Some(body) = env.get(t.as_str()) { for b in body.iter().rev() { st.push(X::Tok(b.to_string())); } Some(()) }
            else if t == "\\xa" { let first = st.pop()?; if st.is_empty() { return None; } expand_once(env, st, keep, steps)?; st.push(first); Some(()) }
            else if t == "\\noexpand" { let n = st.pop()?; let n = match n { X::Tok(s) | X::NoExp(s) => s }; let expandable = env.contains_key(n.as_str()) || n == "\\xa" || n == "\\noexpand"; st.push(if keep && expandable { X::NoExp(n) } else { X::Tok(n) }); Some(()) }
            else { st.push(X::Tok(t)); Some(()) } } } }
    loop { steps += 1; if steps > 500 { return None; } match st.last()?.clone() { _ => {} }
        let top = st.last().cloned(); match top { None => break, Some(X::NoExp(t)) => { st.pop(); out.push(t); } Some(X::Tok(t)) => {
            let expandable = env.contains_key(t.as_str()) || t == "\\xa" || t == "\\noexpand";
            if t == "\\noexpand" { st.pop(); let n = st.pop()?; match n { X::Tok(s) | X::NoExp(s) => if s != "\\relax" { out.push(s) } } }
            else if expandable { expand_once(env, &mut st, keep_marker, &mut steps)?; } else { st.pop(); if t != "\\relax" { out.push(t); } } } }
        if st.is_empty() { break; } }
    Some(out)
}
fn c07(maxlen: usize) {
    let mut c = Classes::new(); let (mut total, mut agree) = (0u64, 0u64);
    let pre = "\\let\\myif=\\iftrue \\let\\myfi=\\fi ";
    for (text, want) in (if std::env::var("NOTREES").is_ok() { vec![] } else { trees(2, false) }) { total += 1;
        let got = run(&format!("{pre}<{text}>"), true);
        let w: Vec<String> = format!("<{want}>").chars().map(|ch| ch.to_string()).collect();
        if got.as_ref().ok() == Some(&w) { agree += 1; } else { let cls = if text.contains("\\ifodd -3") { "ifodd negative (D6)" } else { "conditional output differs" }; note(&mut c, cls.into(), format!("{text}  want={want:?} got={got:?}")); } }
    report("C07 conditional trees", total, agree, &c);
    // expandafter
    let mut c = Classes::new(); let (mut total, mut agree) = (0u64, 0u64);
    let env: HashMap<&str, Vec<&str>> = HashMap::from([("\\a", vec!["\\b"]), ("\\b", vec!["y"]), ("\\c", vec![])]);
    let alpha = ["\\xa", "\\noexpand", "\\a", "\\b", "\\c", "\\relax", "x"];
    for len in 1..=maxlen { let mut idx = vec![0usize; len]; loop { total += 1;
        let toks: Vec<&str> = idx.iter().map(|i| alpha[*i]).collect();
        let text: String = toks.iter().map(|t| if t.starts_with('\\') { format!("{t} ") } else { t.to_string() }).collect();
        let src = format!("\\def\\a{{\\b}}\\def\\b{{y}}\\def\\c{{}}{text}");
        let (s, o) = (run(&src, false), run(&src, true));
        let mut mt = toks.clone(); if !mt.last().unwrap().starts_with('\\') { mt.push(" "); }
        let strip = |v: Option<Vec<String>>| v.map(|mut v| { if v.last().map(|s| s == " ").unwrap_or(false) { v.pop(); } v });
        let tex = strip(ref_expand(&env, &mt, true)); let lossy = strip(ref_expand(&env, &mt, false));
        if s != o { note(&mut c, "simple and optimized differ".into(), format!("{text} simple={s:?} optimized={o:?}")); }
        else { match (&s, &tex) { (Ok(g), Some(w)) if g == w => agree += 1, (Err(_), None) => agree += 1,
            (Ok(g), _) if Some(g) == lossy.as_ref() => note(&mut c, "matches TeX only if the \\noexpand marker is dropped when \\expandafter expands \\noexpand (D18)".into(), format!("{text} tex={tex:?} got={g:?}")),
            _ => note(&mut c, "differs from reference expander".into(), format!("{text} tex={tex:?} lossy={lossy:?} got={s:?}")) } }
        let mut k = len; let mut done = false; loop { if k == 0 { done = true; break; } k -= 1; idx[k] += 1; if idx[k] < alpha.len() { break; } idx[k] = 0; } if done { break; } } }
    report("C07 expandafter", total, agree, &c);
}
fn main() {
    std::panic::set_hook(Box::new(|_| {}));
    let what = std::env::args().nth(1).unwrap_or("c02".into()); let n: usize = std::env::args().nth(2).map(|s| s.parse().unwrap()).unwrap_or(4);
    if what == "c02" { c02(n); } else { c07(n); }
}
// Results on the pinned tree (minimal-state VM, ~3 us per run):
//   c02 5 : 462 definitions (prefix, 0-2 parameters undelimited or delimited by . / ab / aa / \x, optional #{, 4 replacement texts) x every balanced
//           call string of <= 5 tokens over {a b . { } space \x}: 1 673 364 cases, 124 430 matching calls. The reference matcher and the
//           implementation differ in exactly one class: several groups bound to a delimited parameter (\m{}{}. -> "}{", defect D3).
//   c07 5 : 846 414 conditional trees (depth <= 2, all kinds, \ifcase with 0-2 \or, junk and \let-aliased conditionals in skipped branches):
//           the only class is \ifodd on a negative odd number (D6).
//           \expandafter/\noexpand: all 19 607 strings of <= 5 tokens over {\xa \noexpand \a \b \c \relax x}: simple == optimized everywhere;
//           330 strings differ from the reference expander, all because the don't-expand marker is lost when \expandafter's single expansion step
//           is applied to \noexpand (e.g. \xa\a\noexpand\a: TeX delivers "y \a", the crate "y y") = D18.
