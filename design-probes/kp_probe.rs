// Design-time probe (not framework code): brute-force Knuth-Plass oracle (TeX 813-875 semantics)
// vs boxworks-knuthplass::break_line_single_attempt. Result recorded in DESIGN.md (C04).
// Built as src/main.rs of a scratch crate with path deps on boxworks, boxworks-knuthplass, common.
use boxworks::ds;
use boxworks_knuthplass::{debug, LineBreaker, Params};
use common::{Glue, GlueOrder, Scaled};
use std::collections::BTreeMap;

struct FR;
fn cw(c: char) -> i64 { (match c { 'a' => 5, 'b' => 3, 'c' => 2, '-' => 1, _ => 4 }) * 65536 }
impl boxworks::FontRepo for FR {
    fn width(&self, c: char, _f: u32) -> Option<Scaled> { Some(Scaled(cw(c) as i32)) }
    fn height(&self, _c: char, _f: u32) -> Option<Scaled> { Some(Scaled::ZERO) }
    fn depth(&self, _c: char, _f: u32) -> Option<Scaled> { Some(Scaled::ZERO) }
}
struct NoHyph; impl boxworks::Hyphenator for NoHyph { fn hyphenate(&self, _l: &mut Vec<ds::Horizontal>) {} }
struct Log(Vec<(usize, usize, i32, i32, i32)>);
impl debug::Logger for Log {
    fn log_attempt(&mut self, _a: debug::Attempt) {}
    fn log_feasible_breakpoint(&mut self, _l: &[ds::Horizontal], fb: debug::FeasibleBreakpoint) { self.0.push((fb.elem_index, fb.previous_node_index, fb.badness, fb.penalty, fb.demerits)); }
    fn log_new_active_node(&mut self, _an: debug::NewActiveNode) {}
}
const PT: i32 = 65536;
fn glue(w: i32, st: i32, sh: i32) -> ds::Horizontal { ds::Horizontal::Glue(ds::Glue { kind: ds::GlueKind::Normal, value: Glue { width: Scaled(w * PT), stretch: Scaled(st * PT), stretch_order: GlueOrder::Normal, shrink: Scaled(sh * PT), shrink_order: GlueOrder::Normal } }) }
fn ch(c: char) -> ds::Horizontal { ds::Char { char: c, font: 0 }.into() }
fn pen(p: i32) -> ds::Horizontal { ds::Horizontal::Penalty(ds::Penalty(p)) }
fn disc(pre: &str, post: &str, rc: u32) -> ds::Horizontal {
    ds::Horizontal::Discretionary(ds::Discretionary { pre_break: pre.chars().map(|c| ds::Char { char: c, font: 0 }.into()).collect(), post_break: post.chars().map(|c| ds::Char { char: c, font: 0 }.into()).collect(), replace_count: rc })
}
fn ekern(w: i32) -> ds::Horizontal { ds::Kern { width: Scaled(w * PT), kind: ds::KernKind::Explicit }.into() }

// ---------- oracle
#[derive(Clone, Copy, Default, Debug)]
struct W6 { w: i64, st: [i64; 4], sh: i64 }
impl W6 { fn add(&mut self, o: &W6, s: i64) { self.w += s * o.w; for i in 0..4 { self.st[i] += s * o.st[i]; } self.sh += s * o.sh; } }
fn item_w(it: &ds::Horizontal) -> W6 {
    use ds::Horizontal::*;
    match it {
        Char(c) => W6 { w: cw(c.char), ..Default::default() },
        Glue(g) => { let mut x = W6 { w: g.value.width.0 as i64, sh: g.value.shrink.0 as i64, ..Default::default() }; x.st[g.value.stretch_order as usize] = g.value.stretch.0 as i64; x }
        Kern(k) => W6 { w: k.width.0 as i64, ..Default::default() },
        _ => W6::default(),
    }
}
fn tex_badness(t: i64, s: i64) -> i32 {
    if t == 0 { return 0; } if s <= 0 { return 10000; }
    let r = if t <= 7230584 { (t * 297) / s } else if s >= 1663497 { t / (s / 297) } else { t };
    if r > 1290 { 10000 } else { ((r * r * r + 0o400000) / 0o1000000) as i32 }
}
#[derive(Clone, Copy, PartialEq, Debug)]
struct Bp { idx: usize, penalty: i32, hyph: bool }
struct Oracle<'a> { list: &'a [ds::Horizontal], params: &'a Params, widths: &'a [i64], tol: i32, s: Vec<W6>, bps: Vec<Bp> }
impl<'a> Oracle<'a> {
    fn new(list: &'a [ds::Horizontal], params: &'a Params, widths: &'a [i64], tol: i32) -> Self {
        use ds::Horizontal::*;
        let n = list.len();
        let mut s = vec![W6::default(); n + 1];
        for i in 0..n { s[i + 1] = s[i]; let w = item_w(&list[i]); s[i + 1].add(&w, 1); }
        let mut bps = vec![];
        let mut skip_until = 0usize;
        for i in 0..n {
            if i < skip_until { continue; }
            match &list[i] {
                Glue(_) => { if i > 0 && list[i - 1].precedes_break() { bps.push(Bp { idx: i, penalty: 0, hyph: false }); } }
                Kern(k) => { if k.kind == ds::KernKind::Explicit && matches!(list.get(i + 1), Some(Glue(_))) { bps.push(Bp { idx: i, penalty: 0, hyph: false }); } }
                Penalty(p) => { if p.0 < 10000 { bps.push(Bp { idx: i, penalty: p.0.max(-10000), hyph: false }); } }
                Discretionary(d) => { let p = if d.pre_break.is_empty() { params.ex_hyphen_penalty } else { params.hyphen_penalty }; if p < 10000 { bps.push(Bp { idx: i, penalty: p.max(-10000), hyph: true }); } skip_until = i + 1 + d.replace_count as usize; }
                _ => {}
            }
        }
        bps.push(Bp { idx: n, penalty: -10000, hyph: true });
        Oracle { list, params, widths, tol, s, bps }
    }
    fn background(&self) -> W6 { let mut b = W6::default(); for g in [&self.params.left_skip, &self.params.right_skip] { b.w += g.width.0 as i64; b.st[g.stretch_order as usize] += g.stretch.0 as i64; b.sh += g.shrink.0 as i64; } b }
    // TeX 837: total of the discardable run starting at index j (glue, penalty, math, explicit kern)
    fn disc_run(&self, mut j: usize) -> W6 {
        use ds::Horizontal::*;
        let mut d = W6::default();
        while j < self.list.len() {
            match &self.list[j] { Glue(_) => d.add(&item_w(&self.list[j]), 1), Penalty(_) => {}, Math(_) => {}, Kern(k) if k.kind == ds::KernKind::Explicit => d.add(&item_w(&self.list[j]), 1), _ => break }
            j += 1;
        }
        d
    }
    // line measures from break a (None = start) to break b:  background + S(b) - S(a) - D(a), TeX 837-844
    fn line(&self, a: Option<Bp>, b: Bp) -> W6 {
        use ds::Horizontal::*;
        let mut l = self.background();
        l.add(&self.s[b.idx], 1);
        match a {
            None => {}
            Some(a) => match &self.list[a.idx] {
                Discretionary(d) => {
                    let after = a.idx + 1 + d.replace_count as usize;
                    l.add(&self.s[after], -1);
                    for e in &d.post_break { l.w += e.width(&FR).0 as i64; }
                    if d.post_break.is_empty() { l.add(&self.disc_run(after), -1); }
                }
                _ => { l.add(&self.s[a.idx], -1); l.add(&self.disc_run(a.idx), -1); }
            },
        }
        if b.idx < self.list.len() { if let Discretionary(d) = &self.list[b.idx] { for e in &d.pre_break { l.w += e.width(&FR).0 as i64; } } }
        l
    }
    // returns (badness, fitness class 0 very loose, 1 loose, 2 decent, 3 tight); badness 10001 = overfull
    fn fit(&self, a: Option<Bp>, b: Bp, line_no: usize) -> (i32, i32) {
        let l = self.line(a, b);
        let lw = self.widths[(line_no - 1).min(self.widths.len() - 1)];
        let shortfall = lw - l.w;
        if shortfall > 0 {
            if l.st[1] != 0 || l.st[2] != 0 || l.st[3] != 0 { (0, 2) } else { let bd = tex_badness(shortfall, l.st[0]); (bd, if bd > 12 { if bd > 99 { 0 } else { 1 } } else { 2 }) }
        } else {
            let bd = if -shortfall > l.sh { 10001 } else { tex_badness(-shortfall, l.sh) };
            (bd, if bd > 12 { 3 } else { 2 })
        }
    }
    // TeX 859
    fn demerits(&self, bd: i32, b: Bp, prev_fit: i32, fit: i32, prev_hyph: bool, last: bool) -> i64 {
        let mut d = (self.params.line_penalty + bd) as i64;
        d = if d.abs() >= 10000 { 100000000 } else { d * d };
        let p = b.penalty as i64;
        if p != 0 { if p > 0 { d += p * p } else if p > -10000 { d -= p * p } }
        if b.hyph && prev_hyph { if !last { d += self.params.double_hyphen_demerits as i64 } else { d += self.params.final_hyphen_demerits as i64 } }
        if (fit - prev_fit).abs() > 1 { d += self.params.adj_demerits as i64 }
        d
    }
    // the premise in the property: "a->b overfull" is upward closed in b
    fn monotone(&self) -> bool {
        let mut starts: Vec<Option<Bp>> = vec![None]; starts.extend(self.bps.iter().map(|b| Some(*b)));
        for a in &starts { let mut seen_over = false; for b in &self.bps { if let Some(a) = a { if b.idx <= a.idx { continue; } }
            let over = (1..=3).any(|ln| self.fit(*a, *b, ln).0 > 10000);
            if seen_over && !over { return false; } if over { seen_over = true; } } }
        true
    }
    // brute force over all subsets of legal breakpoints
    fn best(&self) -> Option<(i64, Vec<usize>)> {
        let m = self.bps.len();
        let mut best: Option<(i64, Vec<usize>)> = None;
        'outer: for mask in 0u32..(1 << (m - 1)) {
            let mut seq: Vec<Bp> = (0..m - 1).filter(|i| mask >> i & 1 == 1).map(|i| self.bps[i]).collect();
            for i in 0..m - 1 { if self.bps[i].penalty <= -10000 && mask >> i & 1 == 0 { continue 'outer; } }
            seq.push(self.bps[m - 1]);
            let mut prev: Option<Bp> = None; let mut prev_fit = 2; let mut total = 0i64;
            for (k, b) in seq.iter().enumerate() {
                let (bd, fit) = self.fit(prev, *b, k + 1);
                if bd > self.tol || bd > 10000 { continue 'outer; }
                total += self.demerits(bd, *b, prev_fit, fit, prev.map(|p| p.hyph).unwrap_or(false), b.idx == self.list.len());
                prev = Some(*b); prev_fit = fit;
            }
            if best.as_ref().map(|x| total < x.0).unwrap_or(true) { best = Some((total, seq.iter().map(|b| b.idx).collect())); }
        }
        best
    }
    fn eval(&self, breaks: &[usize]) -> Option<i64> {
        let mut prev: Option<Bp> = None; let mut prev_fit = 2; let mut total = 0i64;
        for (k, bi) in breaks.iter().enumerate() {
            let b = *self.bps.iter().find(|b| b.idx == *bi)?;
            let (bd, fit) = self.fit(prev, b, k + 1);
            if bd > self.tol || bd > 10000 { return None; }
            total += self.demerits(bd, b, prev_fit, fit, prev.map(|p| p.hyph).unwrap_or(false), b.idx == self.list.len());
            prev = Some(b); prev_fit = fit;
        }
        Some(total)
    }
}

fn main() {
    std::panic::set_hook(Box::new(|_| {}));
    let with_d10 = std::env::args().nth(1).map(|s| s == "d10").unwrap_or(false);
    // inter-box menu WITHOUT consecutive discardables (agreement expected) ...
    let mut menu: Vec<Vec<ds::Horizontal>> = vec![
        vec![glue(2, 1, 1)], vec![glue(2, 3, 0)], vec![glue(1, 0, 1)], vec![glue(2, 0, 0)],
        vec![pen(50)], vec![pen(-50)], vec![pen(10000), glue(2, 1, 1)], vec![pen(-10000)], vec![glue(3, 2, 2)],
        vec![disc("-", "", 0)], vec![disc("", "", 0)], vec![disc("-", "c", 0)], vec![disc("-", "b", 1), ch('c')],
        vec![],
    ];
    // ... and WITH them (defect D10 expected)
    if with_d10 { menu.push(vec![glue(1, 1, 0), glue(1, 0, 1)]); menu.push(vec![ekern(1), glue(2, 1, 1)]); menu.push(vec![pen(0), glue(1, 1, 1), pen(20), glue(1, 1, 1)]); }
    let boxes = ['a', 'b'];
    let mut classes: BTreeMap<String, (u64, String)> = BTreeMap::new();
    let (mut total, mut nonmono, mut agree, mut nontrivial) = (0u64, 0u64, 0u64, 0u64);
    let nb = 4usize;
    let m = menu.len();
    let mut idx = vec![0usize; nb - 1 + nb];
    loop {
        let mut list: Vec<ds::Horizontal> = vec![];
        for k in 0..nb { list.push(ch(boxes[idx[nb - 1 + k] % 2])); if k + 1 < nb { list.extend(menu[idx[k]].iter().cloned()); } }
        list.push(pen(10000)); list.push(ds::Horizontal::Glue(ds::Glue { kind: ds::GlueKind::Normal, value: Params::plain_tex_defaults().par_fill_skip }));
        for widths in [vec![9i64], vec![12], vec![7, 12], vec![12, 7]] { for tol in [200, 10000, 50] { for pv in 0..3 {
            let mut params = Params::plain_tex_defaults();
            if pv == 1 { params.adj_demerits = 0; params.double_hyphen_demerits = 3000; } if pv == 2 { params.line_penalty = 200; params.hyphen_penalty = 500; }
            let wsp: Vec<Scaled> = widths.iter().map(|w| Scaled((*w as i32) * PT)).collect();
            let wsi: Vec<i64> = widths.iter().map(|w| w * 65536).collect();
            let o = Oracle::new(&list, &params, &wsi, tol);
            if o.bps.len() > 12 { continue; }
            total += 1;
            if !o.monotone() { nonmono += 1; continue; }
            let want = o.best();
            let mut log = Log(vec![]);
            let got = { let mut lb = LineBreaker { params: &params, line_widths: &wsp, line_indents: &[], debug_logger: Some(&mut log), hyphenator: &NoHyph };
                std::panic::catch_unwind(std::panic::AssertUnwindSafe(|| lb.break_line_single_attempt(&list, &FR, tol, Scaled::ZERO, false))) };
            let desc = || format!("list={} widths={:?} tol={tol} pv={pv}", list.iter().map(|x| x.to_string().replace('\n', " ")).collect::<Vec<_>>().join(" "), widths);
            match got {
                Err(_) => { classes.entry("PANIC".into()).or_insert((0, desc())).0 += 1; }
                Ok(got) => match (&want, &got) {
                    (None, None) => agree += 1,
                    (Some(w), None) => { classes.entry("impl None, oracle Some".into()).or_insert((0, format!("{} want={:?}", desc(), w))).0 += 1; }
                    (None, Some(g)) => { classes.entry("impl Some, oracle None".into()).or_insert((0, format!("{} got={:?}", desc(), g))).0 += 1; }
                    (Some(w), Some(g)) => { match o.eval(g) {
                        None => { classes.entry("impl sequence infeasible for oracle".into()).or_insert((0, format!("{} got={:?} want={:?}", desc(), g, w))).0 += 1; }
                        Some(t) if t != w.0 => { classes.entry(format!("suboptimal {}", if t > w.0 {"(impl worse)"} else {"(impl better?!)"})).or_insert((0, format!("{} got={:?} ({t}) want={:?}", desc(), g, w))).0 += 1; }
                        Some(_) => { agree += 1; if o.bps.len() > 2 { nontrivial += 1; } }
                    } }
                },
            }
        } } }
        let mut k = idx.len(); let mut done = false;
        loop { if k == 0 { done = true; break; } k -= 1; idx[k] += 1; let lim = if k < nb - 1 { m } else { 2 }; if idx[k] < lim { break; } idx[k] = 0; }
        if done { break; }
    }
    println!("instances={total} nonmonotone={nonmono} agree={agree} nontrivial_agree={nontrivial}");
    for (k, (n, ex)) in &classes { println!("{n:8} {k}\n      e.g. {}", ex.chars().take(600).collect::<String>()); }
}
// Results on the pinned tree:
//   without consecutive discardables: instances=1580544 nonmonotone=0 agree=1580544 nontrivial_agree=567753
//   with them (arg "d10"):           instances=2829888 agree=2758625; 23769 impl None/oracle Some, 11487 impl Some/oracle None,
//                                     2104 impl sequence infeasible, 33903 suboptimal (impl worse)
