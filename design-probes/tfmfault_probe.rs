// Design-time probe: C10 truncations / byte mutations of corpus TFMs and token mutations of corpus PLs.
use std::cell::RefCell;
use std::collections::BTreeMap;
thread_local! { static LAST: RefCell<Option<String>> = RefCell::new(None); }
fn site() -> String { LAST.with(|l| l.borrow_mut().take()).unwrap_or_else(|| "?".into()) }
fn main() {
    std::panic::set_hook(Box::new(|i| { let loc = i.location().map(|l| format!("{}:{}", l.file().trim_start_matches("/repo/crates/"), l.line())).unwrap_or_default(); LAST.with(|l| *l.borrow_mut() = Some(loc)); }));
    let fmt = |_: &tfm::pl::File| tfm::pl::CharDisplayFormat::Default;
    let mut tfms: Vec<(String, Vec<u8>)> = vec![]; let mut pls: Vec<(String, String)> = vec![];
    for dir in ["originals", "computer-modern", "ctan", "fuzz"] { let Ok(rd) = std::fs::read_dir(format!("/repo/crates/tfm/corpus/{dir}")) else { continue }; for e in rd { let p = e.unwrap().path(); let name = p.file_name().unwrap().to_string_lossy().to_string();
        match p.extension().and_then(|x| x.to_str()) { Some("tfm") => tfms.push((name, std::fs::read(&p).unwrap())), Some("plst") | Some("pl") => { if let Ok(s) = std::fs::read_to_string(&p) { pls.push((name, s)); } } _ => {} } } }
    tfms.sort_by_key(|x| x.1.len()); pls.sort_by_key(|x| x.1.len());
    println!("tfm files {} (bytes {}), pl files {} (bytes {})", tfms.len(), tfms.iter().map(|x| x.1.len()).sum::<usize>(), pls.len(), pls.iter().map(|x| x.1.len()).sum::<usize>());
    let sites = std::sync::Mutex::new(BTreeMap::<String, (u64, String)>::new()); let total = std::sync::atomic::AtomicU64::new(0);
    let run_tfm = |b: &[u8], what: String| { total.fetch_add(1, std::sync::atomic::Ordering::Relaxed); let r = std::panic::catch_unwind(|| { let _ = tfm::algorithms::tfm_to_pl(b, 3, &fmt); }); if r.is_err() { let mut g = sites.lock().unwrap(); g.entry(format!("tftopl {}", site())).or_insert((0, what)).0 += 1; } };
    let run_pl = |t: &str, what: String| { total.fetch_add(1, std::sync::atomic::Ordering::Relaxed); let r = std::panic::catch_unwind(|| { let (b, _w) = tfm::algorithms::pl_to_tfm(t); let ok = tfm::File::deserialize(&b).0.is_ok(); ok }); match r { Err(_) => { let mut g = sites.lock().unwrap(); g.entry(format!("pltotf {}", site())).or_insert((0, what)).0 += 1; } Ok(false) => { let mut g = sites.lock().unwrap(); g.entry("pltotf output rejected by TFM reader".into()).or_insert((0, what)).0 += 1; } Ok(true) => {} } };
    std::thread::scope(|sc| {
        // truncations of every font
        for chunk in tfms.chunks(tfms.len() / 15 + 1) { let run_tfm = &run_tfm; sc.spawn(move || { for (name, b) in chunk { for l in 0..b.len().min(4000) { run_tfm(&b[..l], format!("{name} truncated to {l}")); } } }); }
        // every 1-byte mutation of the 12 smallest fonts (first 600 bytes)
        for (name, b) in tfms.iter().filter(|x| x.1.len() >= 24).take(12) { let run_tfm = &run_tfm; sc.spawn(move || { for pos in 0..b.len().min(600) { for v in 0..=255u8 { if b[pos] == v { continue; } let mut m = b.clone(); m[pos] = v; run_tfm(&m, format!("{name} byte {pos} = {v}")); } } }); }
        // PL token mutations
        for chunk in pls.chunks(pls.len() / 15 + 1) { let run_pl = &run_pl; sc.spawn(move || { for (name, t) in chunk { if t.len() > 40000 { continue; }
            // tokens = maximal runs of non-space/paren or single parens
            let mut toks: Vec<(usize, usize)> = vec![]; let bytes = t.as_bytes(); let mut i = 0; while i < bytes.len() { let c = bytes[i]; if c == b'(' || c == b')' { toks.push((i, i + 1)); i += 1; } else if c.is_ascii_whitespace() { i += 1; } else { let s = i; while i < bytes.len() && !bytes[i].is_ascii_whitespace() && bytes[i] != b'(' && bytes[i] != b')' { i += 1; } toks.push((s, i)); } }
            for (k, (s, e)) in toks.iter().enumerate().take(1500) { if !t.is_char_boundary(*s) || !t.is_char_boundary(*e) { continue; }
                run_pl(&format!("{}{}", &t[..*s], &t[*e..]), format!("{name} delete token {k}"));
                run_pl(&format!("{}{} {}", &t[..*e], "", &t[*s..]), format!("{name} duplicate-from token {k}"));
                for rep in ["0", "255", "256", "2047", "2048", "-1", "77777777777", "C", "LABEL", "(", ")", "R", "O", "STOP", "BOUNDARYCHAR"] { run_pl(&format!("{}{}{}", &t[..*s], rep, &t[*e..]), format!("{name} token {k} -> {rep}")); }
                run_pl(&t[..*s], format!("{name} truncated at token {k}")); } } }); }
    });
    println!("cases={} classes={}", total.load(std::sync::atomic::Ordering::Relaxed), sites.lock().unwrap().len());
    for (k, (n, ex)) in sites.lock().unwrap().iter() { println!("{n:8} {k}   first: {ex}"); }
}
// Results on the pinned tree: 1 044 957 cases in 57 s (94 corpus .tfm: every truncation; every 1-byte mutation of the first 600 bytes of the 12 smallest;
// 99 corpus .plst: per token delete / duplicate / replace by 15 menu items / truncate, first 1500 tokens of files up to 40 kB).
//   TFM side: no panic (the two header-arithmetic panics need the specific values found by the header-word sweep in pure_probe.rs).
//   PL side, five panic sites, every pl_to_tfm output that was produced re-reads:
//      2296 tfm/src/lib.rs:1665    FixWord::to_scaled  assert!(a == 0 || a == 255)   (a dimension >= 16 reaches the scaling code)
//       629 tfm/src/lib.rs:1708    FixWord + FixWord overflow
//       125 tfm/src/lib.rs:1714    FixWord - FixWord overflow
//         4 tfm/src/lib.rs:431     checksum arithmetic overflow
//      1355 tfm/src/serialize.rs:58  (c.0 - bc.0) underflow: a tagged character below the first CHARACTER
