// Design-time probe (not framework code): reference TeX scanner (tex.web 343-356) vs texlang's Lexer
// on every string over a small alphabet, with positions. Result recorded in DESIGN.md (C03).
// Built as src/main.rs of a scratch crate with a path dep on texlang.
// usage: probe '<alphabet>' <maxlen> [hex|nohex]     (env DEV=1 adds every single catcode deviation)
use std::collections::{BTreeMap, HashMap};
use texlang::token::lexer::{self, Config, Lexer};
use texlang::token::trace::{Origin, Tracer};
use texlang::token::{CommandRef, CsNameInterner, Value};
use texlang::types::CatCode;

#[derive(Clone)]
struct Cfg { cats: HashMap<char, CatCode>, elc: Option<char> }
impl Cfg { fn cat(&self, c: char) -> CatCode { if let Some(x) = self.cats.get(&c) { return *x; } CatCode::PLAIN_TEX_DEFAULTS.get(c as usize).copied().unwrap_or_default() } }
impl Config for Cfg { fn cat_code(&self, c: char) -> CatCode { self.cat(c) } fn end_line_char(&self) -> Option<char> { self.elc } }

#[derive(Debug, Clone, PartialEq, Eq)]
enum Tok { Cs(String), Ch(char, u8), Invalid(char), Eol }
#[derive(Debug, Clone, PartialEq, Eq)]
struct RTok { tok: Tok, line: usize, col: usize }

fn is_hex(c: char) -> bool { matches!(c, '0'..='9' | 'a'..='f') }
fn hexv(c: char) -> u32 { c.to_digit(16).unwrap() }

// Tokens with (1-based line, column in chars of the FIRST source char of the token).
// NB: the implementation (and its unit tests) position a ^^x-reduced character at the LAST char of the
// sequence; the framework model will adopt that convention (DESIGN C03).
fn ref_scan(src: &str, cfg: &Cfg, hex: bool, report_eol: bool) -> Vec<RTok> {
    use CatCode::*;
    let mut out = vec![];
    if src.is_empty() { return out; }
    let mut lines: Vec<&str> = src.split('\n').collect();
    if src.ends_with('\n') { lines.pop(); }
    #[derive(PartialEq, Clone, Copy)] enum St { New, Mid, Skip }
    for (li, raw) in lines.iter().enumerate() {
        if li > 0 && report_eol { out.push(RTok { tok: Tok::Eol, line: 0, col: 0 }); }
        let trimmed = raw.trim_end_matches(' ');
        let mut buf: Vec<(char, usize)> = trimmed.chars().enumerate().map(|(i, c)| (c, i)).collect();
        let tlen = buf.len();
        if let Some(e) = cfg.elc { buf.push((e, tlen)); }
        let mut loc = 0usize;
        let mut st = St::New;
        'line: loop {
            if loc >= buf.len() { break; }
            let (mut c, col) = buf[loc]; loc += 1;
            loop { // reswitch
                let cat = cfg.cat(c);
                match cat {
                    Escape => {
                        if loc >= buf.len() { out.push(RTok { tok: Tok::Cs(String::new()), line: li + 1, col }); continue 'line; }
                        'start_cs: loop {
                            let mut k = loc; let mut cc = buf[k].0; let mut cat = cfg.cat(cc); k += 1;
                            st = if cat == Letter || cat == Space { St::Skip } else { St::Mid };
                            macro_rules! try_reduce { () => {{
                                let mut reduced = false;
                                if k < buf.len() && buf[k].0 == cc && cat == Superscript && k + 1 < buf.len() {
                                    let c3 = buf[k + 1].0;
                                    if (c3 as u32) < 128 {
                                        let mut d = 2;
                                        let mut newc = if (c3 as u32) < 64 { char::from_u32(c3 as u32 + 64).unwrap() } else { char::from_u32(c3 as u32 - 64).unwrap() };
                                        if hex && is_hex(c3) && k + 2 < buf.len() && is_hex(buf[k + 2].0) { d = 3; newc = char::from_u32(16 * hexv(c3) + hexv(buf[k + 2].0)).unwrap(); }
                                        buf[k - 1].0 = newc;
                                        for _ in 0..d { buf.remove(k); }
                                        reduced = true;
                                    }
                                }
                                reduced
                            }} }
                            if cat == Letter && k < buf.len() {
                                loop { cc = buf[k].0; cat = cfg.cat(cc); k += 1; if cat != Letter || k >= buf.len() { break; } }
                                if try_reduce!() { continue 'start_cs; }
                                if cat != Letter { k -= 1; }
                                if k > loc + 1 {
                                    let name: String = buf[loc..k].iter().map(|x| x.0).collect();
                                    loc = k;
                                    out.push(RTok { tok: Tok::Cs(name), line: li + 1, col });
                                    continue 'line;
                                }
                            } else if try_reduce!() { continue 'start_cs; }
                            let name = buf[loc].0.to_string(); loc += 1;
                            out.push(RTok { tok: Tok::Cs(name), line: li + 1, col });
                            continue 'line;
                        }
                    }
                    EndOfLine => {
                        loc = buf.len();
                        match st {
                            St::New => out.push(RTok { tok: Tok::Cs("par".into()), line: li + 1, col }),
                            St::Mid => out.push(RTok { tok: Tok::Ch(' ', 10), line: li + 1, col }),
                            St::Skip => {}
                        }
                        continue 'line;
                    }
                    Space => { if st == St::Mid { out.push(RTok { tok: Tok::Ch(' ', 10), line: li + 1, col }); st = St::Skip; } continue 'line; }
                    Comment => { loc = buf.len(); continue 'line; }
                    Ignored => continue 'line,
                    Invalid => { out.push(RTok { tok: Tok::Invalid(c), line: li + 1, col }); return out; }
                    Superscript => {
                        if loc < buf.len() && buf[loc].0 == c && loc + 1 < buf.len() {
                            let c3 = buf[loc + 1].0;
                            if (c3 as u32) < 128 {
                                loc += 2;
                                if hex && is_hex(c3) && loc < buf.len() && is_hex(buf[loc].0) { c = char::from_u32(16 * hexv(c3) + hexv(buf[loc].0)).unwrap(); loc += 1; continue; }
                                c = if (c3 as u32) < 64 { char::from_u32(c3 as u32 + 64).unwrap() } else { char::from_u32(c3 as u32 - 64).unwrap() };
                                continue; // reswitch
                            }
                        }
                        st = St::Mid; out.push(RTok { tok: Tok::Ch(c, 7), line: li + 1, col }); continue 'line;
                    }
                    other => { st = St::Mid; out.push(RTok { tok: Tok::Ch(c, other as u8), line: li + 1, col }); continue 'line; }
                }
            }
        }
    }
    out
}

fn impl_scan(src: &str, cfg: &Cfg, report_eol: bool) -> Result<Vec<RTok>, String> {
    let r = std::panic::catch_unwind(|| {
        let mut tracer: Tracer = Default::default();
        let mut interner: CsNameInterner = Default::default();
        let range = tracer.register_source_code(None, Origin::Terminal, src);
        let mut lx = Lexer::new(src.to_string(), range);
        let mut out = vec![];
        loop {
            match lx.next(cfg, &mut interner, report_eol) {
                lexer::Result::Token(t) => {
                    let tr = tracer.trace(t, &interner);
                    let tok = match t.value() {
                        Value::CommandRef(CommandRef::ControlSequence(n)) => Tok::Cs(interner.resolve(n).unwrap().to_string()),
                        v => { let (c, cc) = v.char_and_cat_code().unwrap(); Tok::Ch(c, cc as u8) }
                    };
                    out.push(RTok { tok, line: tr.line_number, col: tr.index });
                }
                lexer::Result::InvalidCharacter(c, _k) => { out.push(RTok { tok: Tok::Invalid(c), line: 0, col: 0 }); break; }
                lexer::Result::EndOfLine => out.push(RTok { tok: Tok::Eol, line: 0, col: 0 }),
                lexer::Result::EndOfInput => break,
            }
            if out.len() > 100 { break; }
        }
        out
    });
    r.map_err(|_| "panic".to_string())
}

fn main() {
    std::panic::set_hook(Box::new(|_| {}));
    let sigma: Vec<char> = std::env::args().nth(1).unwrap_or("\\{^ \naM%é".into()).replace("\\n", "\n").chars().collect();
    let maxlen: usize = std::env::args().nth(2).map(|s| s.parse().unwrap()).unwrap_or(5);
    let hex = std::env::args().nth(3).map(|s| s == "hex").unwrap_or(false);
    let mut classes: BTreeMap<String, (u64, String)> = BTreeMap::new();
    let elcs = [Some('\r'), None, Some('a'), Some('^'), Some(' '), Some('%'), Some('\\')];
    let (mut total, mut tokdiff, mut posdiff, mut panics) = (0u64, 0u64, 0u64, 0u64);
    for len in 0..=maxlen {
        let mut idx = vec![0usize; len];
        loop {
            let src: String = idx.iter().map(|&i| sigma[i]).collect();
            for elc in elcs { for rep in [true, false] {
                let mut distinct: Vec<char> = src.chars().collect(); distinct.sort(); distinct.dedup();
                let mut cfgs = vec![Cfg { cats: HashMap::new(), elc }];
                if std::env::var("DEV").is_ok() {
                    for &dc in &distinct { for code in 0u8..16 { let mut m = HashMap::new(); m.insert(dc, CatCode::try_from(code).unwrap()); cfgs.push(Cfg { cats: m, elc }); } }
                    if let Some(e) = elc { if !distinct.contains(&e) { for code in 0u8..16 { let mut m = HashMap::new(); m.insert(e, CatCode::try_from(code).unwrap()); cfgs.push(Cfg { cats: m, elc }); } } }
                }
                for cfg in cfgs {
                    total += 1;
                    let want = ref_scan(&src, &cfg, hex, rep);
                    match impl_scan(&src, &cfg, rep) {
                        Err(_) => { panics += 1; classes.entry("PANIC".into()).or_insert((0, format!("{:?} elc={:?} cats={:?}", src, elc, cfg.cats))).0 += 1; }
                        Ok(got) => {
                            let wt: Vec<&Tok> = want.iter().map(|t| &t.tok).collect();
                            let gt: Vec<&Tok> = got.iter().map(|t| &t.tok).collect();
                            if wt != gt { tokdiff += 1;
                                let key = format!("TOK first-diff want={:?} got={:?}", wt.iter().zip(gt.iter()).find(|(a, b)| a != b).map(|x| x.0), wt.iter().zip(gt.iter()).find(|(a, b)| a != b).map(|x| x.1));
                                classes.entry(key).or_insert((0, format!("{:?} elc={:?} cats={:?} rep={rep} want={:?} got={:?}", src, elc, cfg.cats, wt, gt))).0 += 1;
                            } else {
                                let bad = want.iter().zip(got.iter()).find(|(a, b)| a.tok != Tok::Eol && !matches!(a.tok, Tok::Invalid(_)) && (a.line != b.line || a.col != b.col));
                                if let Some((a, b)) = bad { posdiff += 1;
                                    let key = format!("POS {:?}", match &a.tok { Tok::Cs(_) => "cs", Tok::Ch(_, c) => if *c == 10 { "space" } else { "char" }, _ => "?" });
                                    classes.entry(key).or_insert((0, format!("{:?} elc={:?} cats={:?} want={:?} got={:?}", src, elc, cfg.cats, a, b))).0 += 1;
                                }
                            }
                        }
                    }
                }
            } }
            let mut k = len; let mut done = false;
            loop { if k == 0 { done = true; break; } k -= 1; idx[k] += 1; if idx[k] < sigma.len() { break; } idx[k] = 0; }
            if done { break; }
        }
    }
    println!("total={total} tokdiff={tokdiff} posdiff={posdiff} panics={panics}");
    for (k, (n, ex)) in classes.iter().take(40) { println!("{n:8} {k}\n           e.g. {ex}"); }
}
// Results on the pinned tree (nohex model):
//   sigma = \ { ^ space newline a M % é, len<=5, plain catcodes, 7 end-line chars: total=930020 tokdiff=3066 posdiff=27542 panics=0
//     every token difference has the shape  X X <non-ASCII char>  with X of catcode 7 (carets dropped by the implementation);
//     every position difference is a ^^x-reduced character (implementation reports the column of x, model the column of the first ^).
//   same with every single catcode deviation, len<=4: total=6531686 tokdiff=11292 (same class only) panics=0
//   hex model, sigma = ^ 5 e a space newline \ : all token differences are ^^ followed by two lowercase hex digits.
