// Design-time probe: hyphenation-pass invariants (C14) on cmr10.
use boxworks::ds::{self, Horizontal as H};
use boxworks::{Hyphenator as _, TextPreprocessor};
use boxworks_text as bwt;
use std::collections::BTreeMap;

fn letters_of(h: &H) -> String { match h { H::Char(c) => c.char.to_string(), H::Ligature(l) => l.original_chars.to_string(), _ => String::new() } }
fn dletters(e: &ds::DiscretionaryElem) -> String { match e { ds::DiscretionaryElem::Char(c) => c.char.to_string(), ds::DiscretionaryElem::Ligature(l) => l.original_chars.to_string(), _ => String::new() } }

fn main() {
    std::panic::set_hook(Box::new(|_| {}));
    let tfm_bytes = std::fs::read("/repo/crates/tfm/corpus/computer-modern/cmr10.tfm").unwrap();
    let vocab = ["difficult", "office", "shuffling", "waffle", "affliction", "fifty", "efficient", "Contents", "hyphenation", "a", "fi", "baffling", "stiffly", "chaff", "flyleaf", "halfback", "shelfful", "x-y", "AVATAR", "e.g.", "(office)", "3.0", "offline,", "difficult.", "``office''", "fluffiest", "raffish", "offhand"];
    let mut classes: BTreeMap<String, (u64, String)> = BTreeMap::new();
    let (mut total, mut ok, mut discs_total) = (0u64, 0u64, 0u64);
    for every_pos in [false, true] { for (lhm, rhm) in [(1, 1), (2, 3), (3, 2), (1, 3)] {
        for w1 in vocab { for w2 in vocab {
            let text = format!("x {w1} {w2}");
            let mut tfm_file = tfm::File::deserialize(&tfm_bytes).0.unwrap();
            let lkp = tfm::ligkern::CompiledProgram::compile_from_tfm_file(&mut tfm_file).0;
            let mut tp = bwt::TextPreprocessorImpl::new(bwt::Params::plain_tex_defaults());
            tp.register_font(0, &tfm_file, lkp.clone()); tp.activate_font(0);
            let mut list = vec![]; tp.add_text(&text, &mut list);
            let before = list.clone();
            let mut hy = boxworks_hyphenate::Hyphenator::plain_tex_en_us(lkp);
            if every_pos { let mut h = hyphenate::Hyphenator::default(); let pats: String = ('a'..='z').map(|c| format!("{c}1 ")).collect(); h.load_patterns(&pats); hy.hyphenator = h; }
            hy.left_hyphen_min = lhm; hy.right_hyphen_min = rhm;
            let r = std::panic::catch_unwind(std::panic::AssertUnwindSafe(|| { let mut l = list.clone(); hy.hyphenate(&mut l); l }));
            total += 1;
            let after = match r { Err(_) => { classes.entry("PANIC".into()).or_insert((0, text.clone())).0 += 1; continue; } Ok(l) => l };
            let desc = format!("{text:?} every={every_pos} mins=({lhm},{rhm})");
            // (1) remove discretionaries that were not in the original, compare node for node
            let nd = |l: &Vec<H>| l.iter().filter(|h| !matches!(h, H::Discretionary(_))).cloned().collect::<Vec<_>>();
            let mut good = true;
            if nd(&before) != nd(&after) { good = false; classes.entry("I1 non-disc nodes changed".into()).or_insert((0, format!("{desc}"))).0 += 1; }
            // original discs preserved in order
            let od: Vec<&H> = before.iter().filter(|h| matches!(h, H::Discretionary(_))).collect();
            let mut it = after.iter().filter(|h| matches!(h, H::Discretionary(_)));
            for d in &od { if !it.any(|x| x == *d) { good = false; classes.entry("I1b original disc lost".into()).or_insert((0, desc.clone())).0 += 1; break; } }
            // (2) per new disc: letters(pre minus trailing hyphen) + letters(post) == letters(replaced nodes)
            // (3) positions: walk words
            let lc = hyphenate::AsciiLowerCaser::default();
            let mut i = 0; let mut word = String::new(); let mut cuts: Vec<usize> = vec![]; let mut words_found: Vec<(String, Vec<usize>)> = vec![];
            while i < after.len() {
                match &after[i] {
                    H::Discretionary(d) if !(d.pre_break.is_empty() && d.post_break.is_empty() && d.replace_count == 0) => {
                        discs_total += 1;
                        let mut pre: String = d.pre_break.iter().map(dletters).collect();
                        if pre.ends_with('-') { pre.pop(); } else { good = false; classes.entry("I2 pre-break does not end in hyphen".into()).or_insert((0, desc.clone())).0 += 1; }
                        let post: String = d.post_break.iter().map(dletters).collect();
                        let repl: String = after[i + 1..(i + 1 + d.replace_count as usize).min(after.len())].iter().map(letters_of).collect();
                        if format!("{pre}{post}") != repl { good = false; classes.entry("I2 letters not conserved at break".into()).or_insert((0, format!("{desc} pre={pre} post={post} repl={repl}"))).0 += 1; }
                        cuts.push(word.chars().count() + pre.chars().count());
                    }
                    H::Glue(_) => { if !word.is_empty() { words_found.push((std::mem::take(&mut word), std::mem::take(&mut cuts))); } }
                    h => { word.push_str(&letters_of(h)); }
                }
                i += 1;
            }
            if !word.is_empty() { words_found.push((word, cuts)); }
            // expected cuts for the 2nd and 3rd words (first word "x" has none): letters-only core
            for (wi, (w, cuts)) in words_found.iter().enumerate() {
                // core = maximal run of ascii letters starting at first letter (TeX 896-897), terminated by non-letter
                let start = w.find(|c: char| c.is_ascii_alphabetic());
                let expected: Vec<usize> = match start { None => vec![], Some(s) => {
                    if wi == 0 { vec![] } else {
                    let core: String = w[s..].chars().take_while(|c| c.is_ascii_alphabetic()).collect();
                    let n = core.chars().count();
                    hy.hyphenator.calculate_indices(&lc, &core).filter(|&p| p >= lhm.max(1) as usize && p + (rhm.max(1) as usize) <= n).map(|p| p + w[..s].chars().count()).collect() } } };
                // TeX 909/914: inside one reconstituted ligature only the FIRST odd position is honoured.
                let expected: Vec<usize> = { let mut ligs: Vec<(usize, usize)> = vec![]; let mut off = 0usize; let mut seen_glue = 0usize;
                    for h in &before { match h { H::Glue(_) => { seen_glue += 1; off = 0; } H::Ligature(l) => { let n = l.original_chars.chars().count(); if seen_glue == wi { ligs.push((off, off + n)); } off += n; } H::Char(_) => { off += 1; } _ => {} } }
                    let mut out = vec![]; for &p in &expected { let inside = ligs.iter().find(|(a, b)| *a < p && p < *b); match inside { Some((a, _b)) => { if !expected.iter().any(|&q| *a < q && q < p) { out.push(p); } } None => out.push(p) } } out };
                if &expected != cuts { good = false; classes.entry(format!("I3 positions differ (word {wi})")).or_insert((0, format!("{desc} word={w} want={expected:?} got={cuts:?}"))).0 += 1; }
            }
            if good { ok += 1; }
        } }
    } }
    println!("lists={total} all-invariants-ok={ok} discretionaries={discs_total}");
    for (k, (n, ex)) in &classes { println!("{n:8} {k}\n      e.g. {}", ex.chars().take(400).collect::<String>()); }
}
// Results on the pinned tree (cmr10, 28-word vocabulary squared, plain patterns and "every position" patterns, 4 settings of the minima):
//   lists=6272 discretionaries=25850; invariants I1 (delete discretionaries = identity), I1b, I2 (letters conserved at each break) hold everywhere.
//   I3 (positions) with the literal "all Liang positions" oracle: 2920 lists differ, all of the shape raf-f-ish (two odd positions strictly
//   inside one ligature; TeX 909/914 honours only the first, and so does the implementation).
//   I3 with that rule in the oracle: 170 lists differ, all "x 3.0 <word>" (word after a letterless token never hyphenated, defect D12).
