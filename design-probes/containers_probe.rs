// Design-time probe: C20 interner and KMP, C05 three-rule timing.
use std::collections::BTreeMap;
use std::hash::{BuildHasherDefault, Hasher};
use texcraft_stdext::algorithms::substringsearch::Matcher;
use texcraft_stdext::collections::interner::Interner;
use texcraft_stdext::collections::nevec::Nevec;
#[derive(Default)] struct Const; impl Hasher for Const { fn finish(&self) -> u64 { 7 } fn write(&mut self, _: &[u8]) {} }
fn main() {
    std::panic::set_hook(Box::new(|_| {}));
    let mut classes: BTreeMap<String, (u64, String)> = BTreeMap::new();
    // KMP: all patterns <= 5, texts <= 12 over {a,b}
    let mut total = 0u64;
    for plen in 1..=5usize { for pm in 0..(1u32 << plen) { let pat: Vec<u8> = (0..plen).map(|i| (pm >> i & 1) as u8).collect();
        let m = Matcher::new(Nevec::new_with_tail(pat[0], pat[1..].to_vec()));
        for tlen in 0..=12usize { for tm in 0..(1u32 << tlen) { total += 1; let text: Vec<u8> = (0..tlen).map(|i| (tm >> i & 1) as u8).collect();
            let mut s = m.start(); let got: Vec<usize> = text.iter().enumerate().filter_map(|(i, c)| if s.next(c) { Some(i) } else { None }).collect();
            let want: Vec<usize> = (0..tlen).filter(|&i| i + 1 >= plen && text[i + 1 - plen..=i] == pat[..]).collect();
            if got != want { classes.entry("KMP differs".into()).or_insert((0, format!("{pat:?} in {text:?}: want {want:?} got {got:?}"))).0 += 1; } } } } }
    println!("KMP cases={total}");
    // interner: all histories <= 5 over 6 strings x {intern, get}, both hashers; resolve all after each step
    let strs = ["", "a", "b", "ab", "ba", "aa"]; let mut total = 0u64;
    fn drive<S: std::hash::BuildHasher + Default>(ops: &[(usize, bool)], strs: &[&str]) -> Result<(), String> {
        let mut it: Interner<std::num::NonZeroU32, S> = Default::default(); let mut model: Vec<String> = vec![];
        for &(si, intern) in ops { let s = strs[si];
            if intern { let k = it.get_or_intern(s); let idx = match model.iter().position(|m| m == s) { Some(i) => i, None => { model.push(s.to_string()); model.len() - 1 } }; if k.get() as usize != idx + 1 { return Err(format!("key {} for {s:?}, model {}", k.get(), idx + 1)); } }
            else { let k = it.get(s); let want = model.iter().position(|m| m == s).map(|i| i as u32 + 1); if k.map(|k| k.get()) != want { return Err(format!("get({s:?}) = {k:?}, model {want:?}")); } }
            for (i, m) in model.iter().enumerate() { let k = std::num::NonZeroU32::new(i as u32 + 1).unwrap(); if it.resolve(k) != Some(m.as_str()) { return Err(format!("resolve({}) = {:?}, model {m:?}", i + 1, it.resolve(k))); } }
            if it.resolve(std::num::NonZeroU32::new(model.len() as u32 + 1).unwrap()).is_some() { return Err("resolve of an unissued key is Some".into()); } }
        Ok(()) }
    for len in 1..=5usize { let n = strs.len() * 2; let mut idx = vec![0usize; len]; loop { total += 1;
        let ops: Vec<(usize, bool)> = idx.iter().map(|i| (i / 2, i % 2 == 0)).collect();
        for (name, r) in [("random", drive::<std::collections::hash_map::RandomState>(&ops, &strs)), ("constant", drive::<BuildHasherDefault<Const>>(&ops, &strs))] { if let Err(e) = r { classes.entry(format!("interner differs ({name} hasher)")).or_insert((0, format!("{ops:?}: {e}"))).0 += 1; } }
        let mut k = len; let mut done = false; loop { if k == 0 { done = true; break; } k -= 1; idx[k] += 1; if idx[k] < n { break; } idx[k] = 0; } if done { break; } } }
    println!("interner histories={total}");
    for (k, (n, ex)) in &classes { println!("{n:8} {k}\n      first: {}", ex.chars().take(300).collect::<String>()); }
}
// Results on the pinned tree (0.33 s): KMP, all patterns <= 5 x all texts <= 12 over {a,b} = 507 842 cases against naive matching: no difference.
// Interner, all 271 452 histories of <= 5 get_or_intern/get calls over {"", a, b, ab, ba, aa}, resolve of every issued key after every step, under
// RandomState and under a constant hasher (every string collides): no difference from a Vec<String> model.
