// Design-time probe: C01 (group scoping histories) and C08 (checkpoint transparency) on a harness-owned state.
use std::cell::RefCell;
use std::collections::{BTreeMap, HashMap};
use std::rc::Rc;
use texlang::traits::*;
use texlang::types::CatCode;
use texlang::*;
use texlang_stdlib::*;

#[derive(Default, serde::Serialize, serde::Deserialize)]
pub struct HState {
    pub alloc: alloc::Component,
    pub codes_cat_code: codes::Component<CatCode>,
    pub codes_math_code: codes::Component<types::MathCode>,
    pub conditional: conditional::Component,
    pub end_line_char: endlinechar::Component,
    pub error_mode: errormode::Component,
    pub input: input::Component<16>,
    pub job: job::Component,
    pub prefix: prefix::Component,
    pub registers_i32: registers::Component<i32, 32768>,
    pub registers_scaled: registers::Component<common::Scaled, 32768>,
    pub registers_glue: registers::Component<common::Glue, 32768>,
    pub registers_token_list: registers::Component<Vec<token::Token>, 256>,
    pub repl: repl::Component,
    pub script: script::Component,
    pub time: time::Component,
    pub tracing_macros: tracingmacros::Component,
    #[serde(skip)]
    pub out: RefCell<Vec<String>>,
    #[serde(skip)]
    pub fs: Rc<RefCell<texlang_common::InMemoryFileSystem>>,
}
impl TexlangState for HState {
    fn cat_code(&self, c: char) -> CatCode { codes::cat_code(self, c) }
    fn end_line_char(&self) -> Option<char> { endlinechar::end_line_char(self) }
    fn post_macro_expansion_hook(token: token::Token, input: &vm::ExpansionInput<Self>, m: &texmacro::Macro, a: &[&[token::Token]], r: &[token::Token]) { tracingmacros::hook(token, input, m, a, r) }
    fn expansion_override_hook(token: token::Token, input: &mut vm::ExpansionInput<Self>, tag: Option<command::Tag>) -> texlang::prelude::Result<Option<token::Token>> { expansion::noexpand_hook(token, input, tag) }
    fn variable_assignment_scope_hook(state: &mut Self) -> texcraft_stdext::collections::groupingmap::Scope { prefix::variable_assignment_scope_hook(state) }
    fn recoverable_error_hook(&self, e: error::TracedTexError) -> Result<(), Box<dyn error::TexError>> { errormode::recoverable_error_hook(self, e) }
}
impl the::TheCompatible for HState {}
vm::implement_has_component![HState{
    alloc: alloc::Component, codes_cat_code: codes::Component<CatCode>, codes_math_code: codes::Component<types::MathCode>,
    conditional: conditional::Component, end_line_char: endlinechar::Component, error_mode: errormode::Component, input: input::Component<16>,
    job: job::Component, prefix: prefix::Component, registers_i32: registers::Component<i32, 32768>, registers_scaled: registers::Component<common::Scaled, 32768>,
    registers_glue: registers::Component<common::Glue, 32768>, registers_token_list: registers::Component<Vec<token::Token>, 256>,
    repl: repl::Component, script: script::Component, time: time::Component, tracing_macros: tracingmacros::Component,
}];
impl texlang_common::HasLogging for HState {}
impl texlang_common::HasFileSystem for HState { fn file_system(&self) -> Rc<RefCell<dyn texlang_common::FileSystem>> { self.fs.clone() } }
impl texlang_common::HasTerminalIn for HState { fn terminal_in(&self) -> Rc<RefCell<dyn texlang_common::TerminalIn>> { self.error_mode.terminal_in() } }
struct H;
fn name(input: &vm::ExecutionInput<HState>, t: token::Token) -> String { match t.value() { token::Value::CommandRef(r) => r.to_string(input.vm().cs_name_interner()), _ => "?".into() } }
impl vm::Handlers<HState> for H {
    fn character_handler(input: &mut vm::ExecutionInput<HState>, _t: token::Token, c: char) -> texlang::prelude::Result<()> { input.state().out.borrow_mut().push(c.to_string()); Ok(()) }
    fn undefined_command_handler(input: &mut vm::ExecutionInput<HState>, t: token::Token) -> texlang::prelude::Result<()> { let s = name(input, t); input.state().out.borrow_mut().push(format!("<undef {s}>")); Ok(()) }
    fn unexpanded_expansion_command(input: &mut vm::ExecutionInput<HState>, t: token::Token) -> texlang::prelude::Result<()> { let s = name(input, t); input.state().out.borrow_mut().push(s); Ok(()) }
}
fn probefont(_t: token::Token, input: &mut vm::ExecutionInput<HState>) -> texlang::prelude::Result<()> { let f = input.vm().current_font().0; input.state().out.borrow_mut().push(format!("F{f}")); Ok(()) }
fn builtins() -> HashMap<&'static str, command::BuiltIn<HState>> {
    let mut m = built_in_commands::<HState>();
    m.insert("fa", command::BuiltIn::new_font(types::Font(1)));
    m.insert("fb", command::BuiltIn::new_font(types::Font(2)));
    m.insert("probefont", command::BuiltIn::new_execution(probefont));
    m
}
fn new_vm() -> vm::VM<HState> { vm::VM::<HState>::new_with_built_in_commands(builtins()) }
fn run(vm: &mut vm::VM<HState>, src: &str) -> Result<String, String> {
    vm.state.out.borrow_mut().clear();
    vm.push_source("t.tex", src).unwrap();
    let r = vm.run::<H>().map_err(|e| e.error.title());
    let out = vm.state.out.borrow().join("");
    r.map(|_| out.clone()).map_err(|e| format!("{out} !{e}"))
}

// ---------------- C01
struct Kind { name: &'static str, setup: &'static str, assign: fn(usize) -> (String, String), probe: &'static str, initial: &'static str }
fn kinds() -> Vec<Kind> { vec![
    Kind { name: "count", setup: "", assign: |n| (format!("\\count1={n} "), n.to_string()), probe: "\\the\\count1 ", initial: "0" },
    Kind { name: "dimen", setup: "", assign: |n| (format!("\\dimen1={n}pt "), format!("{n}.0pt")), probe: "\\the\\dimen1 ", initial: "0.0pt" },
    Kind { name: "skip", setup: "", assign: |n| (format!("\\skip1={n}pt plus 1pt "), format!("{n}.0pt plus 1.0pt")), probe: "\\the\\skip1 ", initial: "0.0pt" },
    Kind { name: "toks", setup: "", assign: |n| (format!("\\toks1={{{n}}}"), n.to_string()), probe: "\\the\\toks1 ", initial: "" },
    Kind { name: "catlow", setup: "", assign: |n| (format!("\\catcode`\\|={} ", [11, 7, 8][n % 3]), [11, 7, 8][n % 3].to_string()), probe: "\\the\\catcode`\\| ", initial: "12" },
    Kind { name: "cathigh", setup: "", assign: |n| (format!("\\catcode`\\é={} ", [11, 7, 8][n % 3]), [11, 7, 8][n % 3].to_string()), probe: "\\the\\catcode`\\é ", initial: "12" },
    Kind { name: "endlinechar", setup: "", assign: |n| (format!("\\endlinechar={} ", 40 + n), (40 + n).to_string()), probe: "\\the\\endlinechar ", initial: "13" },
    Kind { name: "macro", setup: "", assign: |n| (format!("\\def\\a{{{n}}}"), n.to_string()), probe: "\\a ", initial: "<undef \\a>" },
    Kind { name: "active", setup: "", assign: |n| (format!("\\def~{{{n}}}"), n.to_string()), probe: "~", initial: "<undef ~>" },
    Kind { name: "let", setup: "\\def\\x{X}\\def\\y{Y}\\def\\z{Z}\\let\\b=\\z ", assign: |n| (format!("\\let\\b=\\{} ", ["x", "y"][n % 2]), ["X", "Y"][n % 2].to_string()), probe: "\\b ", initial: "Z" },
    Kind { name: "countdef", setup: "\\count2=22 \\count3=33 \\count4=44 \\countdef\\c=4 ", assign: |n| (format!("\\countdef\\c={} ", 2 + n % 2), ["22", "33"][n % 2].to_string()), probe: "\\the\\c ", initial: "44" },
    Kind { name: "chardef", setup: "\\chardef\\d=67 ", assign: |n| (format!("\\chardef\\d={} ", 65 + n % 2), (65 + n % 2).to_string()), probe: "\\the\\d ", initial: "67" },
    Kind { name: "font", setup: "", assign: |n| (format!("\\{} ", ["fa", "fb"][n % 2]), format!("F{}", 1 + n % 2)), probe: "\\probefont ", initial: "F0" },
    Kind { name: "advance", setup: "", assign: |n| (format!("\\advance\\count1 by {n} "), format!("+{n}")), probe: "\\the\\count1 ", initial: "0" },
] }

fn c01(maxlen: usize) {
    let mut classes: BTreeMap<String, (u64, String)> = BTreeMap::new();
    let mut total = 0u64;
    for k in kinds() {
        for len in 1..=maxlen {
            let mut idx = vec![0usize; len];
            'seq: loop {
                // ops: 0 '{', 1 '}', 2 local, 3 global
                let mut depth = 0i32; let mut valid = true;
                for &o in &idx { if o == 0 { depth += 1 } else if o == 1 { depth -= 1; if depth < 0 { valid = false; break; } } }
                if valid {
                    let mut src = String::from(k.setup); src.push_str("|"); src.push_str(k.probe);
                    let mut stack: Vec<String> = vec![k.initial.to_string()];
                    let mut want = vec![k.initial.to_string()];
                    let mut n = 0usize;
                    for &o in &idx {
                        match o { 0 => { src.push('{'); let t = stack.last().unwrap().clone(); stack.push(t); }
                            1 => { src.push('}'); stack.pop(); }
                            _ => { n += 1; let (text, val) = (k.assign)(n);
                                let val = if k.name == "advance" { let cur: i64 = stack.last().unwrap().parse().unwrap(); (cur + n as i64).to_string() } else { val };
                                if o == 3 { src.push_str("\\global"); for s in stack.iter_mut() { *s = val.clone(); } } else { *stack.last_mut().unwrap() = val.clone(); }
                                src.push_str(&text); } }
                        src.push('|'); src.push_str(k.probe); want.push(stack.last().unwrap().clone());
                    }
                    total += 1;
                    let r = std::panic::catch_unwind(|| { let mut vm = new_vm(); run(&mut vm, &src) });
                    let got = match r { Err(_) => "PANIC".to_string(), Ok(Ok(s)) => s, Ok(Err(e)) => e };
                    let got_parts: Vec<&str> = got.split('|').skip(1).collect();
                    if got_parts.len() != want.len() || got_parts.iter().zip(want.iter()).any(|(g, w)| g.trim() != w.trim()) {
                        let shape: String = idx.iter().map(|o| ['{', '}', 'L', 'G'][*o]).collect();
                        classes.entry(format!("{} mismatch", k.name)).or_insert((0, format!("ops={shape} src={src} want={want:?} got={got_parts:?}"))).0 += 1;
                    }
                }
                let mut j = len; loop { if j == 0 { break 'seq; } j -= 1; idx[j] += 1; if idx[j] < 4 { break; } idx[j] = 0; }
            }
        }
    }
    println!("C01 histories={total}");
    for (k, (n, ex)) in &classes { println!("{n:8} {k}\n      first: {}", ex.chars().take(420).collect::<String>()); }
}

// ---------------- C08
fn roundtrip(vm: &vm::VM<HState>, fmt: usize) -> Result<vm::VM<HState>, String> {
    std::panic::catch_unwind(std::panic::AssertUnwindSafe(|| match fmt {
        0 => { let s = serde_json::to_string(vm).unwrap(); let mut d = serde_json::Deserializer::from_str(&s); vm::VM::deserialize_with_built_in_commands(&mut d, builtins()).unwrap() }
        1 => { let s = rmp_serde::to_vec(vm).unwrap(); let mut d = rmp_serde::decode::Deserializer::from_read_ref(&s); vm::VM::deserialize_with_built_in_commands(&mut d, builtins()).unwrap() }
        _ => { let s = bincode::serde::encode_to_vec(vm, bincode::config::standard()).unwrap(); let d: Box<vm::serde::DeserializedVM<HState>> = bincode::serde::decode_from_slice(&s, bincode::config::standard()).unwrap().0; vm::serde::finish_deserialization(d, builtins()) }
    })).map_err(|_| "PANIC in ser/de".to_string())
}
fn c08() {
    let frags = ["\\def\\a{A1}", "\\gdef\\a{A2}", "\\catcode`\\~=13 \\def~{T1}", "\\let\\b=\\a ", "\\let\\c=\\the ", "\\let\\d=\\def ", "\\let\\e=x", "\\countdef\\f=5 \\f=55 ",
        "\\toksdef\\g=6 \\g={tk}", "\\chardef\\h=72 ", "\\mathchardef\\i=73 ", "\\count1=11 ", "\\dimen1=2pt ", "\\skip1=3pt plus 1fil ", "\\toks1={T}", "\\catcode`\\|=13 ", "\\catcode`\\é=11 ",
        "\\mathcode`\\a=5 ", "\\endlinechar=65 ", "\\globaldefs=1 ", "{", "{\\count1=12 \\def\\a{A3}", "{\\global\\count1=13 ", "}", "\\iftrue ", "\\iffalse\\else ", "\\ifcase 1 \\or ", "\\fi ", "\\newInt\\n \\n=9 ", "\\fa ", "{\\fb "];
    let observe = "|\\a|\\b|\\the\\count1|\\the\\dimen1|\\the\\skip1|\\the\\toks1|\\the\\catcode`\\||\\the\\catcode`\\é|\\the\\mathcode`\\a|\\the\\endlinechar|\\the\\globaldefs|\\the\\count5|\\the\\toks6|\\probefont|~|";
    let drain = "\\fi\\fi\\fi }|\\a|\\the\\count1|\\probefont|~|}|\\a|\\the\\count1|\\probefont|~|";
    let mut classes: BTreeMap<String, (u64, String)> = BTreeMap::new();
    let (mut total, mut same) = (0u64, 0u64);
    for f1 in frags { for f2 in frags {
        let (mut conds, mut groups, mut bad) = (0i32, 0i32, false);
        for f in [f1, f2] { if f.starts_with("\\if") { conds += 1; } if f == "\\fi " { conds -= 1; } if f.starts_with('{') { groups += 1; } if f == "}" { groups -= 1; } if conds < 0 || groups < 0 { bad = true; } }
        if bad { continue; }
        let _ = drain;
        let drain: String = format!("{}{}", "\\fi ".repeat(conds as usize), "}|\\a|\\the\\count1|\\probefont|~|".repeat(groups as usize));
        let lines = [f1.to_string(), f2.to_string(), observe.to_string(), drain.to_string()];
        let whole: String = lines.iter().map(|l| format!("{l}\n")).collect();
        let base = std::panic::catch_unwind(|| { let mut vm = new_vm(); run(&mut vm, &whole) }).unwrap_or(Err("PANIC".into()));
        for split in 1..=2usize { for fmt in 0..3usize {
            total += 1;
            let p1: String = lines[..split].iter().map(|l| format!("{l}\n")).collect();
            let p2: String = lines[split..].iter().map(|l| format!("{l}\n")).collect();
            let got = std::panic::catch_unwind(|| { let mut vm = new_vm(); let o1 = run(&mut vm, &p1); match o1 { Err(e) => Err(e), Ok(o1) => match roundtrip(&vm, fmt) { Err(e) => Err(format!("{o1} {e}")), Ok(mut vm2) => run(&mut vm2, &p2).map(|o2| format!("{o1}{o2}")).map_err(|e| format!("{o1}{e}")) } } }).unwrap_or(Err("PANIC".into()));
            if got == base { same += 1; } else {
                let key = match (&base, &got) { (_, Err(e)) if e.contains("PANIC") => "panic in ser/de or after".to_string(), (Ok(_), Ok(_)) => format!("output differs [{}]", if split == 1 { f1 } else { f2 }), (Ok(_), Err(_)) => format!("error only after checkpoint [{}]", if split == 1 { f1 } else { f2 }), _ => format!("other [{}]", if split == 1 { f1 } else { f2 }) };
                classes.entry(key).or_insert((0, format!("P1={p1:?} fmt={fmt} base={base:?} got={got:?}"))).0 += 1;
            }
        } }
    } }
    println!("C08 checkpoints={total} transparent={same}");
    for (k, (n, ex)) in &classes { println!("{n:8} {k}\n      first: {}", ex.chars().take(500).collect::<String>()); }
}

fn vm_with_files(files: &[(String, String)]) -> vm::VM<HState> {
    let mut vm = new_vm();
    let mut fs = texlang_common::InMemoryFileSystem::new(vm.working_directory.as_ref().unwrap());
    for (n, c) in files { fs.add_string_file(&format!("{n}.tex"), c); }
    vm.state.fs = Rc::new(RefCell::new(fs));
    vm.state.error_mode.set_default_terminal(Rc::new(RefCell::new(texlang_common::MockTerminalIn::default())));
    vm
}
fn main() {
    std::panic::set_hook(Box::new(|_| {}));
    let files = vec![("f".to_string(), "l1\n{l2\nl3}\nl4\n".to_string()), ("g".to_string(), "m1\nm2".to_string())];
    let steps = ["\\openin 3 f ", "\\openin 4 g ", "\\read 3 to \\x [\\x]", "\\read 4 to \\y [\\y]", "\\ifeof 3 c\\else o\\fi ", "\\ifeof 4 c\\else o\\fi ", "\\closein 3 ", "{\\read 3 to \\x ", "}[\\x]", "\\global\\read 4 to \\y ", "\\input g "];
    let mut classes: BTreeMap<String, (u64, String)> = BTreeMap::new(); let (mut total, mut same) = (0u64, 0u64);
    let n = steps.len();
    for a in 0..n { for b in 0..n { for c in 0..n { for d in 0..n {
        let seq = [steps[a], steps[b], steps[c], steps[d]];
        let mut depth = 0i32; let mut bad = false; for s in seq { if s.starts_with('{') { depth += 1; } if s.starts_with('}') { depth -= 1; if depth < 0 { bad = true; } } } if bad { continue; }
        let tail = format!("{}[\\x][\\y]\\ifeof 3 c\\else o\\fi \\ifeof 4 c\\else o\\fi ", "}".repeat(depth as usize));
        let lines: Vec<String> = seq.iter().map(|s| s.to_string()).chain(std::iter::once(tail)).collect();
        let whole: String = lines.iter().map(|l| format!("{l}\n")).collect();
        let base = std::panic::catch_unwind(|| { let mut vm = vm_with_files(&files); run(&mut vm, &whole) }).unwrap_or(Err("PANIC".into()));
        if base.is_err() { continue; } // e.g. \global\read rejected (D16 family), terminal reads
        for split in 1..=4usize { for fmt in 0..3usize { total += 1;
            let p1: String = lines[..split].iter().map(|l| format!("{l}\n")).collect(); let p2: String = lines[split..].iter().map(|l| format!("{l}\n")).collect();
            let files2 = files.clone();
            let got = std::panic::catch_unwind(move || { let mut vm = vm_with_files(&files2); let o1 = run(&mut vm, &p1)?; let mut vm2 = roundtrip(&vm, fmt)?;
                // re-attach what is serde(skip) by design
                vm2.state.fs = vm.state.fs.clone(); vm2.state.error_mode.set_default_terminal(Rc::new(RefCell::new(texlang_common::MockTerminalIn::default())));
                run(&mut vm2, &p2).map(|o2| format!("{o1}{o2}")) }).unwrap_or(Err("PANIC".into()));
            if got == base { same += 1; } else { classes.entry(format!("differs after checkpoint following [{}]", seq[split - 1].trim())).or_insert((0, format!("P1={:?} fmt={fmt} base={base:?} got={got:?}", lines[..split].join("")))).0 += 1; }
        } }
    } } } }
    println!("C08 stream checkpoints={total} transparent={same}");
    for (k, (n, ex)) in &classes { println!("{n:8} {k}\n      first: {}", ex.chars().take(420).collect::<String>()); }
}
// Result on the pinned tree: every 4-step sequence over 11 stream operations (\openin on two streams, \read incl. a multi-line brace group and inside
// a TeX group, \ifeof, \closein, \input) that runs without error, checkpointed after each of its lines in JSON, MessagePack and bincode:
// 23 844 checkpoints, all transparent (a lexer positioned in the middle of a file survives the round trip). 127 s on one core.
