// Design-time probe: C01 (group scoping histories) and C08 (checkpoint transparency) on a harness-owned state.
use std::cell::RefCell;
use std::collections::{BTreeMap, HashMap};
use std::rc::Rc;
use texlang::traits::*;
use texlang::types::CatCode;
use texlang::*;
use texlang_stdlib::*;

#[derive(Default, serde::Serialize, serde::Deserialize)]
pub struct HState {
    pub alloc: alloc::Component,
    pub codes_cat_code: codes::Component<CatCode>,
    pub codes_math_code: codes::Component<types::MathCode>,
    pub conditional: conditional::Component,
    pub end_line_char: endlinechar::Component,
    pub error_mode: errormode::Component,
    pub input: input::Component<16>,
    pub job: job::Component,
    pub prefix: prefix::Component,
    pub registers_i32: registers::Component<i32, 32768>,
    pub registers_scaled: registers::Component<common::Scaled, 32768>,
    pub registers_glue: registers::Component<common::Glue, 32768>,
    pub registers_token_list: registers::Component<Vec<token::Token>, 256>,
    pub repl: repl::Component,
    pub script: script::Component,
    pub time: time::Component,
    pub tracing_macros: tracingmacros::Component,
    #[serde(skip)]
    pub out: RefCell<Vec<String>>,
    #[serde(skip)]
    pub fs: Rc<RefCell<texlang_common::InMemoryFileSystem>>,
}
impl TexlangState for HState {
    fn cat_code(&self, c: char) -> CatCode { codes::cat_code(self, c) }
    fn end_line_char(&self) -> Option<char> { endlinechar::end_line_char(self) }
    fn post_macro_expansion_hook(token: token::Token, input: &vm::ExpansionInput<Self>, m: &texmacro::Macro, a: &[&[token::Token]], r: &[token::Token]) { tracingmacros::hook(token, input, m, a, r) }
    fn expansion_override_hook(token: token::Token, input: &mut vm::ExpansionInput<Self>, tag: Option<command::Tag>) -> texlang::prelude::Result<Option<token::Token>> { expansion::noexpand_hook(token, input, tag) }
    fn variable_assignment_scope_hook(state: &mut Self) -> texcraft_stdext::collections::groupingmap::Scope { prefix::variable_assignment_scope_hook(state) }
    fn recoverable_error_hook(&self, e: error::TracedTexError) -> Result<(), Box<dyn error::TexError>> { errormode::recoverable_error_hook(self, e) }
}
impl the::TheCompatible for HState {}
vm::implement_has_component![HState{
    alloc: alloc::Component, codes_cat_code: codes::Component<CatCode>, codes_math_code: codes::Component<types::MathCode>,
    conditional: conditional::Component, end_line_char: endlinechar::Component, error_mode: errormode::Component, input: input::Component<16>,
    job: job::Component, prefix: prefix::Component, registers_i32: registers::Component<i32, 32768>, registers_scaled: registers::Component<common::Scaled, 32768>,
    registers_glue: registers::Component<common::Glue, 32768>, registers_token_list: registers::Component<Vec<token::Token>, 256>,
    repl: repl::Component, script: script::Component, time: time::Component, tracing_macros: tracingmacros::Component,
}];
impl texlang_common::HasLogging for HState {}
impl texlang_common::HasFileSystem for HState { fn file_system(&self) -> Rc<RefCell<dyn texlang_common::FileSystem>> { self.fs.clone() } }
impl texlang_common::HasTerminalIn for HState { fn terminal_in(&self) -> Rc<RefCell<dyn texlang_common::TerminalIn>> { self.error_mode.terminal_in() } }
struct H;
fn name(input: &vm::ExecutionInput<HState>, t: token::Token) -> String { match t.value() { token::Value::CommandRef(r) => r.to_string(input.vm().cs_name_interner()), _ => "?".into() } }
impl vm::Handlers<HState> for H {
    fn character_handler(input: &mut vm::ExecutionInput<HState>, _t: token::Token, c: char) -> texlang::prelude::Result<()> { input.state().out.borrow_mut().push(c.to_string()); Ok(()) }
    fn undefined_command_handler(input: &mut vm::ExecutionInput<HState>, t: token::Token) -> texlang::prelude::Result<()> { let s = name(input, t); input.state().out.borrow_mut().push(format!("<undef {s}>")); Ok(()) }
    fn unexpanded_expansion_command(input: &mut vm::ExecutionInput<HState>, t: token::Token) -> texlang::prelude::Result<()> { let s = name(input, t); input.state().out.borrow_mut().push(s); Ok(()) }
}
fn probefont(_t: token::Token, input: &mut vm::ExecutionInput<HState>) -> texlang::prelude::Result<()> { let f = input.vm().current_font().0; input.state().out.borrow_mut().push(format!("F{f}")); Ok(()) }
fn builtins() -> HashMap<&'static str, command::BuiltIn<HState>> {
    let mut m = built_in_commands::<HState>();
    m.insert("fa", command::BuiltIn::new_font(types::Font(1)));
    m.insert("fb", command::BuiltIn::new_font(types::Font(2)));
    m.insert("probefont", command::BuiltIn::new_execution(probefont));
    m
}
fn new_vm() -> vm::VM<HState> { vm::VM::<HState>::new_with_built_in_commands(builtins()) }
fn run(vm: &mut vm::VM<HState>, src: &str) -> Result<String, String> {
    vm.state.out.borrow_mut().clear();
    vm.push_source("t.tex", src).unwrap();
    let r = vm.run::<H>().map_err(|e| e.error.title());
    let out = vm.state.out.borrow().join("");
    r.map(|_| out.clone()).map_err(|e| format!("{out} !{e}"))
}


fn print_scaled(s: i64) -> String { let mut out = String::new(); let mut s = s; if s < 0 { out.push('-'); s = -s; } out.push_str(&(s / 65536).to_string()); out.push('.'); s = 10 * (s % 65536) + 5; let mut delta = 10i64;
    loop { if delta > 65536 { s = s + 32768 - 50000; } out.push((b'0' + (s / 65536) as u8) as char); s = 10 * (s % 65536); delta *= 10; if s <= delta { break; } } out }
fn round_decimals(digits: &[u8]) -> i64 { let mut a = 0i64; for d in digits.iter().take(17).rev() { a = (a + (*d as i64) * 131072) / 10; } (a + 1) / 2 }
// TeX 448-458 for "<signs><int><frac><unit>"
fn ref_dimen(neg: bool, int: i64, frac: &str, unit: &str) -> Result<i64, ()> {
    let digits: Vec<u8> = frac.chars().filter(|c| c.is_ascii_digit()).map(|c| c as u8 - b'0').collect();
    let mut f = round_decimals(&digits); let mut v = int; let mut arith = false;
    if int > 2147483647 { return Err(()); }
    let u = unit.trim().to_lowercase(); let u = u.strip_prefix("true").unwrap_or(&u).trim().to_string();
    let done_val: i64;
    if u == "sp" { done_val = v; }
    else if u == "em" || u == "ex" { let q = 12 * 65536i64; let t = (q * f) / 65536; let r = v * q + t; if r.abs() > (1 << 30) - 1 { arith = true; } done_val = r; }
    else { let (num, den) = match u.as_str() { "pt" => (1, 1), "in" => (7227, 100), "pc" => (12, 1), "cm" => (7227, 254), "mm" => (7227, 2540), "bp" => (7227, 7200), "dd" => (1238, 1157), "cc" => (14856, 1157), _ => return Err(()) };
        if (num, den) != (1, 1) { let t = v * num; let rem = t % den; v = t / den; if v > (1 << 30) - 1 { arith = true; } f = (num * f + 65536 * rem) / den; v += f / 65536; f %= 65536; }
        if v >= 16384 { arith = true; done_val = 0; } else { done_val = v * 65536 + f; } }
    if arith || done_val.abs() >= (1 << 30) { return Err(()); }
    Ok(if neg { -done_val } else { done_val })
}
fn main() {
    std::panic::set_hook(Box::new(|_| {}));
    let mut classes: BTreeMap<String, (u64, String)> = BTreeMap::new(); let (mut total, mut agree) = (0u64, 0u64);
    let signs = [("", false), ("-", true), ("+-", true), ("--", false), ("- ", true)];
    let ints: [i64; 9] = [0, 1, 7, 226, 16383, 16384, 100000, 1073741823, 1073741824];
    let fracs = ["", ".", ".5", ".25", ".99999", ".999999", ".0000076", ".00001", ",5", ".12345678901234567890", ".9999999999999999999", ".5000000000000000001", ".00000762939453125"];
    let units = ["pt", "in", "pc", "cm", "mm", "bp", "dd", "cc", "sp", "em", "ex", "PT", "truept", " pt", "  pt", "true cm", "Pt"];
    for (st, neg) in signs { for int in ints { for fr in fracs { for u in units { total += 1;
        let text = format!("{st}{int}{fr}{u}");
        let src = format!("\\dimen1={text} \\the\\dimen1 ");
        let want = ref_dimen(neg, int, fr, u).map(|v| format!("{}pt", print_scaled(v)));
        let r = std::panic::catch_unwind(|| { let mut vm = new_vm(); vm.state.error_mode.set_default_terminal(Rc::new(RefCell::new(texlang_common::MockTerminalIn::default()))); run(&mut vm, &src) });
        let got = match r { Err(_) => Err("PANIC".to_string()), Ok(x) => x.map(|s| s.trim().to_string()) };
        match (&want, &got) { (Ok(w), Ok(g)) if w == g => agree += 1, (Err(()), Err(e)) if !e.contains("PANIC") => agree += 1,
            _ => { let k = format!("unit {u:?}: {}", match (&want, &got) { (_, Err(e)) if e.contains("PANIC") => "PANIC".to_string(), (Ok(_), Ok(_)) => "value differs".into(), (Err(_), Ok(_)) => "TeX: dimension too large, crate accepts".into(), (Ok(_), Err(_)) => "crate errors, TeX accepts".into(), _ => "?".into() });
                classes.entry(k).or_insert((0, format!("{text} want={want:?} got={got:?}"))).0 += 1; } }
    } } } }
    println!("C06 dimension constants: cases={total} agree={agree}");
    for (k, (n, ex)) in &classes { println!("{n:8} {k}\n      first: {}", ex.chars().take(300).collect::<String>()); }
}
// Results on the pinned tree: 9 945 constants (5 sign strings x 9 integer parts up to 2^30 x 13 fraction strings up to 20 digits x 17 unit spellings)
// through \dimen1=<c> \the\dimen1: 9 685 agree with the TeX 448-458 model (value after unit conversion, rounding of up to 17 fraction digits,
// "Dimension too large" exactly at 16384pt / 2^30sp, em/ex, upper-case units, `true` prefix, one or several spaces before the unit).
// The 260 others are one class: `true` followed by a space and then the unit ("1true cm") is rejected with an error; TeX's scan_keyword (407) skips
// leading spaces before every keyword, the crate's parse_keyword does not (D22). Several source spaces are one token, which is why "1  pt" agrees.
