// Design-time probe: C01 (group scoping histories) and C08 (checkpoint transparency) on a harness-owned state.
use std::cell::RefCell;
use std::collections::{BTreeMap, HashMap};
use std::rc::Rc;
use texlang::traits::*;
use texlang::types::CatCode;
use texlang::*;
use texlang_stdlib::*;

#[derive(Default, serde::Serialize, serde::Deserialize)]
pub struct HState {
    pub alloc: alloc::Component,
    pub codes_cat_code: codes::Component<CatCode>,
    pub codes_math_code: codes::Component<types::MathCode>,
    pub conditional: conditional::Component,
    pub end_line_char: endlinechar::Component,
    pub error_mode: errormode::Component,
    pub input: input::Component<16>,
    pub job: job::Component,
    pub prefix: prefix::Component,
    pub registers_i32: registers::Component<i32, 32768>,
    pub registers_scaled: registers::Component<common::Scaled, 32768>,
    pub registers_glue: registers::Component<common::Glue, 32768>,
    pub registers_token_list: registers::Component<Vec<token::Token>, 256>,
    pub repl: repl::Component,
    pub script: script::Component,
    pub time: time::Component,
    pub tracing_macros: tracingmacros::Component,
    #[serde(skip)]
    pub out: RefCell<Vec<String>>,
    #[serde(skip)]
    pub fs: Rc<RefCell<texlang_common::InMemoryFileSystem>>,
}
impl TexlangState for HState {
    fn cat_code(&self, c: char) -> CatCode { codes::cat_code(self, c) }
    fn end_line_char(&self) -> Option<char> { endlinechar::end_line_char(self) }
    fn post_macro_expansion_hook(token: token::Token, input: &vm::ExpansionInput<Self>, m: &texmacro::Macro, a: &[&[token::Token]], r: &[token::Token]) { tracingmacros::hook(token, input, m, a, r) }
    fn expansion_override_hook(token: token::Token, input: &mut vm::ExpansionInput<Self>, tag: Option<command::Tag>) -> texlang::prelude::Result<Option<token::Token>> { expansion::noexpand_hook(token, input, tag) }
    fn variable_assignment_scope_hook(state: &mut Self) -> texcraft_stdext::collections::groupingmap::Scope { prefix::variable_assignment_scope_hook(state) }
    fn recoverable_error_hook(&self, e: error::TracedTexError) -> Result<(), Box<dyn error::TexError>> { errormode::recoverable_error_hook(self, e) }
}
impl the::TheCompatible for HState {}
vm::implement_has_component![HState{
    alloc: alloc::Component, codes_cat_code: codes::Component<CatCode>, codes_math_code: codes::Component<types::MathCode>,
    conditional: conditional::Component, end_line_char: endlinechar::Component, error_mode: errormode::Component, input: input::Component<16>,
    job: job::Component, prefix: prefix::Component, registers_i32: registers::Component<i32, 32768>, registers_scaled: registers::Component<common::Scaled, 32768>,
    registers_glue: registers::Component<common::Glue, 32768>, registers_token_list: registers::Component<Vec<token::Token>, 256>,
    repl: repl::Component, script: script::Component, time: time::Component, tracing_macros: tracingmacros::Component,
}];
impl texlang_common::HasLogging for HState {}
impl texlang_common::HasFileSystem for HState { fn file_system(&self) -> Rc<RefCell<dyn texlang_common::FileSystem>> { self.fs.clone() } }
impl texlang_common::HasTerminalIn for HState { fn terminal_in(&self) -> Rc<RefCell<dyn texlang_common::TerminalIn>> { self.error_mode.terminal_in() } }
struct H;
fn name(input: &vm::ExecutionInput<HState>, t: token::Token) -> String { match t.value() { token::Value::CommandRef(r) => r.to_string(input.vm().cs_name_interner()), _ => "?".into() } }
impl vm::Handlers<HState> for H {
    fn character_handler(input: &mut vm::ExecutionInput<HState>, _t: token::Token, c: char) -> texlang::prelude::Result<()> { input.state().out.borrow_mut().push(c.to_string()); Ok(()) }
    fn undefined_command_handler(input: &mut vm::ExecutionInput<HState>, t: token::Token) -> texlang::prelude::Result<()> { let s = name(input, t); input.state().out.borrow_mut().push(format!("<undef {s}>")); Ok(()) }
    fn unexpanded_expansion_command(input: &mut vm::ExecutionInput<HState>, t: token::Token) -> texlang::prelude::Result<()> { let s = name(input, t); input.state().out.borrow_mut().push(s); Ok(()) }
}
fn probefont(_t: token::Token, input: &mut vm::ExecutionInput<HState>) -> texlang::prelude::Result<()> { let f = input.vm().current_font().0; input.state().out.borrow_mut().push(format!("F{f}")); Ok(()) }
fn builtins() -> HashMap<&'static str, command::BuiltIn<HState>> {
    let mut m = built_in_commands::<HState>();
    m.insert("fa", command::BuiltIn::new_font(types::Font(1)));
    m.insert("fb", command::BuiltIn::new_font(types::Font(2)));
    m.insert("probefont", command::BuiltIn::new_execution(probefont));
    m
}
fn new_vm() -> vm::VM<HState> { vm::VM::<HState>::new_with_built_in_commands(builtins()) }
fn run(vm: &mut vm::VM<HState>, src: &str) -> Result<String, String> {
    vm.state.out.borrow_mut().clear();
    vm.push_source("t.tex", src).unwrap();
    let r = vm.run::<H>().map_err(|e| e.error.title());
    let out = vm.state.out.borrow().join("");
    r.map(|_| out.clone()).map_err(|e| format!("{out} !{e}"))
}

// ---------------- C01
struct Kind { name: &'static str, setup: &'static str, assign: fn(usize) -> (String, String), probe: &'static str, initial: &'static str }
fn kinds() -> Vec<Kind> { vec![
    Kind { name: "count", setup: "", assign: |n| (format!("\\count1={n} "), n.to_string()), probe: "\\the\\count1 ", initial: "0" },
    Kind { name: "dimen", setup: "", assign: |n| (format!("\\dimen1={n}pt "), format!("{n}.0pt")), probe: "\\the\\dimen1 ", initial: "0.0pt" },
    Kind { name: "skip", setup: "", assign: |n| (format!("\\skip1={n}pt plus 1pt "), format!("{n}.0pt plus 1.0pt")), probe: "\\the\\skip1 ", initial: "0.0pt" },
    Kind { name: "toks", setup: "", assign: |n| (format!("\\toks1={{{n}}}"), n.to_string()), probe: "\\the\\toks1 ", initial: "" },
    Kind { name: "catlow", setup: "", assign: |n| (format!("\\catcode`\\|={} ", [11, 7, 8][n % 3]), [11, 7, 8][n % 3].to_string()), probe: "\\the\\catcode`\\| ", initial: "12" },
    Kind { name: "cathigh", setup: "", assign: |n| (format!("\\catcode`\\é={} ", [11, 7, 8][n % 3]), [11, 7, 8][n % 3].to_string()), probe: "\\the\\catcode`\\é ", initial: "12" },
    Kind { name: "endlinechar", setup: "", assign: |n| (format!("\\endlinechar={} ", 40 + n), (40 + n).to_string()), probe: "\\the\\endlinechar ", initial: "13" },
    Kind { name: "macro", setup: "", assign: |n| (format!("\\def\\a{{{n}}}"), n.to_string()), probe: "\\a ", initial: "<undef \\a>" },
    Kind { name: "active", setup: "", assign: |n| (format!("\\def~{{{n}}}"), n.to_string()), probe: "~", initial: "<undef ~>" },
    Kind { name: "let", setup: "\\def\\x{X}\\def\\y{Y}\\def\\z{Z}\\let\\b=\\z ", assign: |n| (format!("\\let\\b=\\{} ", ["x", "y"][n % 2]), ["X", "Y"][n % 2].to_string()), probe: "\\b ", initial: "Z" },
    Kind { name: "countdef", setup: "\\count2=22 \\count3=33 \\count4=44 \\countdef\\c=4 ", assign: |n| (format!("\\countdef\\c={} ", 2 + n % 2), ["22", "33"][n % 2].to_string()), probe: "\\the\\c ", initial: "44" },
    Kind { name: "chardef", setup: "\\chardef\\d=67 ", assign: |n| (format!("\\chardef\\d={} ", 65 + n % 2), (65 + n % 2).to_string()), probe: "\\the\\d ", initial: "67" },
    Kind { name: "font", setup: "", assign: |n| (format!("\\{} ", ["fa", "fb"][n % 2]), format!("F{}", 1 + n % 2)), probe: "\\probefont ", initial: "F0" },
    Kind { name: "advance", setup: "", assign: |n| (format!("\\advance\\count1 by {n} "), format!("+{n}")), probe: "\\the\\count1 ", initial: "0" },
] }

fn c01(maxlen: usize) {
    let mut classes: BTreeMap<String, (u64, String)> = BTreeMap::new();
    let mut total = 0u64;
    for k in kinds() {
        for len in 1..=maxlen {
            let mut idx = vec![0usize; len];
            'seq: loop {
                // ops: 0 '{', 1 '}', 2 local, 3 global
                let mut depth = 0i32; let mut valid = true;
                for &o in &idx { if o == 0 { depth += 1 } else if o == 1 { depth -= 1; if depth < 0 { valid = false; break; } } }
                if valid {
                    let mut src = String::from(k.setup); src.push_str("|"); src.push_str(k.probe);
                    let mut stack: Vec<String> = vec![k.initial.to_string()];
                    let mut want = vec![k.initial.to_string()];
                    let mut n = 0usize;
                    for &o in &idx {
                        match o { 0 => { src.push('{'); let t = stack.last().unwrap().clone(); stack.push(t); }
                            1 => { src.push('}'); stack.pop(); }
                            _ => { n += 1; let (text, val) = (k.assign)(n);
                                let val = if k.name == "advance" { let cur: i64 = stack.last().unwrap().parse().unwrap(); (cur + n as i64).to_string() } else { val };
                                if o == 3 { src.push_str("\\global"); for s in stack.iter_mut() { *s = val.clone(); } } else { *stack.last_mut().unwrap() = val.clone(); }
                                src.push_str(&text); } }
                        src.push('|'); src.push_str(k.probe); want.push(stack.last().unwrap().clone());
                    }
                    total += 1;
                    let r = std::panic::catch_unwind(|| { let mut vm = new_vm(); run(&mut vm, &src) });
                    let got = match r { Err(_) => "PANIC".to_string(), Ok(Ok(s)) => s, Ok(Err(e)) => e };
                    let got_parts: Vec<&str> = got.split('|').skip(1).collect();
                    if got_parts.len() != want.len() || got_parts.iter().zip(want.iter()).any(|(g, w)| g.trim() != w.trim()) {
                        let shape: String = idx.iter().map(|o| ['{', '}', 'L', 'G'][*o]).collect();
                        classes.entry(format!("{} mismatch", k.name)).or_insert((0, format!("ops={shape} src={src} want={want:?} got={got_parts:?}"))).0 += 1;
                    }
                }
                let mut j = len; loop { if j == 0 { break 'seq; } j -= 1; idx[j] += 1; if idx[j] < 4 { break; } idx[j] = 0; }
            }
        }
    }
    println!("C01 histories={total}");
    for (k, (n, ex)) in &classes { println!("{n:8} {k}\n      first: {}", ex.chars().take(420).collect::<String>()); }
}

// ---------------- C08
fn roundtrip(vm: &vm::VM<HState>, fmt: usize) -> Result<vm::VM<HState>, String> {
    std::panic::catch_unwind(std::panic::AssertUnwindSafe(|| match fmt {
        0 => { let s = serde_json::to_string(vm).unwrap(); let mut d = serde_json::Deserializer::from_str(&s); vm::VM::deserialize_with_built_in_commands(&mut d, builtins()).unwrap() }
        1 => { let s = rmp_serde::to_vec(vm).unwrap(); let mut d = rmp_serde::decode::Deserializer::from_read_ref(&s); vm::VM::deserialize_with_built_in_commands(&mut d, builtins()).unwrap() }
        _ => { let s = bincode::serde::encode_to_vec(vm, bincode::config::standard()).unwrap(); let d: Box<vm::serde::DeserializedVM<HState>> = bincode::serde::decode_from_slice(&s, bincode::config::standard()).unwrap().0; vm::serde::finish_deserialization(d, builtins()) }
    })).map_err(|_| "PANIC in ser/de".to_string())
}
fn c08() {
    let frags = ["\\def\\a{A1}", "\\gdef\\a{A2}", "\\catcode`\\~=13 \\def~{T1}", "\\let\\b=\\a ", "\\let\\c=\\the ", "\\let\\d=\\def ", "\\let\\e=x", "\\countdef\\f=5 \\f=55 ",
        "\\toksdef\\g=6 \\g={tk}", "\\chardef\\h=72 ", "\\mathchardef\\i=73 ", "\\count1=11 ", "\\dimen1=2pt ", "\\skip1=3pt plus 1fil ", "\\toks1={T}", "\\catcode`\\|=13 ", "\\catcode`\\é=11 ",
        "\\mathcode`\\a=5 ", "\\endlinechar=65 ", "\\globaldefs=1 ", "{", "{\\count1=12 \\def\\a{A3}", "{\\global\\count1=13 ", "}", "\\iftrue ", "\\iffalse\\else ", "\\ifcase 1 \\or ", "\\fi ", "\\newInt\\n \\n=9 ", "\\fa ", "{\\fb "];
    let observe = "|\\a|\\b|\\the\\count1|\\the\\dimen1|\\the\\skip1|\\the\\toks1|\\the\\catcode`\\||\\the\\catcode`\\é|\\the\\mathcode`\\a|\\the\\endlinechar|\\the\\globaldefs|\\the\\count5|\\the\\toks6|\\probefont|~|";
    let drain = "\\fi\\fi\\fi }|\\a|\\the\\count1|\\probefont|~|}|\\a|\\the\\count1|\\probefont|~|";
    let mut classes: BTreeMap<String, (u64, String)> = BTreeMap::new();
    let (mut total, mut same) = (0u64, 0u64);
    for f1 in frags { for f2 in frags {
        let (mut conds, mut groups, mut bad) = (0i32, 0i32, false);
        for f in [f1, f2] { if f.starts_with("\\if") { conds += 1; } if f == "\\fi " { conds -= 1; } if f.starts_with('{') { groups += 1; } if f == "}" { groups -= 1; } if conds < 0 || groups < 0 { bad = true; } }
        if bad { continue; }
        let _ = drain;
        let drain: String = format!("{}{}", "\\fi ".repeat(conds as usize), "}|\\a|\\the\\count1|\\probefont|~|".repeat(groups as usize));
        let lines = [f1.to_string(), f2.to_string(), observe.to_string(), drain.to_string()];
        let whole: String = lines.iter().map(|l| format!("{l}\n")).collect();
        let base = std::panic::catch_unwind(|| { let mut vm = new_vm(); run(&mut vm, &whole) }).unwrap_or(Err("PANIC".into()));
        for split in 1..=2usize { for fmt in 0..3usize {
            total += 1;
            let p1: String = lines[..split].iter().map(|l| format!("{l}\n")).collect();
            let p2: String = lines[split..].iter().map(|l| format!("{l}\n")).collect();
            let got = std::panic::catch_unwind(|| { let mut vm = new_vm(); let o1 = run(&mut vm, &p1); match o1 { Err(e) => Err(e), Ok(o1) => match roundtrip(&vm, fmt) { Err(e) => Err(format!("{o1} {e}")), Ok(mut vm2) => run(&mut vm2, &p2).map(|o2| format!("{o1}{o2}")).map_err(|e| format!("{o1}{e}")) } } }).unwrap_or(Err("PANIC".into()));
            if got == base { same += 1; } else {
                let key = match (&base, &got) { (_, Err(e)) if e.contains("PANIC") => "panic in ser/de or after".to_string(), (Ok(_), Ok(_)) => format!("output differs [{}]", if split == 1 { f1 } else { f2 }), (Ok(_), Err(_)) => format!("error only after checkpoint [{}]", if split == 1 { f1 } else { f2 }), _ => format!("other [{}]", if split == 1 { f1 } else { f2 }) };
                classes.entry(key).or_insert((0, format!("P1={p1:?} fmt={fmt} base={base:?} got={got:?}"))).0 += 1;
            }
        } }
    } }
    println!("C08 checkpoints={total} transparent={same}");
    for (k, (n, ex)) in &classes { println!("{n:8} {k}\n      first: {}", ex.chars().take(500).collect::<String>()); }
}

fn vm_with_files(files: &[(String, String)]) -> vm::VM<HState> {
    let mut vm = new_vm();
    let mut fs = texlang_common::InMemoryFileSystem::new(vm.working_directory.as_ref().unwrap());
    for (n, c) in files { fs.add_string_file(&format!("{n}.tex"), c); }
    vm.state.fs = Rc::new(RefCell::new(fs));
    vm.state.error_mode.set_default_terminal(Rc::new(RefCell::new(texlang_common::MockTerminalIn::default())));
    vm
}
// ---- model: tokens of passive text (letters, spaces, \input NAME) with TeX's scanner states; files are read as lines standing in place.
fn model_input(files: &HashMap<String, String>, main: &str) -> Option<String> {
    // each source: lines, line index, char index, state
    struct Src { lines: Vec<Vec<char>>, li: usize, ci: usize, st: u8 } // st 0 new, 1 mid, 2 skip
    fn mk(text: &str) -> Src { let mut lines: Vec<&str> = text.split('\n').collect(); if text.ends_with('\n') || text.is_empty() { lines.pop(); } Src { lines: lines.iter().map(|l| { let mut v: Vec<char> = l.trim_end_matches(' ').chars().collect(); v.push('\r'); v }).collect(), li: 0, ci: 0, st: 0 } }
    let mut stack = vec![mk(main)]; let mut out = String::new(); let mut guard = 0;
    // returns next token: Some(("c", ch)) char/space/par/cs
    fn next(stack: &mut Vec<Src>) -> Option<String> { loop { let s = stack.last_mut()?; if s.li >= s.lines.len() { stack.pop(); continue; } let line = &s.lines[s.li]; if s.ci >= line.len() { s.li += 1; s.ci = 0; s.st = 0; continue; }
        let ch = line[s.ci]; s.ci += 1;
        match ch { '\r' => { s.ci = line.len(); match s.st { 0 => return Some("\\par".into()), 1 => return Some(" ".into()), _ => continue } }
            ' ' => { if s.st == 1 { s.st = 2; return Some(" ".into()); } continue; }
            '\\' => { let mut name = String::new(); while s.ci < line.len() && line[s.ci].is_ascii_alphabetic() { name.push(line[s.ci]); s.ci += 1; } s.st = 2; return Some(format!("\\{name}")); }
            c => { s.st = 1; return Some(c.to_string()); } } } }
    loop { guard += 1; if guard > 5000 { return None; }
        let t = match next(&mut stack) { None => break, Some(t) => t };
        if t == "\\input" { let mut name = String::new(); loop { match next(&mut stack) { None => break, Some(x) if x == " " => break, Some(x) if x.len() == 1 => name.push_str(&x), Some(_) => return None } }
            let content = files.get(&name)?; if stack.len() > 90 { return None; }
            let mut lines: Vec<&str> = content.split('\n').collect(); if content.ends_with('\n') || content.is_empty() { lines.pop(); }
            stack.push(Src { lines: lines.iter().map(|l| { let mut v: Vec<char> = l.trim_end_matches(' ').chars().collect(); v.push('\r'); v }).collect(), li: 0, ci: 0, st: 0 }); }
        else if t == "\\par" { out.push_str("<undef \\par>"); } else { out.push_str(&t); } }
    Some(out)
}
fn c19() {
    let mut classes: BTreeMap<String, (u64, String)> = BTreeMap::new(); let (mut total, mut agree) = (0u64, 0u64);
    // ---- \input trees
    let frags = ["a", "a ", "", " b", "\\input f c", "\\input f", "x\\input g y", "\\input g"];
    let ends = ["", "\n"];
    let mut bodies: Vec<String> = vec![]; for l1 in frags { for e in ends { bodies.push(format!("{l1}{e}")); for l2 in frags { bodies.push(format!("{l1}\n{l2}{e}")); } } }
    for mainb in bodies.iter().step_by(3) { for fb in bodies.iter().step_by(2) { for gb in ["q", "q\n", "", "q\n\nr", " "] {
        if fb.contains("\\input f") || gb.contains("\\input") { continue; } // no recursion
        let files = vec![("f".to_string(), fb.clone()), ("g".to_string(), gb.to_string())];
        let fm: HashMap<String, String> = files.iter().cloned().collect();
        let want = match model_input(&fm, mainb) { None => continue, Some(w) => w };
        total += 1;
        let r = std::panic::catch_unwind(|| { let mut vm = vm_with_files(&files); run(&mut vm, mainb) });
        let got = match r { Err(_) => Err("PANIC".into()), Ok(x) => x };
        if got.as_ref().ok() == Some(&want) { agree += 1; } else { classes.entry("input: delivered text differs".into()).or_insert((0, format!("main={mainb:?} f={fb:?} g={gb:?} want={want:?} got={got:?}"))).0 += 1; }
    } } }
    println!("C19 input trees: cases={total} agree={agree}");
    // ---- \read histories on one stream, model = TeX 482-486
    let contents = ["", "a", "a\n", "a\nb", "a\nb\n", "{a\nb}", "a}b\nc", "a\n\n", " \nb"];
    let (mut rt, mut ra) = (0u64, 0u64);
    for content in contents { for nreads in 0..=4usize { rt += 1;
        // model: lines (split, final newline optional); read k: if lines left -> one balanced group of lines; after the last real line one more read yields empty line (\par); eof true after that.
        let mut lines: Vec<&str> = content.split('\n').collect(); if content.ends_with('\n') || content.is_empty() { lines.pop(); }
        let mut li = 0usize; let mut open = true; let mut want = String::new();
        let tok_line = |l: &str| -> String { let t = l.trim_end_matches(' '); let t2 = t.trim_start_matches(' '); if t2.is_empty() { "<undef \\par>".to_string() } else { format!("{t2} ") } };
        for _ in 0..nreads { if !open { want.push_str("[TERMINAL]"); break; }
            if li >= lines.len() { open = false; want.push_str("[<undef \\par>]"); } else { let mut acc = String::new(); let mut depth = 0i32; loop { let l = lines[li]; li += 1; let mut cut = None; for (i, ch) in l.char_indices() { if ch == '{' { depth += 1 } else if ch == '}' { depth -= 1; if depth < 0 { cut = Some(i); break; } } } match cut { Some(i) => { acc.push_str(&l[..i]); depth = 0; break; } None => { acc.push_str(&tok_line(l)); if depth <= 0 || li >= lines.len() { break; } } } } want.push_str(&format!("[{}]", acc.replace('{', "").replace('}', ""))); }
            want.push_str(if open { "o" } else { "c" }); }
        let mut src = String::from("\\openin 3 f "); for _ in 0..nreads { src.push_str("\\read 3 to \\x [\\x]\\ifeof 3 c\\else o\\fi "); }
        let files = vec![("f".to_string(), content.to_string())];
        let r = std::panic::catch_unwind(|| { let mut vm = vm_with_files(&files); run(&mut vm, &src) });
        let got = match r { Err(_) => "PANIC".to_string(), Ok(Ok(s)) => s.trim().to_string(), Ok(Err(e)) => e };
        let norm = |s: &str| s.replace(' ', "");
        if norm(&got) == norm(&want) { ra += 1; } else { classes.entry(format!("read: differs (file {:?})", content)).or_insert((0, format!("reads={nreads} want={want:?} got={got:?}"))).0 += 1; }
    } }
    println!("C19 read histories: cases={rt} agree={ra}");
    for (k, (n, ex)) in &classes { println!("{n:8} {k}\n      first: {}", ex.chars().take(330).collect::<String>()); }
}
fn main() {
    std::panic::set_hook(Box::new(|_| {}));
    c19();
}
// Results on the pinned tree:
//   \input trees: 10 080 cases (main and file bodies of 1-2 lines from an 8-fragment menu, with and without final newline, \input in the middle
//                 and at the end of a line, one level of nesting, files that are empty / blank / contain an empty line): the delivered text equals
//                 the "lines standing in place" model everywhere (no \endinput in this probe: its defect D14a is pinned by the crate's own tests).
//   \read       : 9 file contents x 0..4 reads. The token lists read agree with TeX 482-486 in every case; \ifeof differs in all 30 cases with
//                 at least one read of a non-empty file, always the same way: the stream is reported closed as soon as the last real line has
//                 been read, TeX reports it closed only after the appended empty line has been read (D14b).
//   NB: the first attempt hung for 30 minutes: errormode's default terminal is the process's real stdin, and \read on a closed stream
//       falls back to the terminal. The harness state must always install a scripted terminal (DESIGN 1.4).
