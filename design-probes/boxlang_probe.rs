// Design-time probe: C18 Box language print -> parse identity and format idempotence.
use boxworks::ds::{self, Horizontal as H};
use boxworks::lang;
use common::{Glue, GlueOrder, Scaled};
use std::collections::BTreeMap;
type Classes = BTreeMap<String, (u64, String)>;
fn note(c: &mut Classes, k: String, ex: String) { c.entry(k).or_insert((0, ex)).0 += 1; }
fn main() {
    std::panic::set_hook(Box::new(|_| {}));
    let sc = [0, 1, -1, 32768, -32768, 65536, 1 << 29, (1 << 30) - 1, -((1 << 30) - 1), 12345678];
    let orders = [GlueOrder::Normal, GlueOrder::Fil, GlueOrder::Fill, GlueOrder::Filll];
    let mut nodes: Vec<(String, H)> = vec![];
    for ch in ['a', ' ', '\\', '\n', 'é', '\u{10FFFF}', '#', '(', ']', '\t', '\u{0}', '\''] { for font in [0u32, 1, u32::MAX] { nodes.push((format!("char {ch:?}"), ds::Char { char: ch, font }.into())); } }
    for &w in &sc { nodes.push(("kern normal".into(), ds::Kern { width: Scaled(w), kind: ds::KernKind::Normal }.into())); }
    nodes.push(("kern explicit".into(), ds::Kern { width: Scaled(65536), kind: ds::KernKind::Explicit }.into()));
    for p in [0, 1, -1, 10000, -10000, i32::MAX, i32::MIN] { nodes.push(("penalty".into(), H::Penalty(ds::Penalty(p)))); }
    for &w in &sc { for &so in &orders { for &sho in &orders { nodes.push(("glue".into(), H::Glue(ds::Glue { kind: ds::GlueKind::Normal, value: Glue { width: Scaled(w), stretch: Scaled(w / 3), stretch_order: so, shrink: Scaled(-w / 7), shrink_order: sho } }))); } } }
    for &a in &sc[..6] { nodes.push(("rule".into(), H::Rule(ds::Rule { height: Scaled(a), width: Scaled(65536), depth: Scaled(-a) }))); }
    { let mut r = ds::Rule::new(); nodes.push(("rule running (new)".into(), H::Rule(r.clone()))); r.width = Scaled(3); nodes.push(("rule running h/d".into(), H::Rule(r))); }
    for orig in ["", "fi", "f|", "\"", "é-"] { for (l, r) in [(false, false), (true, false), (false, true), (true, true)] { nodes.push((format!("ligature orig={orig:?}"), H::Ligature(ds::Ligature { char: 'x', font: 2, original_chars: orig.into(), includes_left_boundary: l, includes_right_boundary: r }))); } }
    nodes.push(("disc empty".into(), H::Discretionary(ds::Discretionary::new())));
    nodes.push(("disc full".into(), H::Discretionary(ds::Discretionary { pre_break: vec![ds::Char { char: '-', font: 0 }.into(), ds::Kern { width: Scaled(5), kind: ds::KernKind::Normal }.into()], post_break: vec![ds::Ligature { char: 'f', font: 0, original_chars: "ff".into(), includes_left_boundary: false, includes_right_boundary: false }.into()], replace_count: 3 })));
    nodes.push(("disc replace max".into(), H::Discretionary(ds::Discretionary { pre_break: vec![], post_break: vec![], replace_count: u32::MAX })));
    for gr in [(0, 1), (1, 1), (65536, 65536), (1, 3), (-5, 7), (20001 * 65536 / 65536, 1)] { for go in orders { nodes.push(("hbox".into(), H::HBox(ds::HBox { height: Scaled(1), width: Scaled(-2), depth: Scaled(3), shift_amount: Scaled(-4), list: vec![ds::Char { char: 'q', font: 0 }.into()], glue_ratio: ds::GlueRatio { num: Scaled(gr.0), den: Scaled(gr.1) }, glue_order: go }))); } }
    nodes.push(("vbox".into(), H::VBox(ds::VBox { height: Scaled(1), width: Scaled(2), depth: Scaled(3), shift_amount: Scaled(4), list: vec![ds::Vertical::Penalty(ds::Penalty(7)), ds::Vertical::Glue(ds::Glue { kind: ds::GlueKind::Normal, value: Glue::ZERO }), ds::Vertical::Kern(ds::Kern { width: Scaled(9), kind: ds::KernKind::Normal })], glue_ratio: Default::default(), glue_order: GlueOrder::Normal })));
    nodes.push(("math before".into(), H::Math(ds::Math::Before))); nodes.push(("math after".into(), H::Math(ds::Math::After)));
    nodes.push(("mark".into(), H::Mark(ds::Mark { list: vec![] })));
    nodes.push(("adjust".into(), H::Adjust(ds::Adjust { list: vec![ds::Vertical::Penalty(ds::Penalty(1))] })));
    nodes.push(("insertion".into(), H::Insertion(ds::Insertion { box_number: 255, height: Scaled(1), split_max_depth: Scaled(2), split_top_skip: Glue { width: Scaled(3), ..Default::default() }, float_penalty: 4, vbox: vec![] })));
    let mut c = Classes::new(); let (mut total, mut ok) = (0u64, 0u64);
    let check = |list: Vec<H>, label: String, c: &mut Classes, total: &mut u64, ok: &mut u64| {
        *total += 1;
        let text = match std::panic::catch_unwind(std::panic::AssertUnwindSafe(|| list.iter().map(|h| h.to_string()).collect::<Vec<_>>().join("\n"))) { Ok(t) => t, Err(_) => { note(c, format!("PANIC printing [{label}]"), format!("{list:?}")); return; } };
        let parsed = std::panic::catch_unwind(|| lang::parse_horizontal_list(&text).map_err(|e| format!("{} errors, first {:?}", e.len(), e.first().map(|x| format!("{x:?}").chars().take(120).collect::<String>()))));
        match parsed { Err(_) => note(c, format!("PANIC parsing [{label}]"), text.replace('\n', " ")), Ok(Err(e)) => note(c, format!("printed text does not parse [{label}]"), format!("{} :: {e}", text.replace('\n', " "))),
            Ok(Ok(back)) => if back == list { *ok += 1;
                    match std::panic::catch_unwind(std::panic::AssertUnwindSafe(|| lang::format(&text).map(|f1| { let f2 = lang::format(&f1).ok(); let p = lang::parse_horizontal_list(&f1).ok().map(|l| l == back); (f2 == Some(f1.clone()), p) }).map_err(|e| e.len()))) {
                        Err(_) => note(c, format!("PANIC in format [{label}]"), text.replace('\n', " ")), Ok(Err(n)) => note(c, format!("format rejects text that parses [{label}]"), format!("{n} errors: {}", text.replace('\n', " "))),
                        Ok(Ok((idem, same))) => { if !idem { note(c, format!("format not idempotent [{label}]"), text.replace('\n', " ")); } if same != Some(true) { note(c, format!("format changes meaning [{label}]"), text.replace('\n', " ")); } } }
                } else { note(c, format!("round trip differs [{label}]"), format!("{} :: want {:?} got {:?}", text.replace('\n', " "), list, back)); } } };
    for (label, n) in &nodes { check(vec![n.clone()], label.clone(), &mut c, &mut total, &mut ok); }
    // pairs (adjacent chars merge into one chars("..") call etc.)
    for (l1, n1) in nodes.iter().step_by(3) { for (l2, n2) in nodes.iter().step_by(5) { check(vec![n1.clone(), n2.clone()], format!("{} + {}", l1.split(' ').next().unwrap(), l2.split(' ').next().unwrap()), &mut c, &mut total, &mut ok); } }
    println!("lists={total} ok={ok} classes={}", c.len());
    for (k, (n, ex)) in c.iter().take(60) { println!("{n:6} {k}\n      first: {}", ex.chars().take(260).collect::<String>()); }
}
// Results on the pinned tree: 5335 lists (every node kind at value boundaries, singly and in pairs), 5183 round-trip and format idempotently.
//   - parse_horizontal_list("penalty(-2147483648)") panics (D19; the documented integer range excludes i32::MIN, but the parser must not panic);
//   - an hbox whose glue ratio is >= 16384 prints as e.g. glue_ratio="20000.0", which the parser rejects (IncorrectType) = D20 (152 - 2 lists);
//   - kern(kind = Explicit) comes back Normal: no syntax for kern kinds, excluded by the property.
//   Characters \, newline, tab, NUL, U+10FFFF, fonts up to u32::MAX, running rule dimensions, ligature boundary flags, discretionaries,
//   insertions, marks, adjusts, math nodes all survive.
