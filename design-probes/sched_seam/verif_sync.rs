//! (draft of the guarded hook module crates/texlang/src/command/verif_sync.rs; validated in a scratch copy)
//! Seam that hands the synchronisation in this module to an external controlled scheduler.
//! Only compiled with `--cfg texcraft_verif_sched`; has no dependencies.
use std::cell::UnsafeCell;
pub trait Scheduler: Sync {
    /// Block until the lock identified by `lock` is free, then take it. A scheduling point.
    fn acquire(&self, lock: usize);
    /// Release the lock. A scheduling point.
    fn release(&self, lock: usize);
}
static SCHEDULER: std::sync::OnceLock<&'static dyn Scheduler> = std::sync::OnceLock::new();
pub fn install(s: &'static dyn Scheduler) { let _ = SCHEDULER.set(s); }
fn scheduler() -> &'static dyn Scheduler { *SCHEDULER.get().expect("no scheduler installed") }
pub struct Mutex<T> { data: UnsafeCell<T> }
unsafe impl<T: Send> Sync for Mutex<T> {}
unsafe impl<T: Send> Send for Mutex<T> {}
pub struct MutexGuard<'a, T> { m: &'a Mutex<T> }
impl<T> Mutex<T> {
    pub const fn new(t: T) -> Self { Self { data: UnsafeCell::new(t) } }
    #[allow(clippy::result_unit_err)]
    pub fn lock(&self) -> Result<MutexGuard<'_, T>, ()> {
        scheduler().acquire(self as *const _ as *const () as usize);
        Ok(MutexGuard { m: self })
    }
}
impl<T> std::ops::Deref for MutexGuard<'_, T> { type Target = T; fn deref(&self) -> &T { unsafe { &*self.m.data.get() } } }
impl<T> std::ops::DerefMut for MutexGuard<'_, T> { fn deref_mut(&mut self) -> &mut T { unsafe { &mut *self.m.data.get() } } }
impl<T> Drop for MutexGuard<'_, T> { fn drop(&mut self) { scheduler().release(self.m as *const _ as *const () as usize); } }
/// Same contract as `std::sync::OnceLock::get_or_init`: one initialiser runs, the others wait for it.
pub struct OnceLock<T> { cell: Mutex<Option<T>> }
impl<T> OnceLock<T> {
    pub const fn new() -> Self { Self { cell: Mutex::new(None) } }
    pub fn get_or_init<F: FnOnce() -> T>(&self, f: F) -> &T {
        let mut g = self.cell.lock().unwrap();
        if g.is_none() { *g = Some(f()); }
        let p: *const T = g.as_ref().unwrap();
        drop(g);
        unsafe { &*p }
    }
}
