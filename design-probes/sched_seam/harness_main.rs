// (draft of /verif/harness-sched/src/main.rs; validated in a scratch copy: 1 534 / 23 047 / 12 786 / 6 867 schedules, all < 0.2 s;
//  a seeded lost update in Tag::new fails on the first run with a replayable schedule string)
use std::collections::HashMap;
use std::sync::atomic::{AtomicUsize, Ordering};
use texlang::command::{verif_sync, StaticTag, Tag};
struct Lock { m: &'static shuttle::sync::Mutex<()>, g: Option<shuttle::sync::MutexGuard<'static, ()>> }
struct Sched { table: std::cell::UnsafeCell<HashMap<usize, Lock>> }
// shuttle runs every task of an execution on one OS thread, one at a time, so the table is never accessed concurrently.
unsafe impl Sync for Sched {}
unsafe impl Send for Sched {}
impl Sched {
    #[allow(clippy::mut_from_ref)]
    fn t(&self) -> &mut HashMap<usize, Lock> { unsafe { &mut *self.table.get() } }
    fn reset(&self) { self.t().clear(); }
}
impl verif_sync::Scheduler for Sched {
    fn acquire(&self, id: usize) {
        let m = self.t().entry(id).or_insert_with(|| Lock { m: Box::leak(Box::new(shuttle::sync::Mutex::new(()))), g: None }).m;
        let g = m.lock().unwrap();           // scheduling point; blocks while held
        self.t().get_mut(&id).unwrap().g = Some(g);
    }
    fn release(&self, id: usize) { let g = self.t().get_mut(&id).unwrap().g.take(); drop(g); }
}
static EXECS: AtomicUsize = AtomicUsize::new(0);
static SCHED: std::sync::OnceLock<Sched> = std::sync::OnceLock::new();
fn body(t: usize, n: usize, with_static: bool) {
    EXECS.fetch_add(1, Ordering::Relaxed);
    SCHED.get().unwrap().reset();
    let st = shuttle::sync::Arc::new(StaticTag::new());
    let hs: Vec<_> = (0..t).map(|_| { let st = st.clone(); shuttle::thread::spawn(move || {
        let mut v = vec![];
        for _ in 0..n { v.push(Tag::new()); }
        let s = if with_static { Some(st.get()) } else { None };
        (v, s)
    })}).collect();
    let mut all = vec![]; let mut statics = vec![];
    for h in hs { let (v, s) = h.join().unwrap(); all.extend(v); statics.extend(s); }
    assert!(statics.windows(2).all(|w| w[0] == w[1]), "static tag resolved to two values");
    if let Some(s) = statics.first() { all.push(*s); }
    let mut sorted = all.clone(); sorted.sort(); sorted.dedup();
    assert_eq!(sorted.len(), all.len(), "duplicate tags {:?}", all);
}
fn main() {
    SCHED.get_or_init(|| Sched { table: Default::default() });
    verif_sync::install(SCHED.get().unwrap());
    for (t, n, ws) in [(2, 1, true), (2, 2, true), (3, 1, false), (2, 3, false)] {
        EXECS.store(0, Ordering::Relaxed);
        let t0 = std::time::Instant::now();
        shuttle::check_dfs(move || body(t, n, ws), None);
        eprintln!("T={t} N={n} static={ws}: {} schedules in {:?}", EXECS.load(Ordering::Relaxed), t0.elapsed());
    }
}
