//! C15 — not built yet.
fn main() {
    eprintln!("c15: check not built yet");
    std::process::exit(2);
}
