//! C15 — packing a horizontal list produces TeX's box dimensions and glue setting.
//! Engine: BEX. Reference model: `reftex::kp::hpack` (tex.web §649-667, exact rationals).
//! DESIGN.md §3 C15.

mod conv;

use boxworks::ds;
use common::{GlueOrder, Scaled};
use conv::{ch, chf, disc, glue, kern, lig, ligf, pen};
use reftex::kp;
use serde_json::{json, Value};
use vcore::{catch, Acc, Ctx, Level};

const PT: i32 = 65536;
const FONT: conv::Font = conv::Font { unit: PT };
const MAX_DIMEN: i64 = (1 << 30) - 1;

// ---------------------------------------------------------------------------------- menus

fn hbox(h: i32, w: i32, d: i32, shift: i32) -> ds::Horizontal {
    ds::Horizontal::HBox(ds::HBox { height: Scaled(h), width: Scaled(w), depth: Scaled(d), shift_amount: Scaled(shift), ..Default::default() })
}
fn vbox(h: i32, w: i32, d: i32, shift: i32) -> ds::Horizontal {
    ds::Horizontal::VBox(ds::VBox { height: Scaled(h), width: Scaled(w), depth: Scaled(d), shift_amount: Scaled(shift), ..Default::default() })
}
fn rule(h: Scaled, w: i32, d: Scaled) -> ds::Horizontal {
    ds::Horizontal::Rule(ds::Rule { height: h, width: Scaled(w), depth: d })
}

/// Every node kind of the property's quantifier except glue.
fn non_glue_menu() -> Vec<ds::Horizontal> {
    vec![
        ch('a'),
        ch('b'),
        lig('f', "ff"),
        kern(2 * PT, ds::KernKind::Normal),
        kern(-2 * PT, ds::KernKind::Explicit),
        rule(Scaled(6 * PT), PT, Scaled(5 * PT / 2)),
        rule(ds::Rule::RUNNING, PT, ds::Rule::RUNNING),
        hbox(9 * PT, 2 * PT, 3 * PT, 0),
        hbox(9 * PT, 2 * PT, 3 * PT, 4 * PT),
        hbox(9 * PT, 2 * PT, 3 * PT, -4 * PT),
        vbox(2 * PT, 4 * PT, PT, 10 * PT),
        vbox(2 * PT, -3 * PT, PT, -PT),
        pen(5),
        disc("a", "b", 0),
    ]
}

/// All glue with stretch in `amounts` x 4 orders and shrink in `amounts` x 4 orders; the width
/// cycles through 0, +1pt, -1pt.
fn glue_cross(amounts: &[i32]) -> Vec<ds::Horizontal> {
    let mut v = vec![];
    let k = amounts.len() as u64 * 4;
    for s in 0..k {
        for t in 0..k {
            let w = [0, PT, -PT][((s + t) % 3) as usize];
            v.push(glue(w, amounts[(s / 4) as usize] * PT, conv::order(s % 4), amounts[(t / 4) as usize] * PT, conv::order(t % 4)));
        }
    }
    v
}
/// Glue that stretches only, shrinks only, or has the same amount and order on both sides.
fn glue_diag(amounts: &[i32], paired: bool) -> Vec<ds::Horizontal> {
    let mut v = vec![];
    let k = amounts.len() as u64 * 4;
    for s in 0..k {
        let (a, o) = (amounts[(s / 4) as usize] * PT, conv::order(s % 4));
        v.push(glue(PT, a, o, 0, GlueOrder::Normal));
        v.push(glue(0, 0, GlueOrder::Normal, a, o));
        if paired {
            v.push(glue(-PT, a, o, a, o));
        }
    }
    v
}
/// The same characters in a second font with different metrics, and in a font that lacks them.
fn other_font_glyphs() -> Vec<ds::Horizontal> {
    vec![chf('a', 1), chf('b', 1), ligf('f', "ff", 1), chf('a', 2), chf('b', 2)]
}
/// Characters and ligatures over {a, b} x {font 0, font 1, font 2 (a missing)}, interleaved with a
/// glue, a kern, a box and a penalty.
fn fonts_menu() -> Vec<ds::Horizontal> {
    use GlueOrder::*;
    vec![
        chf('a', 0),
        chf('a', 1),
        chf('a', 2),
        chf('b', 0),
        chf('b', 1),
        chf('b', 2),
        ligf('a', "aa", 0),
        ligf('a', "aa", 1),
        chf('é', 0),
        chf('é', 1),
        ligf('€', "é€", 0),
        chf('😀', 1),
        chf('😀', 0),
        // the font gives a width but no height / no depth / neither
        chf('h', 0),
        chf('d', 0),
        chf('w', 0),
        ligf('w', "ww", 0),
        glue(PT, 2 * PT, Normal, PT, Normal),
        kern(PT, ds::KernKind::Normal),
        hbox(PT, 2 * PT, PT, 0),
        pen(0),
    ]
}
/// Rules with every combination of {running, small, large} over (height, depth) – large is larger
/// than every other item of the menu, small is smaller – next to two characters, a shifted box, a
/// glue and a kern. TeX §653 does not test for running dimensions in hpack: height(p) and depth(p)
/// are used as stored, and the running value (null_flag) is simply below every maximum; so a rule
/// with one running dimension still contributes its explicit other dimension. (The width of a rule
/// is never running in an hlist, §138 – not enumerated.)
fn rules_menu() -> Vec<ds::Horizontal> {
    use GlueOrder::*;
    let dims = |k: usize, small: i32, large: i32| [ds::Rule::RUNNING, Scaled(small), Scaled(large)][k];
    let mut m = vec![];
    for h in 0..3 {
        for d in 0..3 {
            m.push(rule(dims(h, PT, 15 * PT), PT, dims(d, PT / 2, 14 * PT)));
        }
    }
    m.extend([ch('a'), ch('b'), hbox(9 * PT, 2 * PT, 3 * PT, -4 * PT), glue(PT, 2 * PT, Normal, PT, Normal), kern(PT, ds::KernKind::Normal)]);
    m
}
/// Items that change nothing (zero kern, all-zero glue, zero-width glue that can stretch, penalty 0,
/// the null box, an empty discretionary, a rule of zero size) next to a few that do.
fn noops_menu() -> Vec<ds::Horizontal> {
    use GlueOrder::*;
    vec![
        kern(0, ds::KernKind::Normal),
        kern(0, ds::KernKind::Explicit),
        glue(0, 0, Normal, 0, Normal),
        glue(0, 0, Filll, 0, Fil),
        glue(0, 2 * PT, Normal, PT, Normal),
        pen(0),
        ds::Horizontal::HBox(ds::HBox::new_null_box()),
        disc("", "", 0),
        rule(Scaled(0), 0, Scaled(0)),
        ch('a'),
        glue(PT, 2 * PT, Fil, PT, Normal),
        hbox(PT, PT, PT, PT),
        // the converse: wide, but nothing to the maxima
        rule(Scaled(0), 10 * PT, Scaled(0)),
        // every kern kind with a non-zero width
        kern(PT, ds::KernKind::Normal),
        kern(2 * PT, ds::KernKind::Explicit),
        kern(3 * PT, ds::KernKind::Accent),
        kern(-3 * PT / 2, ds::KernKind::Math),
    ]
    .into_iter()
    .chain(zero_width_tall())
    .collect()
}
/// Items that are zero in the quantity that is summed (width) and extreme in the quantities that are
/// maximised (height, depth): a strut, a zero-width rule with running height, zero-width boxes shifted
/// up and down, a zero-width glyph and a zero-width ligature.
fn zero_width_tall() -> Vec<ds::Horizontal> {
    vec![
        rule(Scaled(20 * PT), 0, Scaled(18 * PT)),
        rule(ds::Rule::RUNNING, 0, Scaled(19 * PT)),
        hbox(20 * PT, 0, 18 * PT, 3 * PT),
        vbox(20 * PT, 0, 18 * PT, -3 * PT),
        ch('|'),
        lig('|', "||"),
    ]
}
fn mixed_menu() -> Vec<ds::Horizontal> {
    use GlueOrder::*;
    let mut m = non_glue_menu();
    m.extend(other_font_glyphs());
    m.extend(zero_width_tall());
    // the two kern kinds not in the base menu (Normal and Explicit are), with non-zero width
    m.extend([kern(3 * PT, ds::KernKind::Accent), kern(-3 * PT / 2, ds::KernKind::Math)]);
    m.extend([
        glue(PT, 2 * PT, Normal, 0, Normal),
        glue(PT, 0, Normal, 2 * PT, Normal),
        glue(0, 2 * PT, Fil, 0, Normal),
        glue(0, -2 * PT, Fil, 0, Normal),
        glue(PT, 0, Fil, 0, Fill),
        glue(PT, 0, Normal, PT, Fill),
        glue(-PT, 2 * PT, Normal, 2 * PT, Normal),
        glue(0, 3 * PT, Fill, 0, Normal),
        glue(PT, PT, Normal, 0, Filll),
        glue(0, 0, Normal, -2 * PT, Normal),
    ]);
    m
}
fn boundary_menu() -> Vec<ds::Horizontal> {
    use GlueOrder::*;
    let m = MAX_DIMEN as i32;
    vec![
        ch('a'),
        kern(m, ds::KernKind::Normal),
        kern(-m, ds::KernKind::Normal),
        glue(m / 2, m, Normal, m, Normal),
        glue(-(m / 2), m, Fil, 1, Normal),
        glue(0, 1, Normal, m, Filll),
        glue(1, -m, Normal, -m, Normal),
        hbox(m, 1, m, -m),
        hbox(m, m, m, m),
        rule(Scaled(m), m, Scaled(m)),
    ]
}

// ---------------------------------------------------------------------------------- targets

#[derive(Clone, Copy, PartialEq, Eq, Debug)]
enum Target {
    Exact(i64),
    Additional(i64),
}
fn target_json(t: Target) -> Value {
    match t {
        Target::Exact(w) => json!(["exact", w]),
        Target::Additional(w) => json!(["additional", w]),
    }
}
fn target_from_json(v: &Value) -> Option<Target> {
    let w = v.get(1)?.as_i64()?;
    Some(if v.get(0)?.as_str()? == "exact" { Target::Exact(w) } else { Target::Additional(w) })
}

/// natural, natural -+ 1sp, the overfull boundary natural - shrink (-1, 0, +1 sp), natural + the
/// dominating stretch, far away on both sides; `Additional` 0 and +-1.5pt.
fn targets(p0: &kp::Packed) -> Vec<Target> {
    let n = p0.natural;
    let sn = p0.total_shrink[0];
    let so = (1..4).rev().map(|o| p0.total_shrink[o]).find(|t| *t != 0).unwrap_or(sn);
    let ts = (1..4).rev().map(|o| p0.total_stretch[o]).find(|t| *t != 0).unwrap_or(p0.total_stretch[0]);
    let a = 3 * PT as i64 / 2;
    let big = 100 * PT as i64;
    let all = [
        Target::Additional(0),
        Target::Additional(a),
        Target::Additional(-a),
        Target::Exact(n - sn - 1),
        Target::Exact(n - sn),
        Target::Exact(n - sn + 1),
        Target::Exact(n - 1),
        Target::Exact(n),
        Target::Exact(n + 1),
        Target::Exact(n + ts),
        Target::Exact(n - so),
        Target::Exact(n + big),
        Target::Exact(n - big),
    ];
    let mut out: Vec<Target> = vec![];
    for t in all {
        if !out.contains(&t) {
            out.push(t);
        }
    }
    out
}

// ---------------------------------------------------------------------------------- the check

fn sign_name(s: kp::Sign) -> &'static str {
    match s {
        kp::Sign::Normal => "unset",
        kp::Sign::Stretching => "stretching",
        kp::Sign::Shrinking => "shrinking",
    }
}

fn describe(p: &kp::Packed) -> String {
    let set = match (p.sign, p.set) {
        (kp::Sign::Normal, _) => "unset".to_string(),
        (_, kp::Set::One) => "ratio 1 (overfull: shrink by exactly the shrinkability)".to_string(),
        (_, kp::Set::Ratio { num, den }) => format!("ratio {num}/{den}"),
        (_, kp::Set::Zero) => "ratio 0".to_string(),
    };
    format!("width={} height={} depth={} order={} {} {} [natural={} stretch={:?} shrink={:?}]", p.width, p.height, p.depth, p.order, sign_name(p.sign), set, p.natural, p.total_stretch, p.total_shrink)
}

fn check_pack(idx: u64, list: &[ds::Horizontal], mlist: &[kp::Node], t: Target, font: &dyn FontDyn, acc: &mut Acc) {
    acc.eval();
    let (spec, in_domain) = match t {
        Target::Exact(w) => (kp::Pack::Exactly(w), w.abs() <= MAX_DIMEN),
        Target::Additional(a) => (kp::Pack::Additional(a), a.abs() <= MAX_DIMEN),
    };
    let want = kp::hpack(mlist, spec);
    if !in_domain || want.natural.abs() > MAX_DIMEN || want.width.abs() > MAX_DIMEN {
        acc.skipped += 1; // TeX's dimensions are bounded by max_dimen (§421)
        return;
    }
    let x = want.width - want.natural;
    let has_glue = mlist.iter().any(|n| matches!(n, kp::Node::Glue(_)));
    if x != 0 && has_glue {
        acc.nontrivial();
    }
    // collision counters, all from the case and the model
    let side = if x > 0 { Some((&want.total_stretch, true)) } else if x < 0 { Some((&want.total_shrink, false)) } else { None };
    let mut hidden_higher = false;
    if let Some((tot, stretch)) = side {
        for o in want.order + 1..4 {
            let present = mlist.iter().any(|n| matches!(n, kp::Node::Glue(g) if (if stretch { g.stretch_order } else { g.shrink_order }) == o));
            if present && tot[o] == 0 {
                hidden_higher = true;
            }
        }
        if hidden_higher && tot[want.order] != 0 {
            acc.count("higher_order_with_zero_total_above_the_setting_order");
        }
        if tot.iter().filter(|t| **t != 0).count() >= 2 {
            acc.count("several_orders_with_nonzero_total");
        }
        if tot[want.order] < 0 {
            acc.count("negative_total_at_setting_order");
        }
        if tot.iter().all(|t| *t == 0) && has_glue {
            acc.count("glue_present_but_nothing_to_set");
        }
    }
    if want.overfull {
        acc.count("overfull");
    }
    if x < 0 && want.order == 0 && want.total_shrink[0] == -x && x != 0 {
        acc.count("shrink_exactly_used_up");
    }
    let has_box = mlist.iter().any(|n| matches!(n, kp::Node::Box { .. } | kp::Node::Rule { .. }));
    if mlist.iter().any(|n| matches!(n, kp::Node::Box { h, d, shift, .. } if *shift != 0 && (h - shift == want.height && want.height > 0 || d + shift == want.depth && want.depth > 0))) {
        acc.count("shifted_box_decides_height_or_depth");
    }

    let case = || json!({"kind": "pack", "list": conv::list_json(list), "target": target_json(t), "font_unit": font.unit(), "font_route": if font.overrides_whd() { "overriding repo" } else { "default width_height_depth" }, "text": conv::render(list)});
    let pw = match t {
        Target::Exact(w) => ds::PackWidth::Exact(Scaled(w as i32)),
        Target::Additional(a) => ds::PackWidth::Additional(Scaled(a as i32)),
    };
    let got = match catch(|| font.pack(list.to_vec(), pw)) {
        Ok(b) => b,
        Err(p) => {
            let cls = format!("FAIL panic [{}]", if has_box { "list contains a box or rule (class D17)" } else { "other" });
            acc.class(&cls);
            debug_class(&cls, &|| format!("{} | {}", vcore::compact(&case(), 900), p.describe()));
            conv::witness::offer(acc, &cls, idx, || vcore::Fail { idx, case: case(), expected: describe(&want), observed: p.describe(), note: format!("{cls}: HBox::pack panicked") });
            return;
        }
    };
    let mut problems: Vec<String> = vec![];
    if got.width.0 as i64 != want.width {
        problems.push(format!("width {} != {}", got.width.0, want.width));
    }
    if got.height.0 as i64 != want.height {
        problems.push(format!("height {} != {}", got.height.0, want.height));
    }
    if got.depth.0 as i64 != want.depth {
        problems.push(format!("depth {} != {}", got.depth.0, want.depth));
    }
    // Not part of the statement (it speaks of width, height, depth, glue order and glue ratio):
    // recorded as outcome classes, never failures (AUDIT.md).
    if got.shift_amount.0 != 0 {
        acc.class("note: shift_amount of the fresh box is not 0 (TeX §649 sets 0)");
    }
    if got.list.as_slice() != list {
        acc.class("note: the list inside the box is not the list that was packed");
    }
    let dims_bad = !problems.is_empty();
    // natural width as the implementation saw it decides its own excess; judge the glue setting
    // only against the model (a wrong natural width shows up above and again here)
    let (gn, gd) = (got.glue_ratio.num.0 as i64, got.glue_ratio.den.0 as i64);
    if got.glue_order as usize != want.order {
        if want.sign == kp::Sign::Normal {
            // the glue of the box is not set: "the highest order with non-zero total" does not exist
            // on the needed side, TeX stores normal but never shows it (§186) - recorded only
            acc.class("note: glue order of an unset box differs from TeX's normal");
        } else {
            problems.push(format!("glue order {:?} != {}", got.glue_order, want.order));
        }
    }
    let mut cls = String::new();
    match (want.sign, want.set) {
        (kp::Sign::Normal, _) => {
            if gd == 0 || gn != 0 {
                problems.push(format!("glue must be unset (ratio 0), got {gn}/{gd}"));
            }
            cls.push_str(if x == 0 { "natural" } else if want.overfull { "unset overfull" } else { "unset" });
        }
        (_, kp::Set::One) => {
            if gd == 0 || gn.abs() != gd.abs() {
                problems.push(format!("overfull box: the glue shrinks by exactly its shrinkability (|ratio| = 1), got {gn}/{gd}"));
            }
            // HBox has no glue_sign; on an overfull box only the magnitude is judged (see assume)
            cls.push_str(if (gn < 0) != (gd < 0) { "overfull ratio=-1" } else { "overfull ratio=+1" });
        }
        (sign, kp::Set::Ratio { .. }) => {
            let total = if sign == kp::Sign::Stretching { want.total_stretch[want.order] } else { want.total_shrink[want.order] };
            // natural + ratio * total == width, exactly
            if gd == 0 || gn * total != x * gd {
                problems.push(format!("natural + ratio*total != width: ratio {gn}/{gd}, total {total}, excess {x}"));
            } else {
                let want_print = format!("{}", ds::GlueRatio { num: Scaled(x as i32), den: Scaled(total as i32) });
                let got_print = format!("{}", got.glue_ratio);
                if want_print != got_print {
                    // the value is exactly right; the crate's f32-based Display of another num/den
                    // pair for the same rational may round differently - recorded only
                    acc.class("note: exact ratio, but its printed form differs from the printed form of excess/total");
                }
            }
            cls.push_str(sign_name(sign));
            cls.push_str(if total < 0 { " neg-total" } else { "" });
        }
        (_, kp::Set::Zero) => unreachable!("a set sign always comes with a ratio"),
    }
    if problems.is_empty() {
        acc.class(&format!("ok {cls} order={}", want.order));
        return;
    }
    let glyphs: Vec<(char, u32)> = list.iter().filter_map(|n| if let ds::Horizontal::Char(ds::Char { char, font }) | ds::Horizontal::Ligature(ds::Ligature { char, font, .. }) = n { Some((*char, *font)) } else { None }).collect();
    let why = if glyphs.windows(2).any(|w| w[0].0 == w[1].0 && w[0].1 != w[1].1) {
        "a character is followed by the same character in another font (or one that lacks it)"
    } else if glyphs.iter().any(|(c, f)| font.metrics(*c, *f).is_none()) {
        "a character is missing from its font"
    } else if has_box {
        "list contains a box or rule (class D17)"
    } else if hidden_higher {
        "a higher glue order is present with zero total (class D13)"
    } else {
        "other"
    };
    let mut kinds: Vec<&str> = vec![];
    if dims_bad {
        kinds.push("dimensions");
    }
    if problems.iter().any(|p| p.starts_with("glue order")) {
        kinds.push("glue order");
    }
    if problems.iter().any(|p| p.starts_with("glue must be unset") || p.starts_with("natural + ratio") || p.starts_with("overfull box") || p.starts_with("printed ratio")) {
        kinds.push("glue set");
    }
    let cls = format!("FAIL {} [{why}]", kinds.join(" + "));
    acc.class(&cls);
    let observed = || format!("width={} height={} depth={} order={:?} ratio={}/{} (prints {})", got.width.0, got.height.0, got.depth.0, got.glue_order, gn, gd, got.glue_ratio);
    debug_class(&cls, &|| format!("{} | want {} | got {} | {}", vcore::compact(&case(), 900), describe(&want), observed(), problems.join("; ")));
    conv::witness::offer(acc, &cls, idx, || vcore::Fail { idx, case: case(), expected: describe(&want), observed: observed(), note: format!("{cls}: {}", problems.join("; ")) });
}

/// Triage aid: `C15_DEBUG_CLASS=<substring>` prints the first 8 cases of the matching outcome classes.
fn debug_class(cls: &str, text: &dyn Fn() -> String) {
    use std::sync::atomic::{AtomicU32, Ordering};
    static N: AtomicU32 = AtomicU32::new(0);
    if let Ok(want) = std::env::var("C15_DEBUG_CLASS") {
        if cls.contains(&want) && N.fetch_add(1, Ordering::Relaxed) < 8 {
            eprintln!("DEBUG {cls}: {}", text());
        }
    }
}

/// `HBox::pack` is generic over the font; the harness uses two fonts (lattice, cmr10 for self-validation).
trait FontDyn: Sync {
    fn pack(&self, list: Vec<ds::Horizontal>, pw: ds::PackWidth) -> ds::HBox;
    fn metrics(&self, c: char, font: u32) -> Option<(i64, i64, i64)>;
    fn unit(&self) -> i32;
    /// the repo overrides `FontRepo::width_height_depth` (route b) instead of using the default method (route a)
    fn overrides_whd(&self) -> bool {
        false
    }
}
impl FontDyn for conv::FontWhd {
    fn pack(&self, list: Vec<ds::Horizontal>, pw: ds::PackWidth) -> ds::HBox {
        ds::HBox::pack(self, list, pw)
    }
    fn metrics(&self, c: char, font: u32) -> Option<(i64, i64, i64)> {
        conv::font_fn(self.unit)(c, font)
    }
    fn unit(&self) -> i32 {
        self.unit
    }
    fn overrides_whd(&self) -> bool {
        true
    }
}
impl FontDyn for conv::Font {
    fn pack(&self, list: Vec<ds::Horizontal>, pw: ds::PackWidth) -> ds::HBox {
        ds::HBox::pack(self, list, pw)
    }
    fn metrics(&self, c: char, font: u32) -> Option<(i64, i64, i64)> {
        conv::font_fn(self.unit)(c, font)
    }
    fn unit(&self) -> i32 {
        self.unit
    }
}

fn check_list(list_idx: u64, list: &[ds::Horizontal], font: &dyn FontDyn, acc: &mut Acc) {
    let mlist = match conv::to_model_drop_missing(list, &|c, f| font.metrics(c, f)) {
        Ok(m) => m,
        Err(_) => {
            acc.skipped += 1;
            return;
        }
    };
    // TeX adds widths and glue totals in 32-bit integers without any check (§651-656); a list on
    // which one of those running sums leaves the integer range is outside TeX's own domain
    let (mut x, mut ts, mut tk) = (0i64, [0i64; 4], [0i64; 4]);
    for n in &mlist {
        match n {
            kp::Node::Char { w, .. } | kp::Node::Box { w, .. } | kp::Node::Rule { w, .. } | kp::Node::Kern { w, .. } | kp::Node::Math { w, .. } => x += w,
            kp::Node::Glue(g) => {
                x += g.w;
                ts[g.stretch_order] += g.stretch;
                tk[g.shrink_order] += g.shrink;
            }
            _ => {}
        }
        if x.abs() > reftex::arith::INFINITY || ts.iter().chain(tk.iter()).any(|t| t.abs() > reftex::arith::INFINITY) {
            acc.skipped += 1;
            return;
        }
    }
    // glyph collisions: the same character again in another font with no other character in
    // between (whatever else is in between), and characters missing from their font
    let mut last: Option<(char, u32, bool)> = None;
    let (mut refont, mut missing, mut missing_after_present) = (false, false, false);
    let mut partial = false;
    for n in list {
        if let ds::Horizontal::Char(ds::Char { char, font }) | ds::Horizontal::Ligature(ds::Ligature { char, font, .. }) = n {
            let present = FONT.metrics(*char, *font).is_some();
            if matches!(conv::metrics_opt(*char, *font), Some((_, h, d)) if h.is_none() || d.is_none()) {
                partial = true;
            }
            missing |= !present;
            if let Some((c, f, p)) = last {
                if c == *char && f != *font {
                    refont |= present && p;
                    missing_after_present |= !present && p;
                }
            }
            last = Some((*char, *font, present));
        }
    }
    let ntargets_hint = 1;
    if partial {
        acc.count(if font.overrides_whd() { "glyph_with_width_but_no_height_or_depth_via_overriding_repo" } else { "glyph_with_width_but_no_height_or_depth_via_default_method" });
    }
    if refont {
        acc.count_n("same_character_repeated_in_another_font", ntargets_hint);
    }
    if missing {
        acc.count_n("character_missing_from_its_font", ntargets_hint);
    }
    if missing_after_present {
        acc.count_n("missing_character_right_after_the_same_character_in_a_font_that_has_it", ntargets_hint);
    }
    let zero_item = |n: &kp::Node| match n {
        kp::Node::Kern { w, .. } => *w == 0,
        kp::Node::Glue(g) => g.w == 0 && g.stretch == 0 && g.shrink == 0,
        kp::Node::Box { w, h, d, shift } => *w == 0 && *h == 0 && *d == 0 && *shift == 0,
        kp::Node::Rule { w, h, d } => *w == 0 && *h == 0 && *d == 0,
        kp::Node::Penalty(_) | kp::Node::Disc { .. } => true,
        _ => false,
    };
    // zero in the summed quantity, extreme in a maximised one
    let contrib = |n: &kp::Node| -> Option<(i64, i64, i64)> {
        match n {
            kp::Node::Char { w, h, d } | kp::Node::Rule { w, h, d } => Some((*w, *h, *d)),
            kp::Node::Box { w, h, d, shift } => Some((*w, h - shift, d + shift)),
            _ => None,
        }
    };
    let (mut hz, mut dz, mut ho, mut dn) = (0i64, 0i64, 0i64, 0i64);
    for c in mlist.iter().filter_map(contrib) {
        if c.0 == 0 {
            hz = hz.max(c.1);
            dz = dz.max(c.2);
        } else {
            ho = ho.max(c.1);
            dn = dn.max(c.2);
        }
    }
    if hz > ho || dz > dn {
        acc.count("zero_width_item_is_the_tallest_or_deepest");
    }
    if !mlist.is_empty() && mlist.iter().all(zero_item) {
        acc.count("list_of_items_that_change_nothing");
    }
    if mlist.iter().any(zero_item) && !mlist.iter().all(zero_item) {
        acc.count("zero_valued_item_among_others");
    }
    if list.iter().any(|n| matches!(n, ds::Horizontal::Char(ds::Char { char, .. }) | ds::Horizontal::Ligature(ds::Ligature { char, .. }) if char.len_utf8() >= 2)) {
        acc.count("non_ascii_glyph_in_list");
    }
    for k in [ds::KernKind::Normal, ds::KernKind::Explicit, ds::KernKind::Accent, ds::KernKind::Math] {
        if list.iter().any(|n| matches!(n, ds::Horizontal::Kern(kn) if kn.kind == k && kn.width.0 != 0)) {
            acc.count(match k {
                ds::KernKind::Normal => "kern_of_each_kind_in_list: normal",
                ds::KernKind::Explicit => "kern_of_each_kind_in_list: explicit",
                ds::KernKind::Accent => "kern_of_each_kind_in_list: accent",
                ds::KernKind::Math => "kern_of_each_kind_in_list: math",
            });
        }
    }
    let p0 = kp::hpack(&mlist, kp::Pack::Additional(0));
    // a rule with exactly one running dimension whose explicit other dimension is the box's maximum
    if mlist.iter().any(|n| matches!(n, kp::Node::Rule { h, d, .. } if (*h == kp::NULL_FLAG) != (*d == kp::NULL_FLAG) && ((*h == p0.height && *h > 0) || (*d == p0.depth && *d > 0)))) {
        acc.count("half_running_rule_decides_height_or_depth");
    }
    for (k, t) in targets(&p0).into_iter().enumerate() {
        check_pack(list_idx * 16 + k as u64, list, &mlist, t, font, acc);
    }
    if list_idx % 50021 == 11 {
        acc.sample(list_idx, || json!({"list": conv::render(list), "natural_pack": describe(&p0)}));
    }
}

// ---------------------------------------------------------------------------------- self-validation

/// Binds `kp::hpack` (and the model's TFM reader) to TeX: every line of the repository's
/// TeX-produced paragraphs (boxworks-knuthplass/testdata/*_want.txt, generated by real TeX with
/// cmr10, see the README there) is re-packed by the *model* to the recorded width; height, depth,
/// glue order and the printed glue ratio must be the recorded ones.
fn self_validate(ctx: &mut Ctx) -> u64 {
    let repo = std::env::var("VERIF_REPO").unwrap_or_else(|_| "/repo".into());
    let tfm = match std::fs::read(format!("{repo}/crates/tfm/corpus/computer-modern/cmr10.tfm")) {
        Ok(b) => b,
        Err(e) => {
            ctx.machinery_error(format!("self-validation: cannot read cmr10.tfm: {e}"));
            return 0;
        }
    };
    let Some(metrics) = kp::tfm_metrics(&tfm) else {
        ctx.machinery_error("self-validation: the model's TFM reader rejects cmr10.tfm");
        return 0;
    };
    // cmr10: 'a' is 5.00002pt wide, 4.30554pt high (The TeXbook, and tex.rs: \hbox(4.30554+0.0))
    if metrics.get(&b'a') != Some(&(327681, 282168, 0)) {
        ctx.machinery_error(format!("self-validation: cmr10 'a' metrics {:?}", metrics.get(&b'a')));
    }
    let mut lines = 0u64;
    // tests wolf_hall_3in, wolf_hall_1in (overfull lines), farewell_to_arms_looseness_plus_1, wolf_hall_ragged_right (rightskip stretch), alice_paragraph_2_10in
    for name in ["wolf_hall_3in_want.txt", "wolf_hall_1in_want.txt", "farewell_to_arms_looseness_plus_1_want.txt", "wolf_hall_ragged_right.txt", "alice_paragraph_2_want.txt", "wolf_hall_left_skip_want.txt"] {
        let path = format!("{repo}/crates/boxworks-knuthplass/testdata/{name}");
        let src = match std::fs::read_to_string(&path) {
            Ok(s) => s,
            Err(e) => {
                ctx.machinery_error(format!("self-validation: cannot read {path}: {e}"));
                continue;
            }
        };
        let parsed = match boxworks::lang::parse_horizontal_list(&src) {
            Ok(p) => p,
            Err(_) => {
                ctx.machinery_error(format!("self-validation: cannot parse {path}"));
                continue;
            }
        };
        for top in &parsed {
            let ds::Horizontal::VBox(v) = top else { continue };
            for item in &v.list {
                let ds::Vertical::HBox(line) = item else { continue };
                let ml = match conv::to_model(&line.list, &|c, _f| metrics.get(&(c as u32 as u8)).copied()) {
                    Ok(m) => m,
                    Err(e) => {
                        ctx.machinery_error(format!("self-validation {name}: {e}"));
                        continue;
                    }
                };
                let p = kp::hpack(&ml, kp::Pack::Exactly(line.width.0 as i64));
                lines += 1;
                let mut bad = vec![];
                if p.height != line.height.0 as i64 || p.depth != line.depth.0 as i64 {
                    bad.push(format!("height/depth {}/{} recorded {}/{}", p.height, p.depth, line.height.0, line.depth.0));
                }
                // TeX prints print_glue(round(unity*g)); the recorded text was parsed to num/2^16
                let rec = (line.glue_ratio.num.0 as i64).abs();
                let model_ratio_scaled = match (p.sign, p.set) {
                    (kp::Sign::Normal, _) => 0.0,
                    (_, kp::Set::One) => 65536.0,
                    (_, kp::Set::Ratio { num, den }) => (num as f64 / den as f64).abs() * 65536.0,
                    (_, kp::Set::Zero) => 0.0,
                };
                if line.glue_ratio.den.0 != 65536 || (model_ratio_scaled - rec as f64).abs() > 1.0 {
                    bad.push(format!("glue set {} (x 2^16) recorded {}", model_ratio_scaled, rec));
                }
                // §186 prints the order only together with a non-zero glue set
                if rec != 0 && p.order != line.glue_order as usize {
                    bad.push(format!("order {} recorded {:?}", p.order, line.glue_order));
                }
                if !bad.is_empty() {
                    ctx.machinery_error(format!("self-validation {name} line {lines}: model hpack disagrees with TeX's recorded box: {}", bad.join("; ")));
                }
            }
        }
    }
    if lines < 50 {
        ctx.machinery_error(format!("self-validation replayed only {lines} recorded lines"));
    }
    lines
}

// ---------------------------------------------------------------------------------- main

fn seq_family(ctx: &mut Ctx, family_no: u64, name: &str, what: &str, menu: &(dyn Fn() -> Vec<ds::Horizontal> + Sync), min_len: u32, max_len: u32) {
    seq_family_font(ctx, family_no, name, what, menu, min_len, max_len, &FONT)
}
#[allow(clippy::too_many_arguments)]
fn seq_family_font(ctx: &mut Ctx, family_no: u64, name: &str, what: &str, menu: &(dyn Fn() -> Vec<ds::Horizontal> + Sync), min_len: u32, max_len: u32, font: &dyn FontDyn) {
    let k = menu().len() as u64;
    let below: u64 = if min_len == 0 { 0 } else { vcore::strings_upto(k, min_len - 1) };
    let n = vcore::strings_upto(k, max_len) - below;
    // ds::Horizontal holds Rc's and is not Sync: every range of the index space rebuilds the menu
    conv::witness::run_family(ctx, family_no, name, &format!("every list of {min_len}..={max_len} nodes over {what} ({k} items); per list: Additional(0, +-1.5pt), Exact(natural-shrink-1sp, -shrink, -shrink+1sp, natural-1sp, natural, natural+1sp, natural+stretch, natural-+100pt)"), n, |r, acc| {
        let menu = menu();
        for i in r {
            let list: Vec<ds::Horizontal> = vcore::nth_string(k, i + below).into_iter().map(|j| menu[j as usize].clone()).collect();
            check_list(i, &list, font, acc);
        }
    });
}

fn main() {
    let mut ctx = Ctx::new("C15", Level::Exploration);
    ctx.assume("domain: characters, ligatures, kerns, rules, hboxes/vboxes with shifts, penalties, discretionaries, glue; marks, inserts, adjusts, math nodes, whatsits and leaders are outside the property's quantifier (the code has todo!() there)");
    ctx.assume("the harness fonts are driven through two FontRepo implementations: one that implements only width/height/depth (so HBox::pack goes through the trait's default width_height_depth) and one that overrides it; a glyph with a width but no height or depth counts with 0 there (the crate's documented default); metrics are looked up per (font, character) (§654); a character node whose font lacks the character contributes nothing (TeX never builds such a node: new_character §582 returns null; the crate's pack passes over it); all dimensions, the natural width and the target are within TeX's max_dimen (2^30-1 sp); every running sum of widths and of per-order stretch/shrink stays inside TeX's 32-bit integers (TeX adds them unchecked, §651-656)");
    ctx.assume("ds::HBox has no glue_sign field: the sign is carried by glue_ratio.num/den (negative = shrinking, the way boxworks::tex::parse_glue_set builds it) and is judged through the exact identity natural + ratio*total(order) = width on every box whose glue is set and which TeX would not report as overfull; on an overfull box (TeX: glue_set 1.0, sign shrinking) only |ratio| = 1 is required, because the crate's own equality and box language are sign-blind (the sign observed there is recorded as an outcome class)");
    ctx.assume("the printed form of a ratio is compared through the crate's own Display (f32 based, TeX §186 uses a float as well); the exact rational identity is what decides");
    ctx.assume("a running rule dimension is ds::Rule::RUNNING (-2^31) in the crate and null_flag (-2^30) in TeX; the conversion maps one to the other. hpack (§653) does not test for running dimensions: the stored values enter the maxima, a running one is below every maximum, an explicit one counts even when the other is running. The width of a rule is never running in an hlist (§138): not enumerated");

    if let Some((_fam, case)) = ctx.replay_case() {
        let mut acc = Acc::default();
        let (Some(list), Some(t)) = (conv::list_from_json(&case["list"]), target_from_json(&case["target"])) else {
            eprintln!("replay: cannot decode the case");
            std::process::exit(2);
        };
        match conv::to_model_drop_missing(&list, &|c, f| FONT.metrics(c, f)) {
            Ok(ml) => {
                if case["font_route"] == "overriding repo" {
                    check_pack(0, &list, &ml, t, &conv::FontWhd { unit: PT }, &mut acc)
                } else {
                    check_pack(0, &list, &ml, t, &FONT, &mut acc)
                }
            }
            Err(e) => {
                eprintln!("replay: {e}");
                std::process::exit(2);
            }
        }
        conv::witness::collect(&mut acc, 0);
        ctx.finish_replay(acc);
    }

    let validated = self_validate(&mut ctx);
    ctx.extra("model_self_validation", json!({"tex_recorded_lines_repacked_by_the_model": validated, "source": "crates/boxworks-knuthplass/testdata/*_want.txt (real TeX, cmr10)"}));

    let quick = ctx.quick();
    // F1: every node kind mixed with representative glue
    seq_family(&mut ctx, 0, "nodes-mixed", "the node menu: 2 chars, ligature (font 0), the same three in font 1 with other metrics, a and b in font 2 (a missing there), six zero-width items taller and deeper than everything else (strut, running-height rule, two shifted boxes, glyph, ligature), +-kern, fixed and running rule, hbox shift 0/+/-, vbox shift +/- (one with negative width), penalty, discretionary, 10 glues (finite, fil, fill, filll, zero amount at a high order, negative)", &mixed_menu, 0, if quick { 4 } else { 5 });
    // F2: glue combinations, full cross of stretch x shrink
    if quick {
        seq_family(&mut ctx, 1, "glue-cross", "all glue with stretch in {0,+2pt,-2pt} x {normal,fil,fill,filll} and shrink in the same 12 values (144 glues, width cycling 0/+1pt/-1pt)", &|| glue_cross(&[0, 2, -2]), 1, 3);
    } else {
        seq_family(&mut ctx, 1, "glue-cross", "all glue with stretch in {0,+2pt,-2pt,+3pt} x {normal,fil,fill,filll} and shrink in the same 16 values (256 glues, width cycling 0/+1pt/-1pt)", &|| glue_cross(&[0, 2, -2, 3]), 1, 3);
    }
    // F3: longer glue lists over stretch-only / shrink-only / paired glue
    seq_family(&mut ctx, 2, "glue-diag-4", "glue that only stretches, only shrinks, or does both with one amount and order; amounts {0,+2pt,-2pt} x 4 orders (36 glues)", &|| glue_diag(&[0, 2, -2], true), 4, 4);
    seq_family(&mut ctx, 3, "glue-diag-deep", "glue that only stretches or only shrinks; amounts {0,+2pt,-2pt,+3pt} x 4 orders (32 glues)", &|| glue_diag(&[0, 2, -2, 3], false), if quick { 4 } else { 5 }, if quick { 4 } else { 5 });
    // F3b: the same character in several fonts
    seq_family(&mut ctx, 5, "fonts", "characters and ligatures over {a,b} x {font 0, font 1 (other metrics), font 2 (a missing)}, non-ASCII glyphs (e-acute in two fonts, a euro ligature, an emoji present in font 1 and missing in font 0), interleaved with a glue, a kern, a box and a penalty", &fonts_menu, 1, if quick { 4 } else { 5 });
    // the same lists through a FontRepo that overrides width_height_depth (the families above use the trait's default method)
    seq_family_font(&mut ctx, 8, "fonts-overriding-repo", "characters and ligatures over {a,b} x {font 0, font 1 (other metrics), font 2 (a missing)}, non-ASCII glyphs (e-acute in two fonts, a euro ligature, an emoji present in font 1 and missing in font 0), interleaved with a glue, a kern, a box and a penalty", &fonts_menu, 1, if quick { 4 } else { 5 }, &conv::FontWhd { unit: PT });
    // F3c: rules with running dimensions
    seq_family(&mut ctx, 6, "rules", "rules with height and depth each running, small (1pt / 0.5pt) or large (15pt / 14pt, above every other item), two characters, a shifted box, a glue, a kern", &rules_menu, 1, if quick { 5 } else { 6 });
    // F3d: items that change nothing
    seq_family(&mut ctx, 7, "noops", "zero kerns, all-zero glue (also with infinite orders), zero-width stretchable glue, penalty 0, the null box, an empty discretionary, a zero rule, next to a character, a fil glue and a shifted box; zero-width items that are the tallest/deepest (strut, zero-width rule with running height, zero-width boxes shifted up and down, zero-width glyph and ligature) and a wide rule of no height", &noops_menu, 0, if quick { 4 } else { 5 });
    // F4: dimensions at max_dimen
    seq_family(&mut ctx, 4, "max-dimen", "kerns, glue, boxes and rules with dimensions +-(2^30-1) (cases whose natural width or target leaves max_dimen are skipped)", &boundary_menu, 1, 3);

    ctx.require("higher_order_with_zero_total_above_the_setting_order", "a glue order above the one TeX sets is present in the list with zero or cancelling total (the D13 situation)");
    ctx.require("several_orders_with_nonzero_total", "two or more orders have a non-zero total on the side that is set");
    ctx.require("negative_total_at_setting_order", "the total that sets the glue is negative");
    ctx.require("glue_present_but_nothing_to_set", "the list has glue but every total on the needed side is zero (box left unset)");
    ctx.require("same_character_repeated_in_another_font", "lists in which a character is followed (with anything but another character in between) by the same character in a font with different metrics");
    ctx.require("character_missing_from_its_font", "lists with a character node whose font lacks the character (FontRepo returns None)");
    ctx.require("missing_character_right_after_the_same_character_in_a_font_that_has_it", "the missing character directly follows (among characters) the same character in a font that has it");
    ctx.require("half_running_rule_decides_height_or_depth", "a rule with exactly one of height/depth running determines the box's height or depth through its explicit other dimension");
    ctx.require("list_of_items_that_change_nothing", "a non-empty list made only of zero kerns, all-zero glue, penalties, null boxes, empty discretionaries, zero rules");
    ctx.require("zero_valued_item_among_others", "a zero-valued item next to items that count");
    ctx.require("non_ascii_glyph_in_list", "a character or ligature whose character needs 2, 3 or 4 bytes in UTF-8");
    ctx.require("zero_width_item_is_the_tallest_or_deepest", "an item of width 0 (rule, box, glyph, ligature) determines the height or depth of the box");
    ctx.require("glyph_with_width_but_no_height_or_depth_via_default_method", "a glyph for which the FontRepo returns Some(width) and None for height or depth, packed through the trait's default width_height_depth");
    ctx.require("glyph_with_width_but_no_height_or_depth_via_overriding_repo", "the same through a FontRepo that overrides width_height_depth");
    for k in ["normal", "explicit", "accent", "math"] {
        let name: &'static str = match k {
            "normal" => "kern_of_each_kind_in_list: normal",
            "explicit" => "kern_of_each_kind_in_list: explicit",
            "accent" => "kern_of_each_kind_in_list: accent",
            _ => "kern_of_each_kind_in_list: math",
        };
        ctx.require(name, "a kern of this kind with a non-zero width is in the list");
    }
    ctx.require("overfull", "TeX would call the box overfull");
    ctx.require("shrink_exactly_used_up", "the target equals natural width minus the finite shrinkability (ratio exactly 1, not overfull)");
    ctx.require("shifted_box_decides_height_or_depth", "a shifted box determines the height or depth of the result");
    ctx.finish("one evaluation = one HBox::pack call compared field by field with reftex::kp::hpack (dimensions, glue order, exact rational glue set, printed ratio); non-trivial = the target differs from the natural width and the list contains glue");
}
