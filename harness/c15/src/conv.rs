//! Shared by c15 and c04 (`#[path]` include): the harness font, conversion of repository list
//! nodes to the reference model's nodes, and a self-contained JSON form of a list for replay files.

use boxworks::ds;
#[allow(unused_imports)]
use boxworks::FontRepo as _;
use common::{Glue, GlueOrder, Scaled};
use reftex::kp;
use serde_json::{json, Value};

/// Harness `FontRepo`: three fonts whose (width, height, depth) are small multiples of `unit`.
/// Font 0 and font 1 give *different* metrics to the same characters; font 2 has only `b`
/// (`a`, `f`, ... are missing there: the lookup returns None).
#[derive(Clone, Copy)]
pub struct Font {
    pub unit: i32,
}
/// Width, and height / depth where the font gives them, in units. Font 0 has three glyphs for which a
/// `FontRepo` gives a width but no height (`h`), no depth (`d`) or neither (`w`).
pub fn metrics_opt(c: char, font: u32) -> Option<(i32, Option<i32>, Option<i32>)> {
    let full = |w, h, d| Some((w, Some(h), Some(d)));
    match (font, c) {
        (0, 'a') => full(5, 7, 1),
        (0, 'b') => full(3, 4, 2),
        (0, 'c') => full(2, 3, 0),
        (0, '-') => full(1, 2, 0),
        (0, 'f') => full(6, 8, 0),
        (1, 'a') => full(7, 9, 3),
        (1, 'b') => full(2, 5, 0),
        (1, 'f') => full(8, 3, 4),
        (2, 'b') => full(4, 2, 5),
        // a glyph of width 0 that is taller and deeper than anything else in the menus
        (0, '|') => full(0, 16, 15),
        // non-ASCII glyphs: 2-, 3- and 4-byte characters
        (0, 'é') => full(4, 6, 0),
        (1, 'é') => full(5, 5, 1),
        (0, '€') => full(6, 7, 1),
        (1, '😀') => full(9, 8, 2),
        // width, but no height / no depth / neither
        (0, 'h') => Some((4, None, Some(11))),
        (0, 'd') => Some((4, Some(12), None)),
        (0, 'w') => Some((6, None, None)),
        _ => None,
    }
}
/// What TeX's box arithmetic sees: a missing height or depth is zero (the crate's documented default
/// in `FontRepo::width_height_depth`); a glyph without a width does not exist.
pub fn metrics_units(c: char, font: u32) -> Option<(i32, i32, i32)> {
    metrics_opt(c, font).map(|(w, h, d)| (w, h.unwrap_or(0), d.unwrap_or(0)))
}
/// Route (a): implements only `width`, `height`, `depth`; `width_height_depth` is the trait's
/// default method, and `height` / `depth` really return `None` where the font has none.
impl boxworks::FontRepo for Font {
    fn width(&self, c: char, f: u32) -> Option<Scaled> {
        metrics_opt(c, f).map(|m| Scaled(m.0 * self.unit))
    }
    fn height(&self, c: char, f: u32) -> Option<Scaled> {
        metrics_opt(c, f).and_then(|m| m.1).map(|h| Scaled(h * self.unit))
    }
    fn depth(&self, c: char, f: u32) -> Option<Scaled> {
        metrics_opt(c, f).and_then(|m| m.2).map(|d| Scaled(d * self.unit))
    }
}
/// Route (b): the same fonts through a repo that overrides `width_height_depth`.
#[derive(Clone, Copy)]
pub struct FontWhd {
    pub unit: i32,
}
impl boxworks::FontRepo for FontWhd {
    fn width(&self, c: char, f: u32) -> Option<Scaled> {
        Font { unit: self.unit }.width(c, f)
    }
    fn height(&self, c: char, f: u32) -> Option<Scaled> {
        Font { unit: self.unit }.height(c, f)
    }
    fn depth(&self, c: char, f: u32) -> Option<Scaled> {
        Font { unit: self.unit }.depth(c, f)
    }
    fn width_height_depth(&self, c: char, f: u32) -> Option<[Scaled; 3]> {
        metrics_units(c, f).map(|m| [Scaled(m.0 * self.unit), Scaled(m.1 * self.unit), Scaled(m.2 * self.unit)])
    }
}

/// Font metrics read from a TFM file by the model's own reader (self-validation only).
#[allow(dead_code)]
pub struct TfmFont(pub std::collections::BTreeMap<u8, (i64, i64, i64)>);
impl boxworks::FontRepo for TfmFont {
    fn width(&self, c: char, _f: u32) -> Option<Scaled> {
        self.0.get(&(c as u32 as u8)).filter(|_| (c as u32) < 256).map(|m| Scaled(m.0 as i32))
    }
    fn height(&self, c: char, _f: u32) -> Option<Scaled> {
        self.0.get(&(c as u32 as u8)).filter(|_| (c as u32) < 256).map(|m| Scaled(m.1 as i32))
    }
    fn depth(&self, c: char, _f: u32) -> Option<Scaled> {
        self.0.get(&(c as u32 as u8)).filter(|_| (c as u32) < 256).map(|m| Scaled(m.2 as i32))
    }
}

pub fn glue_spec(g: &Glue) -> kp::GlueSpec {
    kp::GlueSpec { w: g.width.0 as i64, stretch: g.stretch.0 as i64, stretch_order: g.stretch_order as usize, shrink: g.shrink.0 as i64, shrink_order: g.shrink_order as usize }
}

fn dim(x: Scaled) -> i64 {
    // the crate's running-dimension sentinel is -2^31, TeX's null_flag is -2^30
    if x == ds::Rule::RUNNING {
        kp::NULL_FLAG
    } else {
        x.0 as i64
    }
}

fn disc_elem(e: &ds::DiscretionaryElem, fr: &dyn Fn(char, u32) -> Option<(i64, i64, i64)>) -> Result<kp::Node, String> {
    to_node(&ds::Horizontal::from(e.clone()), fr)
}

pub fn to_node(n: &ds::Horizontal, fr: &dyn Fn(char, u32) -> Option<(i64, i64, i64)>) -> Result<kp::Node, String> {
    use ds::Horizontal as H;
    Ok(match n {
        // §654: the metrics are those of (font, character)
        H::Char(ds::Char { char, font }) | H::Ligature(ds::Ligature { char, font, .. }) => {
            let (w, h, d) = fr(*char, *font).ok_or_else(|| format!("character {char:?} is not in font {font}"))?;
            kp::Node::Char { w, h, d }
        }
        H::HBox(b) => kp::Node::Box { w: b.width.0 as i64, h: b.height.0 as i64, d: b.depth.0 as i64, shift: b.shift_amount.0 as i64 },
        H::VBox(b) => kp::Node::Box { w: b.width.0 as i64, h: b.height.0 as i64, d: b.depth.0 as i64, shift: b.shift_amount.0 as i64 },
        H::Rule(r) => kp::Node::Rule { w: dim(r.width), h: dim(r.height), d: dim(r.depth) },
        H::Kern(k) => kp::Node::Kern { w: k.width.0 as i64, explicit: k.kind == ds::KernKind::Explicit },
        // ds::Math carries no width yet (TODO in the crate): width 0
        H::Math(m) => kp::Node::Math { w: 0, after: *m == ds::Math::After },
        H::Glue(g) => kp::Node::Glue(glue_spec(&g.value)),
        H::Penalty(p) => kp::Node::Penalty(p.0 as i64),
        H::Discretionary(d) => kp::Node::Disc {
            pre: d.pre_break.iter().map(|e| disc_elem(e, fr)).collect::<Result<_, _>>()?,
            post: d.post_break.iter().map(|e| disc_elem(e, fr)).collect::<Result<_, _>>()?,
            replace: d.replace_count as usize,
        },
        H::Mark(_) | H::Insertion(_) | H::Adjust(_) | H::Whatsit(_) => return Err("node kind outside the property's quantifier".into()),
    })
}

pub fn to_model(list: &[ds::Horizontal], fr: &dyn Fn(char, u32) -> Option<(i64, i64, i64)>) -> Result<Vec<kp::Node>, String> {
    list.iter().map(|n| to_node(n, fr)).collect()
}

/// The same, except that a character (or ligature) node whose character is missing from its font is
/// left out: TeX never builds such a node (`new_character` §582 returns null), the crate's `pack`
/// passes over it.
pub fn to_model_drop_missing(list: &[ds::Horizontal], fr: &dyn Fn(char, u32) -> Option<(i64, i64, i64)>) -> Result<Vec<kp::Node>, String> {
    list.iter()
        .filter(|n| match n {
            ds::Horizontal::Char(ds::Char { char, font }) | ds::Horizontal::Ligature(ds::Ligature { char, font, .. }) => fr(*char, *font).is_some(),
            _ => true,
        })
        .map(|n| to_node(n, fr))
        .collect()
}

pub fn font_fn(unit: i32) -> impl Fn(char, u32) -> Option<(i64, i64, i64)> {
    move |c, f| metrics_units(c, f).map(|m| ((m.0 * unit) as i64, (m.1 * unit) as i64, (m.2 * unit) as i64))
}

// ---------------------------------------------------------------------------- constructors

pub fn ch(c: char) -> ds::Horizontal {
    ds::Char { char: c, font: 0 }.into()
}
pub fn chf(c: char, font: u32) -> ds::Horizontal {
    ds::Char { char: c, font }.into()
}
pub fn ligf(c: char, orig: &str, font: u32) -> ds::Horizontal {
    ds::Ligature { char: c, font, original_chars: orig.into(), includes_left_boundary: false, includes_right_boundary: false }.into()
}
pub fn lig(c: char, orig: &str) -> ds::Horizontal {
    ds::Ligature { char: c, font: 0, original_chars: orig.into(), includes_left_boundary: false, includes_right_boundary: false }.into()
}
pub fn kern(w: i32, kind: ds::KernKind) -> ds::Horizontal {
    ds::Kern { width: Scaled(w), kind }.into()
}
pub fn pen(p: i32) -> ds::Horizontal {
    ds::Horizontal::Penalty(ds::Penalty(p))
}
pub fn glue(w: i32, st: i32, sto: GlueOrder, sh: i32, sho: GlueOrder) -> ds::Horizontal {
    ds::Horizontal::Glue(ds::Glue { kind: ds::GlueKind::Normal, value: Glue { width: Scaled(w), stretch: Scaled(st), stretch_order: sto, shrink: Scaled(sh), shrink_order: sho } })
}
pub fn disc(pre: &str, post: &str, replace: u32) -> ds::Horizontal {
    ds::Horizontal::Discretionary(ds::Discretionary {
        pre_break: pre.chars().map(|c| ds::Char { char: c, font: 0 }.into()).collect(),
        post_break: post.chars().map(|c| ds::Char { char: c, font: 0 }.into()).collect(),
        replace_count: replace,
    })
}
/// A discretionary from explicit element lists (characters, ligatures, kerns, boxes, rules).
pub fn disc_of(pre: Vec<ds::Horizontal>, post: Vec<ds::Horizontal>, replace: u32) -> ds::Horizontal {
    let conv = |v: Vec<ds::Horizontal>| -> Vec<ds::DiscretionaryElem> { v.into_iter().filter_map(|h| ds::DiscretionaryElem::try_from(h).ok()).collect() };
    ds::Horizontal::Discretionary(ds::Discretionary { pre_break: conv(pre), post_break: conv(post), replace_count: replace })
}
pub fn order(i: u64) -> GlueOrder {
    match i {
        0 => GlueOrder::Normal,
        1 => GlueOrder::Fil,
        2 => GlueOrder::Fill,
        _ => GlueOrder::Filll,
    }
}

// ---------------------------------------------------------------------------- JSON form

fn kind_name(k: ds::KernKind) -> &'static str {
    match k {
        ds::KernKind::Normal => "normal",
        ds::KernKind::Explicit => "explicit",
        ds::KernKind::Accent => "accent",
        ds::KernKind::Math => "math",
    }
}

pub fn node_json(n: &ds::Horizontal) -> Value {
    use ds::Horizontal as H;
    match n {
        H::Char(c) => json!({"char": c.char.to_string(), "font": c.font}),
        H::Ligature(l) => json!({"lig": l.char.to_string(), "orig": &*l.original_chars, "font": l.font}),
        H::HBox(b) => json!({"hbox": [b.height.0, b.width.0, b.depth.0, b.shift_amount.0]}),
        H::VBox(b) => json!({"vbox": [b.height.0, b.width.0, b.depth.0, b.shift_amount.0]}),
        H::Rule(r) => json!({"rule": [r.height.0, r.width.0, r.depth.0]}),
        H::Kern(k) => json!({"kern": k.width.0, "kind": kind_name(k.kind)}),
        H::Math(m) => json!({"math": if *m == ds::Math::After { "after" } else { "before" }}),
        H::Glue(g) => json!({"glue": [g.value.width.0, g.value.stretch.0, g.value.stretch_order as u8, g.value.shrink.0, g.value.shrink_order as u8]}),
        H::Penalty(p) => json!({"penalty": p.0}),
        H::Discretionary(d) => json!({"disc": {
            "pre": d.pre_break.iter().map(|e| node_json(&e.clone().into())).collect::<Vec<_>>(),
            "post": d.post_break.iter().map(|e| node_json(&e.clone().into())).collect::<Vec<_>>(),
            "replace": d.replace_count}}),
        _ => json!({"unsupported": format!("{n:?}")}),
    }
}
pub fn list_json(list: &[ds::Horizontal]) -> Value {
    Value::Array(list.iter().map(node_json).collect())
}

fn i32s(v: &Value) -> Vec<i32> {
    v.as_array().map(|a| a.iter().map(|x| x.as_i64().unwrap_or(0) as i32).collect()).unwrap_or_default()
}
fn first_char(v: &Value) -> char {
    v.as_str().and_then(|s| s.chars().next()).unwrap_or('?')
}

pub fn node_from_json(v: &Value) -> Option<ds::Horizontal> {
    let o = v.as_object()?;
    let font = o.get("font").and_then(|f| f.as_u64()).unwrap_or(0) as u32;
    if let Some(c) = o.get("char") {
        return Some(chf(first_char(c), font));
    }
    if let Some(c) = o.get("lig") {
        return Some(ligf(first_char(c), o.get("orig").and_then(|s| s.as_str()).unwrap_or(""), font));
    }
    if let Some(b) = o.get("hbox") {
        let b = i32s(b);
        return Some(ds::Horizontal::HBox(ds::HBox { height: Scaled(b[0]), width: Scaled(b[1]), depth: Scaled(b[2]), shift_amount: Scaled(b[3]), ..Default::default() }));
    }
    if let Some(b) = o.get("vbox") {
        let b = i32s(b);
        return Some(ds::Horizontal::VBox(ds::VBox { height: Scaled(b[0]), width: Scaled(b[1]), depth: Scaled(b[2]), shift_amount: Scaled(b[3]), ..Default::default() }));
    }
    if let Some(r) = o.get("rule") {
        let r = i32s(r);
        return Some(ds::Horizontal::Rule(ds::Rule { height: Scaled(r[0]), width: Scaled(r[1]), depth: Scaled(r[2]) }));
    }
    if let Some(k) = o.get("kern") {
        let kind = match o.get("kind").and_then(|s| s.as_str()).unwrap_or("normal") {
            "explicit" => ds::KernKind::Explicit,
            "accent" => ds::KernKind::Accent,
            "math" => ds::KernKind::Math,
            _ => ds::KernKind::Normal,
        };
        return Some(kern(k.as_i64()? as i32, kind));
    }
    if let Some(m) = o.get("math") {
        return Some(ds::Horizontal::Math(if m.as_str() == Some("after") { ds::Math::After } else { ds::Math::Before }));
    }
    if let Some(g) = o.get("glue") {
        let g = i32s(g);
        return Some(glue(g[0], g[1], order(g[2] as u64), g[3], order(g[4] as u64)));
    }
    if let Some(p) = o.get("penalty") {
        return Some(pen(p.as_i64()? as i32));
    }
    if let Some(d) = o.get("disc") {
        let part = |k: &str| -> Option<Vec<ds::DiscretionaryElem>> { d.get(k)?.as_array()?.iter().map(|e| node_from_json(e).and_then(|h| ds::DiscretionaryElem::try_from(h).ok())).collect() };
        return Some(ds::Horizontal::Discretionary(ds::Discretionary { pre_break: part("pre")?, post_break: part("post")?, replace_count: d.get("replace")?.as_u64()? as u32 }));
    }
    None
}
pub fn list_from_json(v: &Value) -> Option<Vec<ds::Horizontal>> {
    v.as_array()?.iter().map(node_from_json).collect()
}

/// One-line rendering in the crate's own box language.
pub fn render(list: &[ds::Horizontal]) -> String {
    list.iter().map(|x| x.to_string().split_whitespace().collect::<Vec<_>>().join(" ")).collect::<Vec<_>>().join(" ")
}

// ---------------------------------------------------------------------------- witnesses

/// Choice of the failing cases that are reported. `vcore::Acc` keeps the six failures with the
/// smallest indices, which is one defect class six times over when a class has millions of members.
/// Here every (family, failure class) keeps its smallest-index case – independent of the thread
/// schedule – and the reported indices interleave the families: first the first class of every
/// family, then the second ones, and so on.
pub mod witness {
    use std::cell::RefCell;
    use std::collections::{BTreeMap, HashMap};
    use std::sync::Mutex;
    use vcore::{Acc, Fail};

    static BEST: Mutex<BTreeMap<String, Fail>> = Mutex::new(BTreeMap::new());
    thread_local! {
        static SEEN: RefCell<HashMap<String, u64>> = RefCell::new(HashMap::new());
    }

    /// Count a failure of class `cls`; build the expensive description only if it is the smallest
    /// index this thread has seen for the class.
    pub fn offer(acc: &mut Acc, cls: &str, idx: u64, make: impl FnOnce() -> Fail) {
        acc.fail_count += 1;
        let skip = SEEN.with(|s| {
            let mut s = s.borrow_mut();
            match s.get(cls) {
                Some(best) if *best <= idx => true,
                _ => {
                    s.insert(cls.to_string(), idx);
                    false
                }
            }
        });
        if skip {
            return;
        }
        let mut g = BEST.lock().unwrap();
        match g.get(cls) {
            Some(f) if f.idx <= idx => {}
            _ => {
                g.insert(cls.to_string(), make());
            }
        }
    }

    /// Move the collected witnesses of the family that just ran into its accumulator.
    pub fn collect(acc: &mut Acc, family_no: u64) {
        let mut v: Vec<Fail> = std::mem::take(&mut *BEST.lock().unwrap()).into_values().collect();
        v.sort_by_key(|f| f.idx);
        for (rank, f) in v.iter_mut().enumerate() {
            f.note = format!("{} [case #{} of the family]", f.note, f.idx);
            f.idx = ((rank as u64) << 44) | (family_no << 40) | (f.idx & ((1 << 40) - 1));
        }
        v.truncate(6);
        acc.fails = v;
    }

    /// Run one family through `vcore::par` (what `Ctx::family_ranges` does) and attach the witnesses.
    pub fn run_family<F>(ctx: &mut vcore::Ctx, family_no: u64, name: &str, bounds: &str, n: u64, f: F)
    where
        F: Fn(std::ops::Range<u64>, &mut Acc) + Sync,
    {
        if !ctx.wants(name) {
            return;
        }
        BEST.lock().unwrap().clear();
        let t = std::time::Instant::now();
        let deadline = t + std::time::Duration::from_secs_f64(ctx.remaining_s());
        let (mut acc, done, total) = vcore::par::run(n, ctx.threads, deadline, &f);
        collect(&mut acc, family_no);
        let exhaustive = done == total;
        let cap_note = if exhaustive { None } else { Some(format!("wall cap hit: {done} of {total} chunks of the index space 0..{n} were completed; chunks are contiguous index ranges taken in increasing order")) };
        ctx.push_family(name, bounds, exhaustive, cap_note, t.elapsed().as_secs_f64(), acc);
    }
}
