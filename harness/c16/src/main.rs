//! C16 — DVI encoding round-trips; variable removal preserves every position.
//! Engines: BEX (round trip, totality) + XS (VarRemover as a state machine). DESIGN.md §3 C16.

use dvi::{Op, Var};
use reftex::dvipos::{self, POp, Tracker};
use serde_json::{json, Value};
use vcore::{catch, Acc, Ctx, Level};

// ---------------------------------------------------------------- helpers

fn boundaries_i32() -> Vec<i32> {
    let mut v: Vec<i64> = vec![0, 1, -1, 2, -2, 100, -100];
    for k in [7u32, 8, 15, 16, 23, 24, 31] {
        let p = 1i64 << k;
        for d in [-2i64, -1, 0, 1, 2] {
            v.push(p + d);
            v.push(-(p + d));
        }
    }
    let mut v: Vec<i32> = v.into_iter().filter(|x| *x >= i32::MIN as i64 && *x <= i32::MAX as i64).map(|x| x as i32).collect();
    v.sort();
    v.dedup();
    v
}
fn boundaries_u32() -> Vec<u32> {
    let mut v: Vec<u64> = vec![0, 1, 2, 63, 64, 65, 100, 127, 128, 129];
    for k in [8u32, 16, 24, 32] {
        let p = 1u64 << k;
        for d in [-2i64, -1, 0, 1, 2] {
            v.push((p as i64 + d) as u64);
        }
    }
    let mut v: Vec<u32> = v.into_iter().filter(|x| *x <= u32::MAX as u64).map(|x| x as u32).collect();
    v.sort();
    v.dedup();
    v
}
fn strings() -> Vec<String> {
    vec![String::new(), "a".into(), "é".into(), "cmr10".into(), "x".repeat(254), "y".repeat(255), format!("{}é", "z".repeat(253)), "€𝐚".into(), format!("{}𝐚", "w".repeat(251))]
}

/// Every op variant at every operand boundary.
fn full_menu() -> Vec<Op> {
    let mut ops = vec![Op::NoOp, Op::EndPage, Op::Push, Op::Pop];
    for var in [Var::W, Var::X, Var::Y, Var::Z] {
        ops.push(Op::Move(var));
    }
    let iv = boundaries_i32();
    let uv = boundaries_u32();
    for &v in &iv {
        ops.push(Op::Right(v));
        ops.push(Op::Down(v));
        for var in [Var::W, Var::X, Var::Y, Var::Z] {
            ops.push(Op::SetVar(var, v));
        }
        ops.push(Op::TypesetRule { height: v, width: v.wrapping_mul(3).wrapping_add(1), move_h: true });
        ops.push(Op::TypesetRule { height: v.wrapping_neg(), width: v, move_h: false });
        let mut p = [0i32; 10];
        for (i, x) in p.iter_mut().enumerate() {
            *x = v.wrapping_add(i as i32);
        }
        ops.push(Op::BeginPage { parameters: p, previous_begin_page: v });
        ops.push(Op::EndPostamble { dvi_format: (v & 0xff) as u8, postamble: v, num_223_bytes: (v.unsigned_abs() % 9) as usize });
        ops.push(Op::BeginPostamble { final_begin_page: v, unit_numerator: v as u32, unit_denominator: !(v as u32), magnification: 1000, largest_height: v as u32, largest_width: 7, max_stack_depth: (v & 0xffff) as u16, num_pages: ((v >> 3) & 0xffff) as u16 });
    }
    for &u in &uv {
        ops.push(Op::TypesetChar { char: u, move_h: true });
        ops.push(Op::TypesetChar { char: u, move_h: false });
        ops.push(Op::EnableFont(u));
        for s in strings().iter().take(4).chain(strings().iter().skip(7)) {
            ops.push(Op::DefineFont { number: u, checksum: !u, at_size: u.wrapping_add(5), design_size: 10 << 20, area: s.clone(), name: "n".into() });
        }
        ops.push(Op::Preamble { dvi_format: 2, unit_numerator: u, unit_denominator: 473628672, magnification: u ^ 1000, comment: " TeX output".into() });
    }
    for s in strings() {
        for t in strings() {
            ops.push(Op::DefineFont { number: 1, checksum: 2, at_size: 3, design_size: 4, area: s.clone(), name: t.clone() });
        }
        ops.push(Op::Preamble { dvi_format: 2, unit_numerator: 25400000, unit_denominator: 473628672, magnification: 1000, comment: s.clone() });
    }
    for l in [0usize, 1, 2, 254, 255, 256, 257, 65535, 65536, 65537] {
        ops.push(Op::Extension((0..l).map(|i| (i * 7 + l) as u8).collect()));
    }
    ops
}

/// One op per (variant, operand width class): the alphabet for sequences.
fn seq_menu() -> Vec<Op> {
    let mut ops = vec![Op::NoOp, Op::EndPage, Op::Push, Op::Pop, Op::Move(Var::W), Op::Move(Var::Z)];
    for v in [0i32, -1, 127, -129, 32768, -8388608, 8388608, i32::MIN, i32::MAX] {
        ops.push(Op::Right(v));
        ops.push(Op::SetVar(Var::Y, v));
    }
    for v in [-128i32, 8388607] {
        ops.push(Op::Down(v));
        ops.push(Op::SetVar(Var::X, v));
    }
    for u in [0u32, 127, 128, 255, 256, 65536, 1 << 24, u32::MAX] {
        ops.push(Op::TypesetChar { char: u, move_h: true });
        ops.push(Op::TypesetChar { char: u, move_h: false });
    }
    for u in [0u32, 52, 63, 64, 223, 256, 1 << 24] {
        ops.push(Op::EnableFont(u));
    }
    ops.push(Op::TypesetRule { height: 1, width: -1, move_h: true });
    ops.push(Op::TypesetRule { height: i32::MIN, width: i32::MAX, move_h: false });
    ops.push(Op::BeginPage { parameters: [1, 0, 0, 0, 0, 0, 0, 0, 0, -1], previous_begin_page: -1 });
    ops.push(Op::Extension(vec![]));
    ops.push(Op::Extension(vec![223, 223]));
    ops.push(Op::Extension(vec![9; 256]));
    ops.push(Op::DefineFont { number: 0, checksum: 1, at_size: 2, design_size: 3, area: "".into(), name: "cmr10".into() });
    ops.push(Op::DefineFont { number: 256, checksum: 1, at_size: 2, design_size: 3, area: "é".into(), name: "".into() });
    ops.push(Op::Preamble { dvi_format: 2, unit_numerator: 25400000, unit_denominator: 473628672, magnification: 1000, comment: "c".into() });
    ops.push(Op::BeginPostamble { final_begin_page: 42, unit_numerator: 1, unit_denominator: 2, magnification: 3, largest_height: 4, largest_width: 5, max_stack_depth: 6, num_pages: 7 });
    ops.push(Op::EndPostamble { dvi_format: 2, postamble: 100, num_223_bytes: 4 });
    ops.push(Op::EndPostamble { dvi_format: 2, postamble: 100, num_223_bytes: 0 });
    ops
}

/// Expected encoded length where the DVI spec fixes it (minimal operand width).
fn expected_len(op: &Op) -> Option<usize> {
    Some(match op {
        Op::Right(v) | Op::Down(v) | Op::SetVar(_, v) => 1 + dvipos::signed_width(*v as i64),
        Op::TypesetChar { char, move_h } => {
            if *move_h && *char < 128 {
                1
            } else {
                1 + dvipos::unsigned_width(*char as u64)
            }
        }
        Op::EnableFont(f) => {
            if *f < 64 {
                1
            } else {
                1 + dvipos::unsigned_width(*f as u64)
            }
        }
        Op::TypesetRule { .. } => 9,
        Op::BeginPage { .. } => 45,
        Op::NoOp | Op::EndPage | Op::Push | Op::Pop | Op::Move(_) => 1,
        Op::Extension(d) => 1 + dvipos::unsigned_width(d.len() as u64) + d.len(),
        Op::DefineFont { number, area, name, .. } => 1 + dvipos::unsigned_width(*number as u64) + 12 + 2 + area.len() + name.len(),
        Op::Preamble { comment, .. } => 1 + 1 + 12 + 1 + comment.len(),
        Op::BeginPostamble { .. } => 29,
        Op::EndPostamble { num_223_bytes, .. } => 6 + num_223_bytes,
    })
}

fn in_domain(ops: &[Op]) -> bool {
    // Strings are limited to 255 bytes by the format's length byte.
    for op in ops.iter() {
        match op {
            Op::DefineFont { area, name, .. } if area.len() > 255 || name.len() > 255 => return false,
            Op::Preamble { comment, .. } if comment.len() > 255 => return false,
            _ => {}
        }
    }
    true
}

/// Known finding F223: the padding bytes after post_post have the value 223, which is also the opcode
/// fnt_num_52. `EndPostamble{n}` directly followed by `EnableFont(52)` ops therefore reads back as
/// `EndPostamble{n+k}`. Returns the adjusted expectation if the case is in that class.
fn f223_adjusted(ops: &[Op]) -> Option<Vec<Op>> {
    let mut out: Vec<Op> = vec![];
    let mut hit = false;
    let mut i = 0;
    while i < ops.len() {
        if let Op::EndPostamble { dvi_format, postamble, num_223_bytes } = &ops[i] {
            let mut k = 0;
            while matches!(ops.get(i + 1 + k), Some(Op::EnableFont(52))) {
                k += 1;
            }
            if k > 0 {
                hit = true;
            }
            out.push(Op::EndPostamble { dvi_format: *dvi_format, postamble: *postamble, num_223_bytes: num_223_bytes + k });
            i += 1 + k;
        } else {
            out.push(ops[i].clone());
            i += 1;
        }
    }
    if hit {
        Some(out)
    } else {
        None
    }
}

fn roundtrip(ops: &[Op]) -> Result<(usize, Vec<Op>, Result<(), dvi::InvalidDviData>), vcore::Panic> {
    catch(|| {
        let b = dvi::serialize(ops.to_vec());
        let mut res = Ok(());
        let back: Vec<Op> = dvi::Deserializer::new(&b, &mut res).collect();
        (b.len(), back, res)
    })
}

fn check_roundtrip(idx: u64, ops: &[Op], acc: &mut Acc, sel: &dyn Fn() -> Value) {
    acc.eval();
    if !in_domain(ops) {
        acc.skipped += 1;
        return;
    }
    let multi = ops.iter().any(|o| expected_len(o).map(|l| l > 2).unwrap_or(false));
    if multi {
        acc.nontrivial();
    }
    let case = || json!({"kind": "roundtrip", "sel": sel(), "ops": format!("{ops:?}")});
    match roundtrip(ops) {
        Err(p) => acc.fail(idx, case(), "serialize/deserialize return", p.describe(), "panic"),
        Ok((n, back, res)) => {
            if res.is_err() || back != ops {
                if res.is_ok() && f223_adjusted(ops).as_deref() == Some(back.as_slice()) {
                    acc.known("F223", idx, case);
                    return;
                }
                acc.fail(idx, case(), format!("{ops:?}"), format!("{back:?} result={res:?}"), "deserialize(serialize(ops)) != ops");
                return;
            }
            let want: usize = ops.iter().map(|o| expected_len(o).unwrap()).sum();
            // The property demands the round trip, not the shortest encoding: a longer operand form
            // that still round-trips is recorded as an outcome class, never a failure.
            if n != want {
                acc.class("ok, but not the shortest operand form");
                acc.count("non_minimal_encoding_seen");
            }
            acc.class(&format!("ok len={}", n.min(64)));
        }
    }
}

// ---------------------------------------------------------------- operand sweeps

fn sweep_ranges(quick: bool) -> Vec<(i64, i64)> {
    // half-open ranges of i64 values that fit in 32 bits (interpreted as i32 and as u32 bit patterns)
    if !quick {
        return vec![(0, 1i64 << 32)];
    }
    let mut r: Vec<(i64, i64)> = vec![(0, 1 << 20), ((1i64 << 32) - (1 << 20), 1i64 << 32)];
    for k in [7u32, 8, 15, 16, 23, 24, 31] {
        let p = 1i64 << k;
        r.push(((p - 2048).max(0), (p + 2048).min(1i64 << 32)));
        let q = (1i64 << 32) - p;
        r.push(((q - 2048).max(0), (q + 2048).min(1i64 << 32)));
    }
    // merge overlapping
    r.sort();
    let mut out: Vec<(i64, i64)> = vec![];
    for (a, b) in r {
        if let Some(l) = out.last_mut() {
            if a <= l.1 {
                l.1 = l.1.max(b);
                continue;
            }
        }
        out.push((a, b));
    }
    out
}

fn sweep_value(ranges: &[(i64, i64)], mut idx: u64) -> u32 {
    for (a, b) in ranges {
        let n = (b - a) as u64;
        if idx < n {
            return (*a as u64 + idx) as u32;
        }
        idx -= n;
    }
    unreachable!()
}

fn check_sweep(idx: u64, bits: u32, acc: &mut Acc) {
    let v = bits as i32;
    let ops = [
        Op::Right(v),
        Op::SetVar(Var::Z, v),
        Op::TypesetChar { char: bits, move_h: false },
        Op::TypesetChar { char: bits, move_h: true },
        Op::EnableFont(bits),
        Op::Down(v),
    ];
    // one buffer for all six: also exercises concatenation
    acc.eval();
    acc.nontrivial();
    let r = catch(|| {
        let mut b = Vec::with_capacity(32);
        for op in &ops {
            op.serialize(&mut b);
        }
        let mut rest: &[u8] = &b;
        let mut back: Vec<Op> = Vec::with_capacity(6);
        while let Ok(Some((op, tail))) = Op::deserialize(rest) {
            back.push(op);
            rest = tail;
        }
        (b.len(), back, rest.len())
    });
    let case = || json!({"kind": "sweep", "bits": bits});
    match r {
        Err(p) => acc.fail(idx, case(), "no panic", p.describe(), "panic"),
        Ok((n, back, rest)) => {
            let want: usize = ops.iter().map(|o| expected_len(o).unwrap()).sum();
            if back.as_slice() != ops.as_slice() || rest != 0 {
                acc.fail(idx, case(), format!("{ops:?}"), format!("{back:?} unread={rest}"), "operand does not round-trip");
            } else if n != want {
                acc.count("non_minimal_encoding_seen");
            }
        }
    }
}

// ---------------------------------------------------------------- totality on bytes

fn check_bytes(idx: u64, bytes: &[u8], acc: &mut Acc) {
    acc.eval();
    let case = || json!({"kind": "bytes", "hex": bytes.iter().map(|b| format!("{b:02x}")).collect::<String>()});
    let r = catch(|| {
        let mut res = Ok(());
        let ops: Vec<Op> = dvi::Deserializer::new(bytes, &mut res).collect();
        (ops, res)
    });
    match r {
        Err(p) => acc.fail(idx, case(), "ops or a documented error", p.describe(), "deserialize panicked"),
        Ok((ops, res)) => {
            match &res {
                Ok(()) => acc.class("ok"),
                Err(e) => {
                    let _ = e.to_string();
                    acc.class(match e {
                        dvi::InvalidDviData::InvalidOpCode(_) => "err invalid opcode",
                        dvi::InvalidDviData::Truncated(_) => "err truncated",
                    })
                }
            }
            if ops.is_empty() || !in_domain(&ops) {
                if !ops.is_empty() {
                    acc.skipped += 1;
                }
                return;
            }
            acc.nontrivial();
            // normal form: whatever was parsed re-serialises to something that parses to the same ops
            match roundtrip(&ops) {
                Err(p) => acc.fail(idx, case(), "no panic", p.describe(), "re-serialising parsed ops panicked"),
                Ok((_, back, r2)) => {
                    if r2.is_err() || back != ops {
                        if r2.is_ok() && f223_adjusted(&ops).as_deref() == Some(back.as_slice()) {
                            acc.known("F223", idx, case);
                        } else {
                            acc.fail(idx, case(), format!("{ops:?}"), format!("{back:?} {r2:?}"), "parse(serialize(parse(bytes))) != parse(bytes)");
                        }
                    }
                }
            }
        }
    }
}

// ---------------------------------------------------------------- VarRemover

fn alphabet() -> Vec<Op> {
    let mut a = vec![Op::Right(1), Op::Right(-2), Op::Down(1), Op::Down(-3)];
    for var in [Var::W, Var::X, Var::Y, Var::Z] {
        a.push(Op::SetVar(var, 3));
        a.push(Op::SetVar(var, 0));
        a.push(Op::Move(var));
    }
    a.push(Op::SetVar(Var::W, -5));
    a.push(Op::SetVar(Var::Y, -5));
    a.push(Op::Push);
    a.push(Op::Pop);
    a.push(Op::BeginPage { parameters: [0; 10], previous_begin_page: -1 });
    a.push(Op::EndPage);
    a.push(Op::EnableFont(1));
    a.push(Op::EnableFont(2));
    a.push(Op::TypesetChar { char: 65, move_h: true });
    a.push(Op::TypesetChar { char: 66, move_h: false });
    a.push(Op::TypesetRule { height: 1, width: 2, move_h: true });
    a.push(Op::TypesetRule { height: 1, width: -2, move_h: false });
    a.push(Op::NoOp);
    a
}

fn pvar(v: Var) -> dvipos::Var {
    match v {
        Var::W => dvipos::Var::W,
        Var::X => dvipos::Var::X,
        Var::Y => dvipos::Var::Y,
        Var::Z => dvipos::Var::Z,
    }
}
fn to_pop(op: &Op) -> POp {
    match op {
        Op::Right(d) => POp::Right(*d as i64),
        Op::Down(d) => POp::Down(*d as i64),
        Op::SetVar(v, d) => POp::SetVar(pvar(*v), *d as i64),
        Op::Move(v) => POp::Move(pvar(*v)),
        Op::Push => POp::Push,
        Op::Pop => POp::Pop,
        Op::BeginPage { .. } => POp::BeginPage,
        Op::EndPage => POp::EndPage,
        Op::EnableFont(f) => POp::Font(*f),
        Op::TypesetChar { char, move_h } => POp::Char { c: *char, advance: *move_h },
        Op::TypesetRule { width, move_h, .. } => POp::Rule { width: *width as i64, advance: *move_h },
        _ => POp::Other,
    }
}

type Snapshot = (i32, Vec<(u32, u32)>, i32, [i32; 4]);
/// Full state of a real `dvi::Values` through its public API: the registers at every stack level
/// (observed by popping until nothing changes any more) and the font.
fn drain(ops: &[Op]) -> (u32, Vec<Snapshot>) {
    let mut v = dvi::Values::default();
    let mut depth = 0usize;
    for op in ops {
        v.update(op);
        match op {
            Op::Push => depth += 1,
            Op::Pop => depth = depth.saturating_sub(1),
            Op::BeginPage { .. } => depth = 0,
            _ => {}
        }
    }
    let snap = |v: &dvi::Values| -> Snapshot {
        let (h, hc) = v.h();
        (h, hc.to_vec(), v.v(), [v.w(), v.x(), v.y(), v.z()])
    };
    let mut out = vec![snap(&v)];
    // pop one level more than the harness believes exist, so a stack that was not cleared shows up
    for _ in 0..depth + 1 {
        v.update(&Op::Pop);
        out.push(snap(&v));
    }
    (v.f(), out)
}
fn model_drain(t: &Tracker) -> (u32, Vec<Snapshot>) {
    let conv = |r: &dvipos::Regs| -> Snapshot { (r.h as i32, r.hchars.clone(), r.v as i32, [r.vars[0] as i32, r.vars[1] as i32, r.vars[2] as i32, r.vars[3] as i32]) };
    let mut out = vec![conv(&t.top)];
    for r in t.stack.iter().rev() {
        out.push(conv(r));
    }
    // one extra pop on an empty stack changes nothing
    out.push(out.last().unwrap().clone());
    (t.font, out)
}

#[derive(Clone, PartialEq, Eq, Hash)]
struct Fp {
    orig: (u32, Vec<Snapshot>),
    trans: (u32, Vec<Snapshot>),
}

/// Check one history; returns the implementation fingerprint if everything agreed.
fn check_varremover(idx: u64, ops: &[Op], acc: &mut Acc, want_fp: bool) -> Option<Fp> {
    check_varremover_in(idx, ops, acc, want_fp, "alphabet")
}

fn pool_by_name(name: &str) -> Vec<Op> {
    if name == "wide" { wide_alphabet() } else { alphabet() }
}

/// Values on both sides of every operand-width boundary of Right/Down/w/x/y/z (1, 2, 3, 4 bytes signed).
fn wide_values() -> Vec<i32> {
    vec![1, -1, 127, 128, -128, -129, 32767, 32768, -32768, -32769, 8388607, 8388608, -8388608, -8388609, 1 << 29, -(1 << 29)]
}

/// Second VarRemover alphabet: the variables carry values that need 1, 2, 3 and 4 operand bytes.
fn wide_alphabet() -> Vec<Op> {
    let mut a = vec![];
    for v in wide_values() {
        a.push(Op::SetVar(Var::W, v));
        a.push(Op::SetVar(Var::Y, v));
    }
    for v in [128, -32769, 8388608] {
        a.push(Op::SetVar(Var::X, v));
        a.push(Op::SetVar(Var::Z, v));
        a.push(Op::Right(v));
        a.push(Op::Down(-v));
    }
    for var in [Var::W, Var::X, Var::Y, Var::Z] {
        a.push(Op::Move(var));
    }
    a.push(Op::Push);
    a.push(Op::Pop);
    a.push(Op::TypesetChar { char: 65, move_h: false });
    a.push(Op::TypesetRule { height: 1, width: 32768, move_h: true });
    a
}

fn check_varremover_in(idx: u64, ops: &[Op], acc: &mut Acc, want_fp: bool, pool: &str) -> Option<Fp> {
    let sel = || json!(ops.iter().map(|o| pool_by_name(pool).iter().position(|a| a == o).map(|p| p as i64).unwrap_or(-1)).collect::<Vec<i64>>());
    acc.eval();
    let case = || json!({"kind": "varremover", "pool": pool, "sel": sel(), "ops": format!("{ops:?}")});
    // positions must stay inside i32 (DVI: |h|, |v| < 2^31); a history that leaves it is outside the domain
    {
        let big = |r: &dvipos::Regs| r.h.abs() >= (1i64 << 31) - (1 << 16) || r.v.abs() >= (1i64 << 31) - (1 << 16);
        let mut t = Tracker::default();
        for op in ops {
            t.apply(&to_pop(op));
            if big(&t.top) {
                acc.count("history_leaves_i32_positions_skipped");
                return None;
            }
        }
    }
    // The stream that is judged is the history followed by a *drain probe*: a put_rule at the current
    // position, then (Pop, put_rule) once per open stack level plus one. The probe turns "where would the
    // next mark go, at every stack level" into marks, so only what the property states is compared:
    // position and font of every typeset op, and every non-variable op unchanged.
    let probe = Op::TypesetRule { height: 7, width: 0, move_h: false };
    let mut depth = 0usize;
    for op in ops {
        match op {
            Op::Push => depth += 1,
            Op::Pop => depth = depth.saturating_sub(1),
            Op::BeginPage { .. } => depth = 0,
            _ => {}
        }
    }
    let mut probed: Vec<Op> = ops.to_vec();
    probed.push(probe.clone());
    for _ in 0..depth + 1 {
        probed.push(Op::Pop);
        probed.push(probe.clone());
    }
    let out = match catch(|| dvi::transforms::VarRemover::new(probed.clone()).collect::<Vec<Op>>()) {
        Ok(o) => o,
        Err(p) => {
            acc.fail(idx, case(), "no panic", p.describe(), "VarRemover panicked");
            return None;
        }
    };
    let has_var = ops.iter().any(|o| matches!(o, Op::Move(_) | Op::SetVar(..)));
    let has_mark = ops.iter().any(|o| matches!(o, Op::TypesetChar { .. } | Op::TypesetRule { .. }));
    if has_var && has_mark {
        acc.nontrivial();
    }
    if out.iter().any(|o| matches!(o, Op::Move(_) | Op::SetVar(..))) {
        acc.fail(idx, case(), "no Move/SetVar in the output", format!("{out:?}"), "variables remain");
        return None;
    }
    // every non-variable op passes through unchanged and in order; a variable op may be replaced by any
    // number (also zero) of Right/Down ops
    fn aligned(inp: &[Op], out: &[Op]) -> bool {
        match inp.split_first() {
            None => out.is_empty(),
            Some((a, rest)) if !matches!(a, Op::Move(_) | Op::SetVar(..)) => out.first() == Some(a) && aligned(rest, &out[1..]),
            Some((_, rest)) => {
                let mut k = 0;
                loop {
                    if aligned(rest, &out[k..]) {
                        return true;
                    }
                    if !matches!(out.get(k), Some(Op::Right(_) | Op::Down(_))) {
                        return false;
                    }
                    k += 1;
                }
            }
        }
    }
    if !aligned(&probed, &out) {
        acc.fail(idx, case(), format!("{probed:?} with only the variable ops replaced by Right/Down"), format!("{out:?}"), "a non-variable op was changed, dropped or reordered");
        return None;
    }
    // independent tracker on both streams
    let pin: Vec<POp> = probed.iter().map(to_pop).collect();
    let pout: Vec<POp> = out.iter().map(to_pop).collect();
    let (_, min) = Tracker::run(&pin);
    let (_, mout) = Tracker::run(&pout);
    if min != mout {
        acc.fail(idx, case(), format!("marks {min:?}"), format!("marks {mout:?} from {out:?}"), "position or font of a typeset char/rule changed (the last marks are the drain probe)");
        return None;
    }
    let (tin, _) = Tracker::run(&ops.iter().map(to_pop).collect::<Vec<POp>>());
    // collision counters
    if ops.iter().any(|o| matches!(o, Op::SetVar(_, 0))) && has_mark {
        acc.count("setvar_to_zero_before_mark");
    }
    let mut set: [u8; 4] = [0; 4];
    for o in ops {
        if let Op::SetVar(v, _) = o {
            set[*v as usize] += 1;
        }
    }
    if set.iter().any(|n| *n >= 2) {
        acc.count("same_var_set_twice");
    }
    if tin.stack.len() >= 2 {
        acc.count("stack_depth_ge_2");
    }
    // bind the tracker model to the implementation's own register machine
    let real_in = drain(ops);
    acc.traces_validated += 1;
    if real_in != model_drain(&tin) {
        acc.fail(idx, case(), format!("{:?}", model_drain(&tin)), format!("{real_in:?}"), "dvi::Values disagrees with the independent tracker on the original stream");
        return None;
    }
    if want_fp {
        let plain_out = catch(|| dvi::transforms::VarRemover::new(ops.to_vec()).collect::<Vec<Op>>()).unwrap_or_default();
        Some(Fp { orig: real_in, trans: drain(&plain_out) })
    } else {
        None
    }
}

// ---------------------------------------------------------------- main

fn main() {
    let mut ctx = Ctx::new("C16", Level::ModelChecking);
    ctx.assume("strings are at most 255 bytes (the format's length byte; the property says so)");
    ctx.assume("operand sums stay inside i32 (alphabet steps are small): overflow of the position registers is outside the alphabet");
    ctx.assume("Pop on an empty stack is ignored (DVI leaves it undefined; both the crate and the tracker ignore it)");
    let menu = full_menu();
    let seqm = seq_menu();
    let alpha = alphabet();

    if let Some((_fam, case)) = ctx.replay_case() {
        let mut acc = Acc::default();
        replay(&case, &menu, &seqm, &alpha, &mut acc);
        ctx.finish_replay(acc);
    }

    // F1: every op at every operand boundary
    {
        let m = &menu;
        ctx.family("roundtrip-boundary", &format!("{} ops: every variant x every signed/unsigned operand-width boundary, strings of 0/1/254/255 bytes", m.len()), m.len() as u64, |i, acc| {
            check_roundtrip(i, std::slice::from_ref(&m[i as usize]), acc, &|| json!({"pool": "menu", "digits": [i]}));
            acc.sample(i, || json!({"op": format!("{:?}", m[i as usize])}));
        });
    }
    // F2: sequences
    {
        let k = seqm.len() as u64;
        let len = ctx.pick(3u32, 4u32);
        let n = k.pow(len);
        let m = &seqm;
        ctx.family("roundtrip-seq", &format!("all sequences of exactly {len} ops over a {k}-op menu (one op per variant and operand width)"), n, |i, acc| {
            let d = vcore::digits(i, &vec![k; len as usize]);
            let ops: Vec<Op> = d.iter().map(|j| m[*j as usize].clone()).collect();
            check_roundtrip(i, &ops, acc, &|| json!({"pool": "seq", "digits": d}));
        });
    }
    // F3: operand sweep
    {
        let ranges = sweep_ranges(ctx.quick());
        let n: u64 = ranges.iter().map(|(a, b)| (b - a) as u64).sum();
        let r = &ranges;
        let bounds = if ctx.quick() { "32-bit operand patterns: |v| < 2^20 and +-2048 around +-2^k for k in 7,8,15,16,23,24,31; six ops each" } else { "all 2^32 operand bit patterns for Right, Down, SetVar, TypesetChar (set/put), EnableFont" };
        ctx.family("operand-sweep", bounds, n, |i, acc| check_sweep(i, sweep_value(r, i), acc));
    }
    // F4: totality on bytes
    {
        let maxlen = ctx.pick(2u32, 3u32);
        let n = vcore::strings_upto(256, maxlen);
        ctx.family("bytes-short", &format!("all byte strings of length <= {maxlen}"), n, |i, acc| {
            let s: Vec<u8> = vcore::nth_string(256, i).into_iter().map(|x| x as u8).collect();
            check_bytes(i, &s, acc);
            if i % 9973 == 5 {
                acc.sample(i, || json!({"bytes": s}));
            }
        });
        let pats: [u8; 5] = [0x00, 0xff, 0x01, 223, 0x80];
        let n = 256 * pats.len() as u64 * 52;
        ctx.family("bytes-truncation", "every opcode followed by every truncation (0..=51 bytes) of a payload filled with 00 / ff / 01 / df / 80", n, |i, acc| {
            let d = vcore::digits(i, &[256, pats.len() as u64, 52]);
            let mut s = vec![d[0] as u8];
            s.extend(std::iter::repeat(pats[d[1] as usize]).take(d[2] as usize));
            check_bytes(i, &s, acc);
        });
    }
    // F4b: every truncation of the encoding of every menu op (a fault inside every payload)
    {
        let m = &menu;
        let small: Vec<usize> = (0..m.len()).filter(|i| expected_len(&m[*i]).map(|l| l <= 600).unwrap_or(false)).collect();
        let offsets: Vec<u64> = small.iter().scan(0u64, |acc, i| { let o = *acc; *acc += expected_len(&m[*i]).unwrap() as u64; Some(o) }).collect();
        let n: u64 = small.iter().map(|i| expected_len(&m[*i]).unwrap() as u64).sum();
        let small = &small;
        let offsets = &offsets;
        ctx.family("op-truncations", "the encoding of every menu op (<= 600 bytes) cut at every length short of the full encoding", n, |i, acc| {
            let k = match offsets.binary_search(&i) { Ok(k) => k, Err(k) => k - 1 };
            let op = &m[small[k]];
            let cut = (i - offsets[k]) as usize;
            let mut b = vec![];
            op.serialize(&mut b);
            b.truncate(cut);
            check_bytes(i, &b, acc);
            acc.count("op_encoding_truncated_inside_payload");
        });
    }
    // F4c: every menu op followed by every single byte (the deserialiser resumes at the right offset)
    {
        let m = &menu;
        let small: Vec<usize> = (0..m.len()).filter(|i| expected_len(&m[*i]).map(|l| l <= 600).unwrap_or(false)).collect();
        let n = small.len() as u64 * 256;
        let small = &small;
        ctx.family("op-then-byte", "the encoding of every menu op (<= 600 bytes) followed by every single byte 00..ff", n, |i, acc| {
            let op = &m[small[(i / 256) as usize]];
            let mut b = vec![];
            op.serialize(&mut b);
            b.push((i % 256) as u8);
            check_bytes(i, &b, acc);
            acc.count("op_followed_by_arbitrary_byte");
        });
    }
    // F5: VarRemover, every sequence, no merging
    {
        let k = alpha.len() as u64;
        let len = ctx.pick(5u32, 6u32);
        let n = vcore::strings_upto(k, len);
        let a = &alpha;
        ctx.family("varremover-all-sequences", &format!("every op sequence of length <= {len} over a {k}-op alphabet (each variable set to 3, 0 and moved; w,y also to -5; push/pop/pages/fonts/marks)"), n, |i, acc| {
            let ops: Vec<Op> = vcore::nth_string(k, i).into_iter().map(|j| a[j as usize].clone()).collect();
            check_varremover(i, &ops, acc, false);
            if i % 100003 == 7 {
                acc.sample(i, || json!({"ops": format!("{ops:?}")}));
            }
        });
    }
    // F5b: VarRemover with values on both sides of every operand-width boundary
    {
        let a = wide_alphabet();
        let k = a.len() as u64;
        let len = ctx.pick(4u32, 5u32);
        let n = vcore::strings_upto(k, len);
        let a = &a;
        ctx.family("varremover-wide-values", &format!("every op sequence of length <= {len} over a {k}-op alphabet: w and y set to +-1, 127/128, -128/-129, 32767/32768, -32768/-32769, 2^23-1/2^23, -2^23/-2^23-1, +-2^29; x, z, right, down with 2-, 3-, 4-byte values; moves, push, pop, a char, a rule"), n, |i, acc| {
            let ops: Vec<Op> = vcore::nth_string(k, i).into_iter().map(|j| a[j as usize].clone()).collect();
            if check_varremover_in(i, &ops, acc, false, "wide").is_none() {
                // (None is also the normal result when no fingerprint is wanted)
            }
            let moved_wide = ops.iter().enumerate().any(|(p, o)| match o {
                Op::Move(v) => ops[..p].iter().rev().find_map(|q| match q { Op::SetVar(w, x) if w == v => Some(x.unsigned_abs() >= 32768), _ => None }).unwrap_or(false),
                _ => false,
            });
            if moved_wide {
                acc.count("move_by_variable_needing_3_or_4_bytes");
            }
        });
    }
    // F6: VarRemover as a state machine, explicit-state search with merging on the implementation state
    if ctx.wants("varremover-xs") {
        let t = std::time::Instant::now();
        let depth = ctx.pick(7usize, 8usize);
        let a = &alpha;
        let deadline = std::time::Instant::now() + std::time::Duration::from_secs_f64(ctx.remaining_s().min(ctx.pick(40.0, 3600.0)));
        let init = Fp { orig: drain(&[]), trans: drain(&[]) };
        let (mut acc, stats) = vcore::xs::bfs(a.len(), depth, ctx.pick(6_000_000, 25_000_000), ctx.threads, deadline, init, |h, acc| {
            let ops: Vec<Op> = h.iter().map(|j| a[*j as usize].clone()).collect();
            check_varremover(u64::MAX, &ops, acc, true)
        });
        acc.sample(0, || json!({"xs": {"depth_completed": stats.depth_completed, "frontier_sizes": stats.frontier_sizes, "states": stats.states}}));
        ctx.extra("xs_varremover", json!({"depth_completed": stats.depth_completed, "depth_bound": depth, "frontier_sizes": stats.frontier_sizes, "capped": stats.capped,
            "fingerprint": "registers at every stack level (drained through Pop) + font of a real dvi::Values fed the original stream (= VarRemover's whole internal state) and of one fed the transformed stream"}));
        ctx.push_family("varremover-xs", &format!("BFS to depth {depth} over the same alphabet, states merged on the full implementation state"), stats.capped.is_none(), stats.capped.clone(), t.elapsed().as_secs_f64(), acc);
    }
    ctx.require("setvar_to_zero_before_mark", "a variable is set to 0 after having been non-zero, before a typeset op");
    ctx.require("same_var_set_twice", "the same variable is assigned twice in one history");
    ctx.require("stack_depth_ge_2", "two pushes are open at the end of a history");
    ctx.require("op_encoding_truncated_inside_payload", "an op encoding is cut inside its payload");
    ctx.require("move_by_variable_needing_3_or_4_bytes", "a w/x/y/z move whose amount needs a 3- or 4-byte operand");
    ctx.require("op_followed_by_arbitrary_byte", "a complete op encoding followed by one arbitrary byte");
    ctx.finish("round trip: op sequences enumerated from boundary menus (non-trivial = some op needs a multi-byte operand); bytes: every short byte string (non-trivial = parses to >= 1 op, then checked for parse/serialize/parse stability); VarRemover: every history over the alphabet (non-trivial = contains a variable op and a typeset op), compared with an independent position tracker, plus BFS with state merging");
}

fn replay(case: &Value, _menu: &[Op], _seqm: &[Op], _alpha: &[Op], acc: &mut Acc) {
    // Replay files carry the Debug text of the ops (for the reader) and, for byte/sweep cases, raw data.
    match case["kind"].as_str() {
        Some("bytes") => {
            let hex = case["hex"].as_str().unwrap_or("");
            let bytes: Vec<u8> = (0..hex.len() / 2).map(|i| u8::from_str_radix(&hex[2 * i..2 * i + 2], 16).unwrap()).collect();
            check_bytes(0, &bytes, acc);
        }
        Some("sweep") => check_sweep(0, case["bits"].as_u64().unwrap_or(0) as u32, acc),
        Some("roundtrip") => {
            let pool = if case["sel"]["pool"] == "menu" { _menu } else { _seqm };
            let ops: Vec<Op> = case["sel"]["digits"].as_array().unwrap().iter().map(|d| pool[d.as_u64().unwrap() as usize].clone()).collect();
            check_roundtrip(0, &ops, acc, &|| case["sel"].clone());
        }
        Some("varremover") => {
            let pool = case["pool"].as_str().unwrap_or("alphabet").to_string();
            let a = pool_by_name(&pool);
            let ops: Vec<Op> = case["sel"].as_array().unwrap().iter().map(|d| a[d.as_u64().unwrap() as usize].clone()).collect();
            check_varremover_in(0, &ops, acc, false, &pool);
        }
        _ => {
            eprintln!("replay: unknown case kind");
            std::process::exit(2);
        }
    }
}
