//! C12 — typesetting a paragraph conserves its content and honours the geometry.
//! Engine: BEX. DESIGN.md §3 C12. Reference model: reftex::para.
//!
//! Three oracles per paragraph:
//!  (1) text -> horizontal list: per-word spelling and the space-factor glue model (TeX §1034, §1041-1044);
//!  (2) reference `post_line_break` (TeX §877-890) applied to the breakpoints the implementation
//!      chose: line contents, box width / shift, glue set, penalties between the lines;
//!  (3) model-independent conservation: un-breaking the line boxes reproduces the list that was
//!      broken, and no line after the first begins with discardable material of its own.

use boxworks::ds::{self, Horizontal as H, Vertical as V};
use boxworks::{FontRepo, TextPreprocessor};
use boxworks_knuthplass as kp;
use boxworks_text as bwt;
use common::{Glue, GlueOrder, Scaled};
use reftex::para::{self, FontSpace, Item, KernKind, ParParams, PlbSwitches, SfSwitches, Spec};
use serde_json::{json, Value};
use vcore::{catch, Acc, Ctx, Level};

const PT: i32 = 65536;
/// set in replay mode: the single case prints what the implementation produced
static TRACE: std::sync::atomic::AtomicBool = std::sync::atomic::AtomicBool::new(false);

// ------------------------------------------------------------------------------------ resources

struct Res {
    tfm: tfm::File,
    lkp: tfm::ligkern::CompiledProgram,
    fonts: bwt::TfmFontRepo,
    hyph: boxworks_hyphenate::Hyphenator,
    font_space: FontSpace,
    /// a second font (cmss8) as font 1, for the two-font families
    tfm2: tfm::File,
    lkp2: tfm::ligkern::CompiledProgram,
    font_space2: FontSpace,
    fonts2: bwt::TfmFontRepo,
    /// an 8-bit font with the slots 0x85 and 0xA0 (smfebsl10 of the repository's test data), alone as font 0
    tfm3: tfm::File,
    lkp3: tfm::ligkern::CompiledProgram,
    font_space3: FontSpace,
    fonts3: bwt::TfmFontRepo,
    hyph3: boxworks_hyphenate::Hyphenator,
    repo: String,
}

fn load_res() -> Result<Res, String> {
    let repo = std::env::var("VERIF_REPO").unwrap_or_else(|_| "/repo".into());
    let path = format!("{repo}/crates/tfm/corpus/computer-modern/cmr10.tfm");
    let bytes = std::fs::read(&path).map_err(|e| format!("cannot read {path}: {e}"))?;
    let mut tfm_file = tfm::File::deserialize(&bytes).0.map_err(|e| format!("cmr10.tfm does not parse: {e:?}"))?;
    let lkp = tfm::ligkern::CompiledProgram::compile_from_tfm_file(&mut tfm_file).0;
    let mut fonts: bwt::TfmFontRepo = Default::default();
    fonts.register_font(0, tfm_file.clone());
    let hyph = boxworks_hyphenate::Hyphenator::plain_tex_en_us(lkp.clone());
    let fs = |n| tfm_file.named_param_scaled(n).map(|s| s.0 as i64).ok_or_else(|| "cmr10 lacks a font parameter".to_string());
    let font_space = FontSpace { space: Spec::new(fs(tfm::NamedParameter::Space)?, fs(tfm::NamedParameter::Stretch)?, fs(tfm::NamedParameter::Shrink)?), extra: fs(tfm::NamedParameter::ExtraSpace)? };
    let path2 = format!("{repo}/crates/tfm/corpus/computer-modern/cmss8.tfm");
    let bytes2 = std::fs::read(&path2).map_err(|e| format!("cannot read {path2}: {e}"))?;
    let mut tfm2 = tfm::File::deserialize(&bytes2).0.map_err(|e| format!("cmss8.tfm does not parse: {e:?}"))?;
    let lkp2 = tfm::ligkern::CompiledProgram::compile_from_tfm_file(&mut tfm2).0;
    let fs2 = |n| tfm2.named_param_scaled(n).map(|s| s.0 as i64).ok_or_else(|| "cmss8 lacks a font parameter".to_string());
    let font_space2 = FontSpace { space: Spec::new(fs2(tfm::NamedParameter::Space)?, fs2(tfm::NamedParameter::Stretch)?, fs2(tfm::NamedParameter::Shrink)?), extra: fs2(tfm::NamedParameter::ExtraSpace)? };
    let mut fonts2: bwt::TfmFontRepo = Default::default();
    fonts2.register_font(0, tfm_file.clone());
    fonts2.register_font(1, tfm2.clone());
    let path3 = format!("{repo}/crates/tfm/corpus/ctan/smfebsl10-3.tfm");
    let bytes3 = std::fs::read(&path3).map_err(|e| format!("cannot read {path3}: {e}"))?;
    let mut tfm3 = tfm::File::deserialize(&bytes3).0.map_err(|e| format!("smfebsl10-3.tfm does not parse: {e:?}"))?;
    let lkp3 = tfm::ligkern::CompiledProgram::compile_from_tfm_file(&mut tfm3).0;
    let fs3 = |n| tfm3.named_param_scaled(n).map(|s| s.0 as i64).ok_or_else(|| "smfebsl10 lacks a font parameter".to_string());
    let font_space3 = FontSpace { space: Spec::new(fs3(tfm::NamedParameter::Space)?, fs3(tfm::NamedParameter::Stretch)?, fs3(tfm::NamedParameter::Shrink)?), extra: fs3(tfm::NamedParameter::ExtraSpace)? };
    let mut fonts3: bwt::TfmFontRepo = Default::default();
    fonts3.register_font(0, tfm3.clone());
    for c in ['\u{85}', '\u{a0}', '\u{e9}'] {
        if fonts3.width(c, 0).is_none() {
            return Err(format!("smfebsl10 has no character {:#x}", c as u32));
        }
    }
    if fonts.width('\u{b}', 0).is_none() || fonts.width('\u{a0}', 0).is_some() {
        return Err("cmr10 is expected to have slot 0x0B and no slot 0xA0".into());
    }
    let hyph3 = boxworks_hyphenate::Hyphenator::plain_tex_en_us(lkp3.clone());
    Ok(Res { tfm: tfm_file, lkp, fonts, hyph, font_space, tfm2, lkp2, font_space2, fonts2, tfm3, lkp3, font_space3, fonts3, hyph3, repo })
}

/// The toy font of the hand-built lists (design-probes/kp_probe.rs).
struct Toy;
fn toy_w(c: char) -> i32 {
    (match c {
        'a' => 5,
        'b' => 3,
        'c' => 2,
        '-' => 1,
        _ => 4,
    }) * PT
}
impl FontRepo for Toy {
    fn width(&self, c: char, _f: u32) -> Option<Scaled> {
        Some(Scaled(toy_w(c)))
    }
    fn height(&self, _c: char, _f: u32) -> Option<Scaled> {
        Some(Scaled::ZERO)
    }
    fn depth(&self, _c: char, _f: u32) -> Option<Scaled> {
        Some(Scaled::ZERO)
    }
}
struct NoHyph;
impl boxworks::Hyphenator for NoHyph {
    fn hyphenate(&self, _l: &mut Vec<H>) {}
}

// ---------------------------------------------------------------------------------- conversions

fn spec(g: &Glue) -> Spec {
    Spec { w: g.width.0 as i64, st: g.stretch.0 as i64, st_o: g.stretch_order as u8, sh: g.shrink.0 as i64, sh_o: g.shrink_order as u8 }
}
fn order(o: u8) -> GlueOrder {
    match o {
        0 => GlueOrder::Normal,
        1 => GlueOrder::Fil,
        2 => GlueOrder::Fill,
        _ => GlueOrder::Filll,
    }
}
fn glue(s: &Spec) -> Glue {
    Glue { width: Scaled(s.w as i32), stretch: Scaled(s.st as i32), stretch_order: order(s.st_o), shrink: Scaled(s.sh as i32), shrink_order: order(s.sh_o) }
}
fn kkind(k: ds::KernKind) -> KernKind {
    match k {
        ds::KernKind::Normal => KernKind::Normal,
        ds::KernKind::Explicit => KernKind::Explicit,
        ds::KernKind::Accent => KernKind::Accent,
        ds::KernKind::Math => KernKind::Math,
    }
}
fn whd<F: FontRepo>(fr: &F, c: char, f: u32) -> [i64; 3] {
    match fr.width_height_depth(c, f) {
        Some([w, h, d]) => [w.0 as i64, h.0 as i64, d.0 as i64],
        None => [0, 0, 0],
    }
}
fn conv<F: FontRepo>(h: &H, fr: &F) -> Item {
    match h {
        H::Char(c) => Item::Char { c: c.char as u32, font: c.font, whd: whd(fr, c.char, c.font) },
        H::Ligature(l) => Item::Lig { c: l.char as u32, font: l.font, orig: l.original_chars.to_string(), lb: l.includes_left_boundary, rb: l.includes_right_boundary, whd: whd(fr, l.char, l.font) },
        H::Glue(g) if g.kind == ds::GlueKind::Normal => Item::Glue(spec(&g.value)),
        H::Kern(k) => Item::Kern { w: k.width.0 as i64, kind: kkind(k.kind) },
        H::Penalty(p) => Item::Penalty(p.0 as i64),
        H::Discretionary(d) => Item::Disc { pre: d.pre_break.iter().map(|e| conv(&H::from(e.clone()), fr)).collect(), post: d.post_break.iter().map(|e| conv(&H::from(e.clone()), fr)).collect(), replace: d.replace_count as usize },
        H::Math(m) => Item::Math(*m == ds::Math::After),
        H::HBox(b) => Item::Box { whd: [b.width.0 as i64, (b.height.0 - b.shift_amount.0) as i64, (b.depth.0 + b.shift_amount.0) as i64], id: format!("hbox {}x{} {:?}", b.width.0, b.list.len(), b.list).chars().take(80).collect() },
        H::VBox(b) => Item::Box { whd: [b.width.0 as i64, (b.height.0 - b.shift_amount.0) as i64, (b.depth.0 + b.shift_amount.0) as i64], id: format!("vbox {}x{}", b.width.0, b.list.len()) },
        H::Rule(r) => Item::Box { whd: [r.width.0 as i64, r.height.0 as i64, r.depth.0 as i64], id: format!("rule {}", r.width.0) },
        other => Item::Other(format!("{other:?}").chars().take(60).collect()),
    }
}
fn conv_list<F: FontRepo>(l: &[H], fr: &F) -> Vec<Item> {
    l.iter().map(|h| conv(h, fr)).collect()
}

// ------------------------------------------------------------------------------ text and settings

/// DESIGN §3 C12 vocabulary plus three words that force space-factor collisions the first eleven
/// cannot: a capital directly before a period (cap at 1000, §1034), an sfcode-0 character after a
/// period (factor kept), and a factor of exactly 2000 (the `>= 2000` tests of §1043-1044).
const VOCAB: [&str; 14] = ["a", "fi", "ffl", "AV", "end.", "Mr.", "so,", "x-y", "--", "difficult", "I", "A.", "b.)", "it:"];

/// The idx-th word sequence (shortest first, lengths 1..).
fn nth_words(idx: u64) -> Vec<&'static str> {
    vcore::nth_string(VOCAB.len() as u64, idx + 1).into_iter().map(|j| VOCAB[j as usize]).collect()
}
fn count_words(maxlen: u32) -> u64 {
    vcore::strings_upto(VOCAB.len() as u64, maxlen) - 1
}

/// Spacing variants of a word sequence. None = the variant repeats an earlier one.
fn spaced(words: &[&str], variant: u64) -> Option<String> {
    let single = words.join(" ");
    let double = words.join("  ");
    match variant {
        0 => Some(single),
        1 => Some(format!(" {single}")),
        2 => Some(format!("{single} ")),
        3 => {
            if words.len() < 2 {
                None
            } else {
                Some(double)
            }
        }
        _ => Some(format!("  {double}   ")),
    }
}
const SPACINGS: u64 = 5;

/// Second `\sfcode` table (forces collisions the plain table cannot produce: a lower-case letter
/// below 1000, a capital at 1000, the hyphen above 2000).
fn sf_code_alt(c: u32) -> i64 {
    match c {
        0x61 => 800,  // a
        0x49 => 1000, // I
        0x2d => 2500, // -
        0x79 => 0,    // y
        _ => para::plain_sf_code(c),
    }
}

/// Third table: the values on both sides of every comparison in §1034/§1043-1044 (0 < code, code <= 1000,
/// code > 1000, factor >= 2000) on word-final characters of the vocabulary, and the largest sfcode.
fn sf_code_edge(c: u32) -> i64 {
    match c {
        0x61 => 1,     // a
        0x49 => 1001,  // I
        0x6c => 1999,  // l  (ffl)
        0x79 => 2001,  // y  (x-y)
        0x74 => 32767, // t  (difficult)
        0x56 => 2000,  // V  (AV: capped, A is 999)
        _ => para::plain_sf_code(c),
    }
}
/// Fourth table, for the words with characters above 127: codes at the last two entries of the
/// 256-entry table. Characters from 256 on have no entry (TeX has no such characters): 1000.
fn sf_code_wide(c: u32) -> i64 {
    match c {
        0xe9 => 2000, // é
        0xff => 999,  // ÿ
        _ => para::plain_sf_code(c),
    }
}
fn code_fn(codes: u8) -> &'static dyn Fn(u32) -> i64 {
    match codes {
        1 => &sf_code_alt,
        2 => &sf_code_edge,
        3 => &sf_code_wide,
        _ => &para::plain_sf_code,
    }
}

#[derive(Clone, Copy)]
struct SkipSet {
    name: &'static str,
    ss: Spec,
    xs: Spec,
    codes: u8,
    /// 0: Params::plain_tex_defaults(), 1: Params::default() – the tables exactly as the crate provides them
    ctor: u8,
}
fn skip_sets() -> Vec<SkipSet> {
    let p = PT as i64;
    let ss1 = Spec::new(5 * p, 2 * p, p);
    let xs1 = Spec::new(9 * p, p, 0);
    vec![
        SkipSet { name: "default", ss: Spec::ZERO, xs: Spec::ZERO, codes: 0, ctor: 0 },
        SkipSet { name: "spaceskip=5pt plus 2pt minus 1pt", ss: ss1, xs: Spec::ZERO, codes: 0, ctor: 0 },
        SkipSet { name: "xspaceskip=9pt plus 1pt", ss: Spec::ZERO, xs: xs1, codes: 0, ctor: 0 },
        SkipSet { name: "spaceskip and xspaceskip", ss: ss1, xs: xs1, codes: 0, ctor: 0 },
        SkipSet { name: "spaceskip=4pt plus 1fil minus 2pt", ss: Spec { w: 4 * p, st: p, st_o: 1, sh: 2 * p, sh_o: 0 }, xs: Spec::ZERO, codes: 0, ctor: 0 },
        SkipSet { name: "spaceskip=0pt plus 3pt", ss: Spec::new(0, 3 * p, 0), xs: Spec::ZERO, codes: 0, ctor: 0 },
        SkipSet { name: "spaceskip=3pt plus -1pt minus -0.5pt", ss: Spec::new(3 * p, -p, -p / 2), xs: Spec::ZERO, codes: 0, ctor: 0 },
        SkipSet { name: "alt sfcodes", ss: Spec::ZERO, xs: Spec::ZERO, codes: 1, ctor: 0 },
        SkipSet { name: "alt sfcodes, spaceskip and xspaceskip", ss: ss1, xs: xs1, codes: 1, ctor: 0 },
        SkipSet { name: "edge sfcodes (1, 1001, 1999, 2000, 2001, 32767)", ss: Spec::ZERO, xs: Spec::ZERO, codes: 2, ctor: 0 },
        SkipSet { name: "edge sfcodes, spaceskip and xspaceskip", ss: ss1, xs: xs1, codes: 2, ctor: 0 },
        SkipSet { name: "spaceskip=0pt plus 0fil minus 0fill (is zero_glue), xspaceskip=0pt plus 0filll", ss: Spec { w: 0, st: 0, st_o: 1, sh: 0, sh_o: 2 }, xs: Spec { w: 0, st: 0, st_o: 3, sh: 0, sh_o: 0 }, codes: 0, ctor: 0 },
        SkipSet { name: "wide sfcodes (233, 255)", ss: Spec::ZERO, xs: Spec::ZERO, codes: 3, ctor: 0 },
        SkipSet { name: "wide sfcodes, spaceskip and xspaceskip", ss: ss1, xs: xs1, codes: 3, ctor: 0 },
        SkipSet { name: "Params::default()", ss: Spec::ZERO, xs: Spec::ZERO, codes: 0, ctor: 1 },
        SkipSet { name: "Params::default(), spaceskip and xspaceskip", ss: ss1, xs: xs1, codes: 0, ctor: 1 },
    ]
}

fn text_params(s: &SkipSet) -> bwt::Params {
    let mut p = if s.ctor == 1 { bwt::Params::default() } else { bwt::Params::plain_tex_defaults() };
    p.space_skip = glue(&s.ss);
    p.extra_space_skip = glue(&s.xs);
    if s.codes != 0 {
        let f = code_fn(s.codes);
        for c in 0..256u32 {
            p.space_factor_codes.0[c as usize] = f(c) as i32;
        }
    }
    p
}

/// `font`: 0 = cmr10, 2 = smfebsl10 (registered alone, as font 0).
fn make_hlist(res: &Res, s: &SkipSet, text: &str, font: u64) -> Vec<H> {
    let mut tp = bwt::TextPreprocessorImpl::new(text_params(s));
    if font == 2 {
        tp.register_font(0, &res.tfm3, res.lkp3.clone());
    } else {
        tp.register_font(0, &res.tfm, res.lkp.clone());
    }
    tp.activate_font(0);
    let mut list = vec![];
    tp.add_text(text, &mut list);
    list
}

// ------------------------------------------------------------------------------ oracle 1: hlist

fn glues_of(l: &[Item]) -> Vec<Spec> {
    l.iter().filter_map(|i| if let Item::Glue(g) = i { Some(*g) } else { None }).collect()
}

/// Words with the font that is current for each (two-font route: add_word / add_space / activate_font
/// driven directly, as the repository's knuthplass tests do).
fn make_hlist_fonts(res: &Res, s: &SkipSet, words: &[&str], fonts: &[u32]) -> Vec<H> {
    let mut tp = bwt::TextPreprocessorImpl::new(text_params(s));
    tp.register_font(0, &res.tfm, res.lkp.clone());
    tp.register_font(1, &res.tfm2, res.lkp2.clone());
    tp.new_paragraph();
    let mut list = vec![];
    for (i, w) in words.iter().enumerate() {
        tp.activate_font(fonts[i]);
        tp.add_word(w, &mut list);
        if i + 1 < words.len() {
            tp.add_space(&mut list);
        }
    }
    list
}

fn check_hlist(idx: u64, res: &Res, text: &str, skip_idx: usize, font: u64, acc: &mut Acc) {
    let sets = skip_sets();
    let s = &sets[skip_idx];
    let case = || json!({"kind": "hlist", "text": text, "skips": skip_idx, "skips_name": s.name, "font": font, "font_name": if font == 2 { "smfebsl10" } else { "cmr10" }});
    let (fr, fs0) = if font == 2 { (&res.fonts3, res.font_space3) } else { (&res.fonts2, res.font_space) };
    check_hlist_core(idx, res, &|| make_hlist(res, s, text, font), para::split_words(text), &[], s, &case, fr, fs0, acc);
}

fn check_hlist_fonts(idx: u64, res: &Res, words: &[&str], fonts: &[u32], skip_idx: usize, acc: &mut Acc) {
    let sets = skip_sets();
    let s = &sets[skip_idx];
    let case = || json!({"kind": "hlist2", "words": words, "fonts": fonts, "skips": skip_idx, "skips_name": s.name});
    let w = para::Words { leading: false, words: words.iter().map(|w| w.to_string()).collect(), trailing: false };
    check_hlist_core(idx, res, &|| make_hlist_fonts(res, s, words, fonts), w, fonts, s, &case, &res.fonts2, res.font_space, acc);
}

/// `word_fonts`: font current for each word (empty = font 0 throughout); `fr`: the fonts, `fs0`: the
/// space parameters of font 0. A character that is in the font must appear in the list; one that
/// is not may be dropped (TeX drops it) but never becomes glue or a word boundary.
#[allow(clippy::too_many_arguments)]
fn check_hlist_core(idx: u64, res: &Res, build: &dyn Fn() -> Vec<H>, words: para::Words, word_fonts: &[u32], s: &SkipSet, case: &dyn Fn() -> Value, fr: &bwt::TfmFontRepo, fs0: FontSpace, acc: &mut Acc) {
    acc.eval();
    let list = match catch(build) {
        Ok(l) => l,
        Err(p) => {
            acc.class("FAIL panic in add_text");
            acc.fail(idx, case(), "a horizontal list", p.describe(), "add_text / add_word / add_space panicked");
            return;
        }
    };
    let items = conv_list(&list, fr);
    let code: &dyn Fn(u32) -> i64 = code_fn(s.codes);
    let font_of_word = |i: usize| -> FontSpace {
        if word_fonts.get(i).copied().unwrap_or(0) == 1 {
            res.font_space2
        } else {
            fs0
        }
    };
    {
        let is_ws = |c: char| c.is_whitespace() && !para::is_separator(c);
        if words.words.iter().any(|w| w.chars().any(|c| is_ws(c) && !c.is_ascii() && fr.width(c, 0).is_some())) {
            acc.count("word_contains_non_ascii_white_space_char_present_in_font");
        }
        if words.words.iter().any(|w| w.chars().any(|c| is_ws(c) && !c.is_ascii() && fr.width(c, 0).is_none())) {
            acc.count("word_contains_non_ascii_white_space_char_absent_from_font");
        }
        if words.words.iter().any(|w| w.contains('\u{b}') && fr.width('\u{b}', 0).is_some()) {
            acc.count("word_contains_vertical_tab_present_in_font");
        }
        if words.words.iter().any(|w| w.chars().next().map(is_ws).unwrap_or(false)) {
            acc.count("word_begins_with_non_separator_white_space");
        }
    }
    if word_fonts.iter().any(|f| *f == 1) && words.words.len() >= 2 && word_fonts[..word_fonts.len() - 1].iter().any(|f| *f == 1) {
        acc.count("space_glue_from_second_font");
    }
    if word_fonts.windows(2).any(|w| w[0] != w[1]) {
        acc.count("font_switch_between_words");
    }
    for (n, name) in [(2usize, "text_with_2_byte_character"), (3, "text_with_3_byte_character"), (4, "text_with_4_byte_character")] {
        if words.words.iter().any(|w| w.chars().any(|c| c.len_utf8() == n)) {
            acc.count(name);
        }
    }
    if words.words.iter().any(|w| w.contains('\u{ff}')) && words.words.iter().any(|w| w.contains('\u{100}')) {
        acc.count("characters_255_and_256");
    }
    if s.ss.is_zero_glue() && (s.ss.st_o != 0 || s.ss.sh_o != 0) {
        acc.count("zero_glue_parameter_with_infinite_order");
    }
    // a trailing space token gives glue that §816 removes again: both forms are the same paragraph.
    // A space before the first word gives glue in horizontal mode and nothing when it is what
    // starts the paragraph (vertical mode, §1090): the statement speaks of inter-word glue only,
    // so both forms are accepted (if the glue is there it must be the f=1000 glue).
    let impl_trailing = words.trailing && matches!(items.last(), Some(Item::Glue(_)));
    let mut words = words;
    if words.leading && !matches!(items.first(), Some(Item::Glue(_))) {
        words.leading = false;
        acc.class("note: no glue for a space before the first word");
    }
    let (want, sfs) = match para::text_glues_fonts(&words, code, &font_of_word, &s.ss, &s.xs, SfSwitches::default(), impl_trailing) {
        Ok(x) => x,
        Err(()) => {
            acc.skipped += 1;
            return;
        }
    };
    // vacuity counters, from the case and the model
    if sfs.iter().any(|f| *f != 1000) {
        acc.nontrivial();
        if !s.ss.is_zero_glue() && sfs.iter().any(|f| *f != 1000 && !(*f >= 2000 && !s.xs.is_zero_glue())) {
            acc.count("spaceskip_with_sf_not_1000");
        }
    }
    if !s.xs.is_zero_glue() && sfs.iter().any(|f| *f >= 2000) {
        acc.count("xspaceskip_with_sf_ge_2000");
    }
    if sfs.iter().any(|f| *f < 1000) {
        acc.count("sf_below_1000");
    }
    {
        // a large sfcode right after a small space factor is capped at 1000 (§1034); it is visible
        // when that character is the last one before a space. An sfcode of 0 keeps the factor.
        let mut sf = 1000;
        let n = words.words.len();
        for (wi, w) in words.words.iter().enumerate() {
            let mut capped_last = false;
            let mut kept_large = false;
            for c in w.chars() {
                let cd = code(c as u32);
                capped_last = cd > 1000 && sf < 1000;
                kept_large = cd == 0 && sf != 1000;
                sf = para::adjust_sf(sf, cd);
            }
            if wi + 1 < n && capped_last {
                acc.count("sf_capped_before_space");
            }
            if wi + 1 < n && kept_large {
                acc.count("sfcode_zero_keeps_factor_before_space");
            }
        }
    }
    if !s.xs.is_zero_glue() && sfs.iter().any(|f| *f == 2000) {
        acc.count("xspaceskip_with_sf_exactly_2000");
    }
    for (v, name) in [(1i64, "space_after_sf_1"), (1001, "space_after_sf_1001"), (1999, "space_after_sf_1999"), (2001, "space_after_sf_2001"), (32767, "space_after_sf_32767")] {
        if sfs.iter().any(|f| *f == v) {
            acc.count(name);
        }
    }
    if s.xs.is_zero_glue() && sfs.iter().any(|f| *f >= 2000) {
        acc.count("extra_space_added");
    }
    // shape: only characters, ligatures, font kerns and empty discretionaries between the glue
    for it in &items {
        let ok = match it {
            Item::Char { .. } | Item::Lig { .. } | Item::Glue(_) => true,
            Item::Kern { kind, .. } => *kind == KernKind::Normal,
            Item::Disc { pre, post, replace } => pre.is_empty() && post.is_empty() && *replace == 0,
            _ => false,
        };
        if !ok {
            // not stated by the property (only spelling and inter-word glue are): recorded, not judged
            acc.class("note: the list made from text holds an item other than char/lig/font kern/glue/empty disc");
            acc.count("hlist_other_item_kinds");
            break;
        }
    }
    // spelling, word by word
    let mut want_words: Vec<String> = vec![];
    if words.leading {
        want_words.push(String::new());
    }
    want_words.extend(words.words.iter().cloned());
    if impl_trailing {
        want_words.push(String::new());
    }
    let got_words = para::word_spellings(&items);
    // which font is current for the k-th segment (a leading empty segment belongs to word 0)
    let off = usize::from(words.leading);
    let spelled_ok = got_words.len() == want_words.len()
        && want_words.iter().zip(got_words.iter()).enumerate().all(|(k, (w, g))| {
            let f = word_fonts.get(k.saturating_sub(off)).copied().unwrap_or(0);
            para::spells(w, g, &|c| fr.width(c, f).is_some())
        });
    if got_words != want_words && spelled_ok {
        acc.class("note: characters that are not in the font were dropped from the list");
    }
    if !spelled_ok {
        acc.class("FAIL hlist does not spell the words");
        acc.fail(idx, case(), format!("{want_words:?}"), format!("{got_words:?}  list: {}", para::show_list(&items)), "the horizontal list does not spell the input words between its glue items (one segment per word, every character of the font present, nothing else)");
        return;
    }
    let got = glues_of(&items);
    if got != want {
        let d10b = para::text_glues_fonts(&words, code, &font_of_word, &s.ss, &s.xs, SfSwitches { scale_spaceskip: false }, impl_trailing).map(|x| x.0 == got).unwrap_or(false);
        let i = got.iter().zip(want.iter()).position(|(a, b)| a != b).unwrap_or(got.len().min(want.len()));
        let class = if d10b { "D10b: \\spaceskip is not adjusted by the space factor (TeX §1043-1044)" } else { "inter-word glue differs from TeX §1041-1044" };
        acc.class(&format!("FAIL {class}"));
        acc.fail(
            idx,
            case(),
            format!("glue #{i}: {} (space factor {})", want.get(i).map(|g| g.show()).unwrap_or("-".into()), sfs.get(i).copied().unwrap_or(0)),
            format!("glue #{i}: {}", got.get(i).map(|g| g.show()).unwrap_or("-".into())),
            class,
        );
        return;
    }
    acc.class(&format!("ok hlist glues={} sf-classes={}", got.len().min(6), {
        let mut c: Vec<i64> = sfs.clone();
        c.sort();
        c.dedup();
        c.len()
    }));
}

// -------------------------------------------------------------------- oracles 2 and 3: paragraphs

struct KpSet {
    p: kp::Params,
}

fn par_params(p: &kp::Params, widths: &[Scaled], indents: &[Scaled]) -> ParParams {
    ParParams {
        left_skip: spec(&p.left_skip),
        right_skip: spec(&p.right_skip),
        widths: widths.iter().map(|w| w.0 as i64).collect(),
        indents: indents.iter().map(|w| w.0 as i64).collect(),
        inter_line_penalty: p.inter_line_penalty as i64,
        club_penalty: p.club_penalty as i64,
        widow_penalty: p.final_widow_penalty as i64,
        broken_penalty: p.broken_penalty as i64,
    }
}

struct Broken {
    vlist: Vec<V>,
    after: Vec<H>,
    breaks: Vec<usize>,
    after2: Vec<H>,
}

fn run_breaker<F: FontRepo>(list0: &[H], fr: &F, hy: &dyn boxworks::Hyphenator, p: &kp::Params, widths: &[Scaled], indents: &[Scaled]) -> Broken {
    use boxworks::LineBreaker as _;
    let mut vlist: Vec<V> = vec![];
    let mut after = list0.to_vec();
    {
        let lb = kp::LineBreaker { params: p, line_widths: widths, line_indents: indents, debug_logger: None, hyphenator: hy };
        lb.break_line(fr, &mut vlist, &mut after);
    }
    // the breakpoints the implementation chose: the same public entry point break_line uses, on a
    // list prepared as break_line prepares it (TeX §816)
    let mut after2 = list0.to_vec();
    if matches!(after2.last(), Some(H::Glue(_))) {
        after2.pop();
    }
    after2.push(H::Penalty(ds::Penalty::INFINITE));
    after2.push(H::Glue(ds::Glue { kind: ds::GlueKind::Normal, value: p.par_fill_skip }));
    let mut lb = kp::LineBreaker { params: p, line_widths: widths, line_indents: indents, debug_logger: None, hyphenator: hy };
    let mut scratch: Vec<V> = vec![];
    let breaks = lb.break_line_all_attempts(fr, hy, &mut scratch, &mut after2);
    Broken { vlist, after, breaks, after2 }
}

fn show_lines(lines: &[Vec<Item>]) -> String {
    lines.iter().enumerate().map(|(i, l)| format!("[{i}] {}", para::show_list(l))).collect::<Vec<_>>().join("  ")
}

#[allow(clippy::too_many_arguments)]
fn check_para<F: FontRepo>(idx: u64, acc: &mut Acc, case: &dyn Fn() -> Value, list0: &[H], fr: &F, hy: &dyn boxworks::Hyphenator, hyph_on: bool, kps: &KpSet, widths: &[Scaled], indents: &[Scaled], want_spelling: Option<(&str, &dyn Fn(char) -> bool)>) {
    acc.eval();
    let p = &kps.p;
    let br = match catch(|| run_breaker(list0, fr, hy, p, widths, indents)) {
        Ok(b) => b,
        Err(pn) => {
            acc.class(&format!("FAIL panic {}", pn.site()));
            acc.fail(idx, case(), "line boxes", pn.describe(), "break_line panicked");
            return;
        }
    };
    // The list that was broken is the one the reported breakpoints index: the input prepared as
    // TeX §816 prescribes and passed through break_line_all_attempts (which hyphenates it in place).
    // What break_line leaves in its own in/out argument is not stated by the property: recorded only.
    let hl = conv_list(&br.after2, fr);
    let _ = hyph_on;
    let pp = par_params(p, widths, indents);
    if br.after != br.after2 {
        acc.class("note: break_line leaves a different list in its argument than the list the breakpoints index");
        acc.count("break_line_argument_differs");
    }
    if let Some((w, in_font)) = want_spelling {
        let got = para::spelling(&hl);
        if !para::spells(w, &got, in_font) {
            acc.class("FAIL the list that was broken does not spell the words");
            acc.fail(idx, case(), w, format!("{got}  list: {}", para::show_list(&hl)), "the list that was broken (discretionaries not taken) does not spell the input words");
            return;
        }
    }
    // the vertical list: boxes, each optionally followed by one penalty; inter-line glue is not compared
    let mut boxes: Vec<(&ds::HBox, Option<i64>)> = vec![];
    let mut shape_err: Option<String> = None;
    let mut prev_pen = false;
    for v in &br.vlist {
        match v {
            V::HBox(b) => {
                boxes.push((b, None));
                prev_pen = false;
            }
            V::Penalty(pn) => match boxes.last_mut() {
                Some(l) if !prev_pen => {
                    l.1 = Some(pn.0 as i64);
                    prev_pen = true;
                }
                _ => shape_err = Some("penalty without a preceding line box, or two penalties in a row".into()),
            },
            V::Glue(_) => {}
            _ => {
                // other vertical material between the lines is not stated by the property: recorded only
                acc.class("note: vertical list holds items other than line boxes, penalties and glue");
            }
        }
    }
    // a penalty node of value 0 has the effect of no node (the glue that follows is a zero-cost breakpoint anyway)
    for b in boxes.iter_mut() {
        if b.1 == Some(0) {
            b.1 = None;
            acc.class("note: a zero penalty node between lines");
        }
    }
    if let Some(e) = shape_err {
        acc.class("FAIL vertical list shape");
        acc.fail(idx, case(), "at most one penalty node after each line box (TeX §890 appends the sum)", e, "inter-line penalties: shape of the vertical list");
        return;
    }
    let impl_lines: Vec<Vec<Item>> = boxes.iter().map(|(b, _)| conv_list(&b.list, fr)).collect();
    if TRACE.load(std::sync::atomic::Ordering::Relaxed) {
        eprintln!("list that was broken: {}\nbreakpoints: {:?}\nlines: {}\npenalties after the lines: {:?}", para::show_list(&hl), br.breaks, show_lines(&impl_lines), boxes.iter().map(|b| b.1).collect::<Vec<_>>());
    }

    // ---- oracle 2
    // If the reference procedure cannot use the reported breakpoints (a matter of how
    // break_line_all_attempts reports them, not of the property) oracle 2 is skipped and recorded;
    // oracle 3 below does not need them.
    let model_opt = para::post_line_break(&hl, &br.breaks, &pp, PlbSwitches::default());
    if model_opt.is_err() {
        acc.class("note: reference post_line_break not applicable to the reported breakpoints (oracle 2 skipped)");
        acc.count("oracle2_skipped");
    }
    let empty: Vec<para::Line> = vec![];
    let o2 = model_opt.is_ok();
    let model = model_opt.as_ref().unwrap_or(&empty);
    // collision counters from the model's run
    let nl = if o2 { model.len() } else { boxes.len() };
    if nl >= 2 {
        acc.nontrivial();
    }
    for (k, l) in model.iter().enumerate() {
        if l.pruned >= 1 {
            acc.count("pruned_after_break");
        }
        if l.pruned >= 2 {
            acc.count("pruned_two_or_more");
        }
        if l.carried_post > 0 {
            acc.count("post_break_carried_over");
        }
        if l.disc_break && l.replaced > 0 {
            acc.count("break_at_discretionary_with_replace_count");
        }
        if l.disc_break && l.pruned >= 1 {
            acc.count("pruned_after_discretionary_break");
        }
        if l.disc_break {
            acc.count("break_at_discretionary");
        }
        if l.penalty_sum == Some(0) && (pp.club_penalty != 0 || pp.inter_line_penalty != 0) {
            acc.count("penalty_sum_zero_no_node");
        }
        if l.penalty_sum.map(|p| p < 0).unwrap_or(false) {
            acc.count("penalty_sum_negative");
        }
        if l.penalty_sum == Some(1) {
            acc.count("penalty_sum_plus_one");
        }
        if l.penalty_sum == Some(-1) {
            acc.count("penalty_sum_minus_one");
        }
        if l.disc_break && l.replaced > 0 && l.pruned >= 1 {
            acc.count("break_at_disc_with_replace_count_and_empty_post_followed_by_discardable");
        }
        if l.disc_break && l.replaced > 0 && (1..=l.replaced).any(|j| matches!(hl.get(br.breaks[k] + j), Some(Item::Kern { kind: KernKind::Explicit, .. }))) {
            acc.count("break_at_disc_replacing_an_explicit_kern");
        }
        if l.disc_break && l.replaced > 0 && (1..=l.replaced).any(|j| matches!(hl.get(br.breaks[k] + j), Some(Item::Kern { kind: KernKind::Normal, .. }))) {
            acc.count("break_at_disc_replacing_a_font_kern");
        }
        if l.disc_break && l.replaced >= 2 {
            acc.count("break_at_discretionary_replacing_two_items");
        }
        if (1..4).filter(|o| l.packed.total_stretch[*o] != 0).count() >= 2 || (1..4).filter(|o| l.packed.total_shrink[*o] != 0).count() >= 2 {
            acc.count("line_with_two_different_infinite_orders");
        }
        if (1..4).filter(|o| l.packed.total_shrink[*o] != 0).count() >= 2 && l.packed.natural > l.width {
            acc.count("shrinking_line_with_two_different_infinite_orders");
        }
        if l.packed.total_stretch[1] == 0 && pp.left_skip.st_o == 1 && pp.left_skip.st != 0 {
            acc.count("fil_stretch_of_the_skips_cancels");
        }
        if k + 1 == model.len() && l.items.len() == 1 + usize::from(!pp.left_skip.is_zero_glue()) {
            acc.count("last_line_holds_only_the_skips");
        }
        if l.prune_stopped_at_break {
            acc.count("prune_stopped_at_next_break");
        }
        if l.packed.overfull {
            acc.count("overfull_line");
        }
        if k >= pp.widths.len() && pp.widths.len() > 1 {
            acc.count("line_beyond_width_sequence");
        }
    }
    if nl == 2 {
        acc.count("club_and_widow_on_same_line");
    }
    if nl >= 4 {
        acc.count("four_or_more_lines");
    }
    if hl.len() == 2 {
        acc.count("empty_input_list");
    }
    if hl.len() > 2 && hl[..hl.len() - 2].iter().all(|i| i.discardable()) {
        acc.count("input_list_of_discardables_only");
    }
    if hl.first().map(|i| i.discardable()).unwrap_or(false) && hl.len() > 2 {
        acc.count("input_list_begins_with_discardable");
    }
    for w in hl.windows(2) {
        if let (Item::Kern { kind, .. }, Item::Glue(_)) = (&w[0], &w[1]) {
            match kind {
                KernKind::Accent | KernKind::Math => acc.count("accent_or_math_kern_followed_by_glue_in_broken_list"),
                KernKind::Normal => acc.count("font_kern_followed_by_glue_in_broken_list"),
                KernKind::Explicit => {}
            }
        }
    }
    if hl.iter().any(|i| matches!(i, Item::Box { .. })) {
        acc.count("hbox_vbox_or_rule_in_broken_list");
    }
    if hl.iter().any(|i| matches!(i, Item::Glue(g) if g.is_zero_glue())) {
        acc.count("zero_glue_item_in_list");
    }
    if o2 && br.breaks.iter().any(|b| matches!(hl.get(*b), Some(Item::Kern { w: 0, .. }))) {
        acc.count("break_at_zero_width_kern");
    }
    if pp.left_skip.is_zero_glue() && (pp.left_skip.st_o != 0 || pp.left_skip.sh_o != 0) {
        acc.count("zero_glue_parameter_with_infinite_order");
    }
    if pp.widths.iter().any(|w| *w == 0) {
        acc.count("line_width_zero");
    }
    if pp.widths.iter().any(|w| *w == (1 << 30) - 1) {
        acc.count("line_width_max_dimen");
    }
    // Oracle 2 and oracle 3 are judged independently; a case fails if either does.
    let mut problems: Vec<(String, String, String)> = vec![];
    let model_lines: Vec<Vec<Item>> = model.iter().map(|l| l.items.clone()).collect();
    'o2: {
        if !o2 {
            break 'o2;
        }
        if impl_lines.len() != model.len() || !impl_lines.iter().zip(model.iter()).all(|(g, m)| m.accepts(g)) {
            let adjusted = para::post_line_break(&hl, &br.breaks, &pp, PlbSwitches { prune: false });
            let class = if adjusted.as_ref().map(|a| a.len() == impl_lines.len() && impl_lines.iter().zip(a.iter()).all(|(g, m)| m.accepts(g))).unwrap_or(false) {
                "D10: discardable items after a break stay at the start of the next line (TeX §879 prunes them)"
            } else if impl_lines.len() != model_lines.len() {
                "number of lines differs from the number of breakpoints"
            } else {
                "line contents differ from TeX §880-887"
            };
            problems.push((format!("post_line_break: {class}"), format!("breaks {:?}: {}", br.breaks, show_lines(&model_lines)), show_lines(&impl_lines)));
            break 'o2;
        }
        for (k, ((b, pen), m)) in boxes.iter().zip(model.iter()).enumerate() {
            if b.width.0 as i64 != m.width || b.shift_amount.0 as i64 != m.shift {
                problems.push(("post_line_break: line box width/indent differs from the requested one (TeX §889)".into(), format!("line {k}: width {} shift {}", m.width, m.shift), format!("line {k}: width {} shift {}", b.width.0, b.shift_amount.0)));
                break 'o2;
            }
            if *pen != m.penalty_after.filter(|p| *p != 0) {
                problems.push(("post_line_break: penalty after a line differs from TeX §890".into(), format!("line {k} of {nl}: {:?}", m.penalty_after), format!("line {k} of {nl}: {pen:?}")));
                break 'o2;
            }
            let (mn, md) = m.packed.set.magnitude();
            let (inum, iden) = ((b.glue_ratio.num.0 as i128).abs(), (b.glue_ratio.den.0 as i128).abs());
            let ratio_ok = iden != 0 && inum * md as i128 == mn as i128 * iden;
            let order_ok = mn == 0 || b.glue_order as u8 == m.packed.set.order;
            if (!ratio_ok || !order_ok) && impl_lines[k] == m.items {
                // S3 "every line box has exactly the requested width": the box only has that width if its glue is set
                // by natural width -> requested width at the highest non-zero order (TeX §658-659, §664-665)
                problems.push(("post_line_break: glue set of a line differs from hpack (TeX §658-664)".into(), format!("line {k}: order {} ratio {mn}/{md} (natural {} -> {})", m.packed.set.order, m.packed.natural, m.width), format!("line {k}: order {:?} ratio {}/{}", b.glue_order, b.glue_ratio.num.0, b.glue_ratio.den.0)));
                break 'o2;
            }
        }
    }
    // ---- oracle 3 (uses neither the model's lines nor the reported breakpoints)
    if boxes.iter().enumerate().any(|(k, (b, _))| b.width.0 as i64 != pp.width(k) || b.shift_amount.0 as i64 != pp.indent(k)) {
        problems.push(("geometry: a line box does not have the requested width and indent".into(), format!("widths {:?} indents {:?}", pp.widths, pp.indents), format!("{:?}", boxes.iter().map(|(b, _)| (b.width.0, b.shift_amount.0)).collect::<Vec<_>>())));
    }
    match para::unbreak(&hl, &impl_lines, &pp.left_skip, &pp.right_skip) {
        Err(e) => problems.push(("conservation: the lines do not read back as the list that was broken".into(), format!("list {}", para::show_list(&hl)), format!("{e}; lines {}", show_lines(&impl_lines)))),
        Ok(u) => {
            if !u.starts_with_discardable.is_empty() {
                problems.push(("conservation: a line begins with discardable material".into(), "no line after the first begins with glue, penalty or explicit kern of its own".into(), format!("lines {:?} of {}", u.starts_with_discardable, show_lines(&impl_lines))));
            }
            if u.dropped.iter().any(|d| *d > 0) {
                acc.count("unbreak_dropped_discardables");
            }
        }
    }
    if !problems.is_empty() {
        for (c, _, _) in &problems {
            acc.class(&format!("FAIL {c}"));
        }
        let note = problems.iter().map(|p| p.0.clone()).collect::<Vec<_>>().join(" + ");
        let (_, e, o) = problems.swap_remove(0);
        acc.fail(idx, case(), e, o, note);
        return;
    }
    if impl_lines.iter().zip(model.iter()).any(|(g, m)| *g != m.items) {
        acc.class("note: a line lacks the inert item TeX leaves at the break (emptied discretionary, penalty, zero kern)");
    }
    acc.class(&format!("ok lines={} disc_breaks={} pruned={} pens={:?}", nl.min(8), model.iter().filter(|l| l.disc_break).count().min(3), model.iter().map(|l| l.pruned).sum::<usize>().min(4), model.iter().filter_map(|l| l.penalty_after).take(3).collect::<Vec<_>>()));
}

// -------------------------------------------------------------------------------- text paragraphs

struct Geom {
    name: &'static str,
    /// sp
    widths: Vec<i32>,
    indents: Vec<i32>,
}
fn geoms() -> Vec<Geom> {
    let g = |name, w: &[i32], i: &[i32]| Geom { name, widths: w.iter().map(|x| x * PT).collect(), indents: i.iter().map(|x| x * PT).collect() };
    let mut v = geoms_pt(&g);
    // both ends of the dimension range
    v.push(Geom { name: "0pt", widths: vec![0], indents: vec![] });
    v.push(Geom { name: "16383.99998pt (max_dimen) indent -16383.99998pt", widths: vec![(1 << 30) - 1], indents: vec![-((1 << 30) - 1)] });
    v
}
fn geoms_pt(g: &dyn Fn(&'static str, &[i32], &[i32]) -> Geom) -> Vec<Geom> {
    vec![
        g("36pt", &[36], &[]),
        g("90pt", &[90], &[]),
        g("400pt", &[400], &[]),
        g("20pt", &[20], &[]),
        g("60pt,36pt indent 10pt,0pt", &[60, 36], &[10, 0]),
        g("36pt,90pt,60pt indent 0pt,5pt,-3pt", &[36, 90, 60], &[0, 5, -3]),
        g("90pt indent 3pt,0pt,7pt", &[90], &[3, 0, 7]),
        g("50pt,45pt,40pt indent 7pt", &[50, 45, 40], &[7]),
    ]
}

/// One parameter changed from the plain TeX defaults. `group`: tweaks of one group touch the same parameter.
struct Tweak {
    name: &'static str,
    group: u8,
    f: fn(&mut kp::Params, &mut SkipSet),
}
fn tweaks() -> Vec<Tweak> {
    fn g(w: i32, st: i32, sh: i32) -> Glue {
        Glue { width: Scaled(w * PT), stretch: Scaled(st * PT), shrink: Scaled(sh * PT), ..Default::default() }
    }
    vec![
        Tweak { name: "leftskip=5pt", group: 0, f: |p, _| p.left_skip = g(5, 0, 0) },
        Tweak { name: "leftskip=0pt plus 10pt", group: 0, f: |p, _| p.left_skip = g(0, 10, 0) },
        Tweak { name: "rightskip=0pt plus 20pt", group: 1, f: |p, _| p.right_skip = g(0, 20, 0) },
        Tweak { name: "rightskip=7pt minus 2pt", group: 1, f: |p, _| p.right_skip = g(7, 0, 2) },
        Tweak { name: "parfillskip=0pt", group: 2, f: |p, _| p.par_fill_skip = Glue::ZERO },
        Tweak { name: "parfillskip=10pt plus 1fill", group: 2, f: |p, _| p.par_fill_skip = Glue { width: Scaled(10 * PT), stretch: Scaled(PT), stretch_order: GlueOrder::Fill, ..Default::default() } },
        Tweak { name: "spaceskip=5pt plus 2pt minus 1pt", group: 3, f: |_, s| s.ss = Spec::new(5 * PT as i64, 2 * PT as i64, PT as i64) },
        Tweak { name: "xspaceskip=9pt plus 1pt", group: 4, f: |_, s| s.xs = Spec::new(9 * PT as i64, PT as i64, 0) },
        Tweak { name: "clubpenalty=0", group: 5, f: |p, _| p.club_penalty = 0 },
        Tweak { name: "clubpenalty=10000", group: 5, f: |p, _| p.club_penalty = 10000 },
        Tweak { name: "widowpenalty=77", group: 6, f: |p, _| p.final_widow_penalty = 77 },
        Tweak { name: "brokenpenalty=33", group: 7, f: |p, _| p.broken_penalty = 33 },
        Tweak { name: "interlinepenalty=5", group: 8, f: |p, _| p.inter_line_penalty = 5 },
        Tweak { name: "interlinepenalty=-150", group: 8, f: |p, _| p.inter_line_penalty = -150 },
        Tweak { name: "looseness=1", group: 9, f: |p, _| p.looseness = 1 },
        Tweak { name: "looseness=-1", group: 9, f: |p, _| p.looseness = -1 },
        Tweak { name: "tolerance=10000", group: 10, f: |p, _| p.tolerance = 10000 },
        Tweak { name: "pretolerance=-1", group: 11, f: |p, _| p.pre_tolerance = -1 },
        Tweak { name: "hyphenpenalty=-2000", group: 12, f: |p, _| p.hyphen_penalty = -2000 },
        Tweak { name: "exhyphenpenalty=-2000", group: 13, f: |p, _| p.ex_hyphen_penalty = -2000 },
        Tweak { name: "emergencystretch=20pt", group: 14, f: |p, _| p.emergency_stretch = Scaled(20 * PT) },
        // orders other than fil, totals that cancel, a zero glue with infinite orders, sums of -1 and +1
        Tweak { name: "rightskip=0pt plus 1filll", group: 1, f: |p, _| p.right_skip = Glue { stretch: Scaled(PT), stretch_order: GlueOrder::Filll, ..Default::default() } },
        Tweak {
            name: "leftskip=0pt plus 1fil rightskip=0pt plus -1fil",
            group: 0,
            f: |p, _| {
                p.left_skip = Glue { stretch: Scaled(PT), stretch_order: GlueOrder::Fil, ..Default::default() };
                p.right_skip = Glue { stretch: Scaled(-PT), stretch_order: GlueOrder::Fil, ..Default::default() };
            },
        },
        Tweak { name: "leftskip=0pt plus 0fil minus 0fill (is zero_glue)", group: 0, f: |p, _| p.left_skip = Glue { stretch_order: GlueOrder::Fil, shrink_order: GlueOrder::Fill, ..Default::default() } },
        Tweak { name: "interlinepenalty=-151", group: 8, f: |p, _| p.inter_line_penalty = -151 },
        Tweak { name: "interlinepenalty=-149", group: 8, f: |p, _| p.inter_line_penalty = -149 },
        // two different infinite orders in one line: the highest non-zero one sets the line (TeX §659 / §665)
        Tweak {
            name: "leftskip=0pt plus 1fil rightskip=0pt plus 1fill",
            group: 0,
            f: |p, _| {
                p.left_skip = Glue { stretch: Scaled(PT), stretch_order: GlueOrder::Fil, ..Default::default() };
                p.right_skip = Glue { stretch: Scaled(PT), stretch_order: GlueOrder::Fill, ..Default::default() };
            },
        },
        Tweak { name: "rightskip=0pt plus 1fill (parfillskip plus 1fil)", group: 1, f: |p, _| p.right_skip = Glue { stretch: Scaled(PT), stretch_order: GlueOrder::Fill, ..Default::default() } },
        Tweak {
            name: "leftskip=0pt plus 1filll rightskip=0pt plus 1fil",
            group: 0,
            f: |p, _| {
                p.left_skip = Glue { stretch: Scaled(PT), stretch_order: GlueOrder::Filll, ..Default::default() };
                p.right_skip = Glue { stretch: Scaled(PT), stretch_order: GlueOrder::Fil, ..Default::default() };
            },
        },
        Tweak {
            name: "leftskip=0pt minus 1fill rightskip=0pt minus 1fil",
            group: 0,
            f: |p, _| {
                p.left_skip = Glue { shrink: Scaled(PT), shrink_order: GlueOrder::Fill, ..Default::default() };
                p.right_skip = Glue { shrink: Scaled(PT), shrink_order: GlueOrder::Fil, ..Default::default() };
            },
        },
    ]
}

/// Settings: 0 = defaults, 1..=T single tweaks, then (thorough) pairs from different groups.
fn settings(pairs: bool) -> Vec<Vec<usize>> {
    let tw = tweaks();
    let mut out: Vec<Vec<usize>> = vec![vec![]];
    for i in 0..tw.len() {
        out.push(vec![i]);
    }
    if pairs {
        for i in 0..tw.len() {
            for j in i + 1..tw.len() {
                if tw[i].group != tw[j].group {
                    out.push(vec![i, j]);
                }
            }
        }
    }
    out
}

/// The paragraph text of a word sequence: three-word sequences are extended as in the design probe
/// (`w1 w2 w3 w1w3 w2`), which adds two words glued together and gives up to five lines.
fn para_text(words: &[&str]) -> String {
    if words.len() == 3 {
        format!("{} {} {} {}{} {}", words[0], words[1], words[2], words[0], words[2], words[1])
    } else {
        words.join(" ")
    }
}

fn check_text_para(idx: u64, res: &Res, text: &str, geom: usize, tweak_sel: &[usize], hyph_on: bool, font: u64, acc: &mut Acc) {
    let gs = geoms();
    let tw = tweaks();
    let g = &gs[geom];
    let mut p = kp::Params::plain_tex_defaults();
    let mut s = skip_sets()[0];
    for t in tweak_sel {
        (tw[*t].f)(&mut p, &mut s);
    }
    let names: Vec<&str> = tweak_sel.iter().map(|t| tw[*t].name).collect();
    let case = || json!({"kind": "text", "text": text, "geom": geom, "geom_name": g.name, "tweaks": tweak_sel, "tweak_names": names, "hyph": hyph_on, "font": font});
    let list0 = match catch(|| make_hlist(res, &s, text, font)) {
        Ok(l) => l,
        Err(pn) => {
            acc.eval();
            acc.fail(idx, case(), "a horizontal list", pn.describe(), "add_text panicked");
            return;
        }
    };
    let widths: Vec<Scaled> = g.widths.iter().map(|w| Scaled(*w)).collect();
    let indents: Vec<Scaled> = g.indents.iter().map(|w| Scaled(*w)).collect();
    let spelled: String = text.chars().filter(|c| !para::is_separator(*c)).collect();
    let (fr, hyr) = if font == 2 { (&res.fonts3, &res.hyph3) } else { (&res.fonts, &res.hyph) };
    let hy: &dyn boxworks::Hyphenator = if hyph_on { hyr } else { &NoHyph };
    let in_font = |c: char| fr.width(c, 0).is_some();
    check_para(idx, acc, &case, &list0, fr, hy, hyph_on, &KpSet { p }, &widths, &indents, Some((&spelled, &in_font)));
}

// --------------------------------------------------------------------------------- hand-built lists

fn hglue(w: i32, st: i32, sh: i32) -> H {
    H::Glue(ds::Glue { kind: ds::GlueKind::Normal, value: Glue { width: Scaled(w * PT), stretch: Scaled(st * PT), shrink: Scaled(sh * PT), ..Default::default() } })
}
fn hch(c: char) -> H {
    ds::Char { char: c, font: 0 }.into()
}
fn hpen(p: i32) -> H {
    H::Penalty(ds::Penalty(p))
}
fn hdisc(pre: &str, post: &str, rc: u32) -> H {
    H::Discretionary(ds::Discretionary { pre_break: pre.chars().map(|c| ds::Char { char: c, font: 0 }.into()).collect(), post_break: post.chars().map(|c| ds::Char { char: c, font: 0 }.into()).collect(), replace_count: rc })
}
fn hbox(w: i32) -> H {
    H::HBox(ds::HBox { width: Scaled(w * PT), height: Scaled(PT), list: vec![hch('c')], ..Default::default() })
}
fn hvbox(w: i32) -> H {
    H::VBox(ds::VBox { width: Scaled(w * PT), depth: Scaled(PT), ..Default::default() })
}
fn hrule(w: i32) -> H {
    H::Rule(ds::Rule { width: Scaled(w * PT), height: Scaled(PT), depth: Scaled::ZERO })
}
fn hkern(w: i32, kind: ds::KernKind) -> H {
    ds::Kern { width: Scaled(w * PT), kind }.into()
}

/// What can stand between two boxes. Entries 0..=13 are the C04 menu without adjacent discardables,
/// the rest puts discardable items next to each other or next to a discretionary.
fn slot_menu() -> Vec<(&'static str, Vec<H>)> {
    use ds::KernKind::{Explicit, Normal};
    vec![
        ("glue(2+1-1)", vec![hglue(2, 1, 1)]),
        ("glue(2+3)", vec![hglue(2, 3, 0)]),
        ("glue(1-1)", vec![hglue(1, 0, 1)]),
        ("glue(2)", vec![hglue(2, 0, 0)]),
        ("pen50", vec![hpen(50)]),
        ("pen-50", vec![hpen(-50)]),
        ("pen10000 glue", vec![hpen(10000), hglue(2, 1, 1)]),
        ("pen-10000", vec![hpen(-10000)]),
        ("glue(3+2-2)", vec![hglue(3, 2, 2)]),
        ("disc(-||0)", vec![hdisc("-", "", 0)]),
        ("disc(||0)", vec![hdisc("", "", 0)]),
        ("disc(-|c|0)", vec![hdisc("-", "c", 0)]),
        ("disc(-|b|1) c", vec![hdisc("-", "b", 1), hch('c')]),
        ("nothing", vec![]),
        ("glue glue", vec![hglue(1, 1, 0), hglue(1, 0, 1)]),
        ("kern! glue", vec![hkern(1, Explicit), hglue(2, 1, 1)]),
        ("pen0 glue pen20 glue", vec![hpen(0), hglue(1, 1, 1), hpen(20), hglue(1, 1, 1)]),
        ("glue kern!", vec![hglue(2, 1, 1), hkern(1, Explicit)]),
        ("glue kern", vec![hglue(2, 1, 1), hkern(1, Normal)]),
        ("disc(-||0) glue", vec![hdisc("-", "", 0), hglue(2, 1, 1)]),
        ("disc(-|c|0) glue", vec![hdisc("-", "c", 0), hglue(2, 1, 1)]),
        ("pen-10000 pen-10000", vec![hpen(-10000), hpen(-10000)]),
        ("glue pen-10000", vec![hglue(2, 1, 1), hpen(-10000)]),
        ("pen-10000 glue", vec![hpen(-10000), hglue(2, 1, 1)]),
        // zero-valued items, a second replaced item, both sides of the infinite penalties
        ("glue(0)", vec![hglue(0, 0, 0)]),
        ("kern!(0) glue", vec![hkern(0, Explicit), hglue(2, 1, 1)]),
        ("disc(-|b|2) c c", vec![hdisc("-", "b", 2), hch('c'), hch('c')]),
        ("pen9999", vec![hpen(9999)]),
        ("pen-10001 pen10001", vec![hpen(-10001), hpen(10001)]),
        // every KernKind where the breaker / post_line_break / the pruning distinguish them: only an
        // explicit kern is a breakpoint (before glue) and discardable; accent, math and font kerns never are
        ("kern^ glue", vec![hkern(1, ds::KernKind::Accent), hglue(2, 1, 1)]),
        ("kern~ glue", vec![hkern(1, ds::KernKind::Math), hglue(2, 1, 1)]),
        ("glue kern^", vec![hglue(2, 1, 1), hkern(1, ds::KernKind::Accent)]),
        ("glue kern~", vec![hglue(2, 1, 1), hkern(1, ds::KernKind::Math)]),
        ("kern^", vec![hkern(1, ds::KernKind::Accent)]),
        // boxes other than characters, also inside a discretionary
        ("glue hbox3 rule2 glue", vec![hglue(2, 1, 1), hbox(3), hrule(2), hglue(2, 1, 1)]),
        ("disc([rule1]|[hbox2 kern!1]|1) vbox2", vec![H::Discretionary(ds::Discretionary { pre_break: vec![ds::DiscretionaryElem::Rule(ds::Rule { width: Scaled(PT), height: Scaled(PT), depth: Scaled::ZERO })], post_break: vec![ds::DiscretionaryElem::HBox(ds::HBox { width: Scaled(2 * PT), ..Default::default() }), ds::DiscretionaryElem::Kern(ds::Kern { width: Scaled(PT), kind: ds::KernKind::Explicit })], replace_count: 1 }), hvbox(2)]),
    ]
}
fn head_menu() -> Vec<(&'static str, Vec<H>)> {
    vec![("", vec![]), ("glue", vec![hglue(2, 1, 1)]), ("pen-10000", vec![hpen(-10000)])]
}
fn tail_menu() -> Vec<(&'static str, Vec<H>)> {
    vec![
        ("", vec![]),
        ("glue", vec![hglue(2, 1, 1)]),
        ("pen-10000", vec![hpen(-10000)]),
        ("glue glue", vec![hglue(2, 1, 1), hglue(1, 1, 0)]),
        ("disc(-||0)", vec![hdisc("-", "", 0)]),
        ("kern! glue glue glue", vec![hkern(1, ds::KernKind::Explicit), hglue(2, 1, 1), hglue(1, 1, 0), hglue(0, 0, 0)]),
    ]
}
const HAND_WIDTHS: [&[i32]; 4] = [&[9], &[12], &[7, 12], &[12, 7]];
const HAND_TOLS: [i32; 2] = [200, 10000];
fn hand_params(pv: u64, tol: i32) -> kp::Params {
    let mut p = kp::Params::plain_tex_defaults();
    p.tolerance = tol;
    match pv {
        1 => {
            p.left_skip = Glue { width: Scaled(PT), ..Default::default() };
            p.right_skip = Glue { stretch: Scaled(2 * PT), ..Default::default() };
        }
        2 => {
            p.inter_line_penalty = 3;
            p.club_penalty = 7;
            p.final_widow_penalty = 11;
            p.broken_penalty = 13;
        }
        3 => {
            p.par_fill_skip = Glue::ZERO;
            p.hyphen_penalty = -100;
            p.ex_hyphen_penalty = -100;
        }
        4 => {
            // sums of -1, 0 and +1: first line 7-8, first of two lines 7+1-8, broken middle line 1-8+8…
            p.inter_line_penalty = -8;
            p.club_penalty = 7;
            p.final_widow_penalty = 1;
            p.broken_penalty = 9;
        }
        _ => {}
    }
    p
}
const HAND_PVS: u64 = 5;

#[allow(clippy::too_many_arguments)]
fn check_hand(idx: u64, head: u64, slots: &[u64], boxes: &[u64], tail: u64, wsel: u64, tsel: u64, pv: u64, acc: &mut Acc) {
    let menu = slot_menu();
    let tails = tail_menu();
    let mut list: Vec<H> = head_menu()[head as usize].1.clone();
    for (k, b) in boxes.iter().enumerate() {
        list.push(hch(if *b == 0 { 'a' } else { 'b' }));
        if k + 1 < boxes.len() {
            list.extend(menu[slots[k] as usize].1.iter().cloned());
        }
    }
    list.extend(tails[tail as usize].1.iter().cloned());
    let widths: Vec<Scaled> = HAND_WIDTHS[wsel as usize].iter().map(|w| Scaled(w * PT)).collect();
    let indents: Vec<Scaled> = if pv == 1 { vec![Scaled(2 * PT), Scaled::ZERO] } else { vec![] };
    let p = hand_params(pv, HAND_TOLS[tsel as usize]);
    let case = || {
        json!({"kind": "hand", "head": head, "slots": slots, "boxes": boxes, "tail": tail, "widths": wsel, "tol": tsel, "pv": pv,
        "list": para::show_list(&conv_list(&list, &Toy)), "line_widths_pt": HAND_WIDTHS[wsel as usize], "tolerance": HAND_TOLS[tsel as usize]})
    };
    // collision counter from the case: a legal breakpoint directly followed by a discardable item
    let items = conv_list(&list, &Toy);
    for i in 0..items.len().saturating_sub(1) {
        let legal = match &items[i] {
            Item::Glue(_) => i > 0 && !items[i - 1].discardable(),
            Item::Penalty(p) => *p < 10000,
            Item::Kern { kind, .. } => *kind == KernKind::Explicit && matches!(items[i + 1], Item::Glue(_)),
            Item::Disc { post, .. } => post.is_empty(),
            _ => false,
        };
        if legal && items[i + 1].discardable() {
            acc.count("legal_break_followed_by_discardable");
            break;
        }
    }
    check_para(idx, acc, &case, &list, &Toy, &NoHyph, false, &KpSet { p }, &widths, &indents, None);
}

/// Degenerate lists: every list of 0..=3 items over a six-item alphabet (incl. the empty list, lists
/// of discardables only, a list that is one discretionary).
fn deg_alphabet() -> Vec<(&'static str, H)> {
    vec![("a", hch('a')), ("glue", hglue(2, 1, 1)), ("pen-10000", hpen(-10000)), ("pen0", hpen(0)), ("kern!", hkern(1, ds::KernKind::Explicit)), ("disc(-|c|0)", hdisc("-", "c", 0)), ("kern^", hkern(1, ds::KernKind::Accent))]
}
fn check_deg(idx: u64, sel: &[u64], wsel: u64, tsel: u64, pv: u64, acc: &mut Acc) {
    let al = deg_alphabet();
    let list: Vec<H> = sel.iter().map(|j| al[*j as usize].1.clone()).collect();
    let widths: Vec<Scaled> = HAND_WIDTHS[wsel as usize].iter().map(|w| Scaled(w * PT)).collect();
    let indents: Vec<Scaled> = if pv == 1 { vec![Scaled(2 * PT), Scaled::ZERO] } else { vec![] };
    let p = hand_params(pv, HAND_TOLS[tsel as usize]);
    let case = || json!({"kind": "deg", "items": sel, "widths": wsel, "tol": tsel, "pv": pv, "list": para::show_list(&conv_list(&list, &Toy))});
    check_para(idx, acc, &case, &list, &Toy, &NoHyph, false, &KpSet { p }, &widths, &indents, None);
}

/// Discretionaries with an empty post-break list that replace 1..2 following items (a character, an
/// explicit kern, a font kern), followed by every kind of discardable material or by a character.
fn replace_menu() -> Vec<(&'static str, Vec<H>)> {
    use ds::KernKind::{Explicit, Normal};
    let d = |rc| hdisc("-", "", rc);
    vec![
        ("disc(-||1) c glue", vec![d(1), hch('c'), hglue(2, 1, 1)]),
        ("disc(-||1) c pen50", vec![d(1), hch('c'), hpen(50)]),
        ("disc(-||1) c kern!", vec![d(1), hch('c'), hkern(1, Explicit)]),
        ("disc(-||1) c glue glue", vec![d(1), hch('c'), hglue(2, 1, 1), hglue(1, 1, 0)]),
        ("disc(-||1) c", vec![d(1), hch('c')]),
        ("disc(-||1) kern! glue", vec![d(1), hkern(1, Explicit), hglue(2, 1, 1)]),
        ("disc(-||1) kern!", vec![d(1), hkern(1, Explicit)]),
        ("disc(-||2) kern! c glue", vec![d(2), hkern(1, Explicit), hch('c'), hglue(2, 1, 1)]),
        ("disc(-||2) c kern! pen0", vec![d(2), hch('c'), hkern(1, Explicit), hpen(0)]),
        ("disc(-||1) kern glue", vec![d(1), hkern(1, Normal), hglue(2, 1, 1)]),
        ("disc(-||2) c c kern! glue", vec![d(2), hch('c'), hch('c'), hkern(1, Explicit), hglue(2, 1, 1)]),
        ("disc(|| 1) c glue", vec![hdisc("", "", 1), hch('c'), hglue(2, 1, 1)]),
        ("disc(-||1) kern^ glue", vec![d(1), hkern(1, ds::KernKind::Accent), hglue(2, 1, 1)]),
        ("disc(-||1) kern~ glue", vec![d(1), hkern(1, ds::KernKind::Math), hglue(2, 1, 1)]),
        ("disc(-||2) c kern^ glue", vec![d(2), hch('c'), hkern(1, ds::KernKind::Accent), hglue(2, 1, 1)]),
        ("disc(-||1) rule2 kern~ glue", vec![d(1), hrule(2), hkern(1, ds::KernKind::Math), hglue(2, 1, 1)]),
    ]
}
const REP_OTHERS: [usize; 5] = [0, 7, 13, 11, 14]; // slot_menu: glue, pen-10000, nothing, disc(-|c|0), glue glue
fn check_rep(idx: u64, r: u64, other: u64, order: u64, wsel: u64, tsel: u64, pv: u64, acc: &mut Acc) {
    let rm = replace_menu();
    let sm = slot_menu();
    let rf = &rm[r as usize].1;
    let of = &sm[REP_OTHERS[other as usize]].1;
    let mut list: Vec<H> = vec![hch('a'), hch('a')];
    list.extend((if order == 0 { rf } else { of }).iter().cloned());
    list.push(hch('a'));
    list.extend((if order == 0 { of } else { rf }).iter().cloned());
    list.push(hch('b'));
    let widths: Vec<Scaled> = HAND_WIDTHS[wsel as usize].iter().map(|w| Scaled(w * PT)).collect();
    // parameter sets: 0 defaults, 1 both hyphen penalties -10000 (the break at every discretionary is forced), 2 both -100, 3 = 1 with leftskip
    let mut p = kp::Params::plain_tex_defaults();
    p.tolerance = HAND_TOLS[tsel as usize];
    match pv {
        1 | 3 => {
            p.hyphen_penalty = -10000;
            p.ex_hyphen_penalty = -10000;
            if pv == 3 {
                p.left_skip = Glue { width: Scaled(PT), ..Default::default() };
            }
        }
        2 => {
            p.hyphen_penalty = -100;
            p.ex_hyphen_penalty = -100;
        }
        _ => {}
    }
    let case = || json!({"kind": "rep", "r": r, "other": other, "order": order, "widths": wsel, "tol": tsel, "pv": pv, "list": para::show_list(&conv_list(&list, &Toy)), "line_widths_pt": HAND_WIDTHS[wsel as usize]});
    check_para(idx, acc, &case, &list, &Toy, &NoHyph, false, &KpSet { p }, &widths, &[], None);
}

const VOCAB2: [&str; 6] = ["a", "AV", "end.", "fi", "it:", "--"];
/// Two fonts in one paragraph (no hyphenation: the hyphenator is tied to one font, documented TODO).
fn check_fonts_para(idx: u64, res: &Res, words: &[&str], fonts: &[u32], skip_idx: usize, geom: usize, acc: &mut Acc) {
    let sets = skip_sets();
    let s = &sets[skip_idx];
    let gs = geoms();
    let g = &gs[geom];
    let case = || json!({"kind": "text2", "words": words, "fonts": fonts, "skips": skip_idx, "skips_name": s.name, "geom": geom, "geom_name": g.name});
    let list0 = match catch(|| make_hlist_fonts(res, s, words, fonts)) {
        Ok(l) => l,
        Err(pn) => {
            acc.eval();
            acc.fail(idx, case(), "a horizontal list", pn.describe(), "add_word / add_space panicked");
            return;
        }
    };
    let widths: Vec<Scaled> = g.widths.iter().map(|w| Scaled(*w)).collect();
    let indents: Vec<Scaled> = g.indents.iter().map(|w| Scaled(*w)).collect();
    let spelled = words.concat();
    let all = |_: char| true;
    if list0.iter().any(|h| matches!(h, H::Char(c) if c.font == 1)) && list0.iter().any(|h| matches!(h, H::Char(c) if c.font == 0)) {
        acc.count("paragraph_with_characters_of_two_fonts");
    }
    check_para(idx, acc, &case, &list0, &res.fonts2, &NoHyph, false, &KpSet { p: kp::Params::plain_tex_defaults() }, &widths, &indents, Some((&spelled, &all)));
}
/// (words, fonts) of the idx-th two-font case: word sequences of 1..=3 over VOCAB2, shortest first, each with every font assignment.
fn nth_fonts_case(mut idx: u64) -> (Vec<&'static str>, Vec<u32>) {
    let k = VOCAB2.len() as u64;
    let mut len = 1u32;
    loop {
        let n = k.pow(len) * 2u64.pow(len);
        if idx < n {
            break;
        }
        idx -= n;
        len += 1;
    }
    let fbits = idx % 2u64.pow(len);
    let mut w = idx / 2u64.pow(len);
    let mut words = vec![];
    for _ in 0..len {
        words.push(VOCAB2[(w % k) as usize]);
        w /= k;
    }
    words.reverse();
    let fonts = (0..len).map(|b| ((fbits >> b) & 1) as u32).collect();
    (words, fonts)
}
fn count_fonts_cases(maxlen: u32) -> u64 {
    (1..=maxlen).map(|l| (VOCAB2.len() as u64).pow(l) * 2u64.pow(l)).sum()
}

/// Words with characters outside ASCII: 2-, 3- and 4-byte UTF-8, codes 233, 255 (last table entry) and 256.
/// Plus characters with the Unicode White_Space property that are NOT word separators (U+0085 and
/// U+00A0 are glyph slots of the 8-bit font smfebsl10, U+000B is a glyph slot of cmr10), inside, at
/// the start and at the end of a word.
const VOCAB3: [&str; 12] = ["\u{e9}", "\u{100}.", "a\u{20ac}", "\u{1f600},", "\u{ff}", "a", "a\u{85}b", "A\u{a0}", "x\u{2003}y", "\u{2028}z", "q\u{3000}", "\u{b}a\u{1680}"];
/// Word separators: each ASCII white space kind alone, and a run of all five.
const SEPS: [&str; 6] = [" ", "\t", "\n", "\r", "\x0c", " \t\n\x0c\r"];

// ------------------------------------------------------------------------ model self-validation

struct Golden {
    test: &'static str,
    input: &'static str,
    want: &'static str,
    widths: &'static [&'static str],
    tweak: fn(&mut kp::Params, &mut SkipSet),
}
fn sc(s: &str) -> Scaled {
    Scaled::parse_from_string(s).unwrap()
}
/// boxworks-knuthplass/src/lib.rs `tests!` table: the `typeset:` files were recorded from TeX
/// (TEXCRAFT_VERIFY=tex).
fn goldens() -> Vec<Golden> {
    vec![
        Golden { test: "wolf_hall_2in", input: "wolf_hall_input.txt", want: "wolf_hall_2in_want.txt", widths: &["2in"], tweak: |_, _| {} },
        Golden { test: "wolf_hall_3in", input: "wolf_hall_input.txt", want: "wolf_hall_3in_want.txt", widths: &["3in"], tweak: |_, _| {} },
        Golden { test: "wolf_hall_1in", input: "wolf_hall_input.txt", want: "wolf_hall_1in_want.txt", widths: &["1in"], tweak: |_, _| {} },
        Golden { test: "wolf_hall_variable_widths", input: "wolf_hall_input.txt", want: "wolf_hall_variable_widths_want.txt", widths: &["5in", "4in", "3in", "4in"], tweak: |_, _| {} },
        Golden { test: "wolf_hall_broken_penalty", input: "wolf_hall_input.txt", want: "wolf_hall_broken_penalty_want.txt", widths: &["3in"], tweak: |p, _| p.broken_penalty = 500 },
        Golden { test: "wolf_hall_club_penalty", input: "wolf_hall_input.txt", want: "wolf_hall_club_penalty_want.txt", widths: &["3in"], tweak: |p, _| p.club_penalty = 1000 },
        Golden { test: "wolf_hall_final_widow_penalty", input: "wolf_hall_input.txt", want: "wolf_hall_final_widow_penalty_want.txt", widths: &["3in"], tweak: |p, _| p.final_widow_penalty = 1000 },
        Golden { test: "wolf_hall_inter_line_penalty", input: "wolf_hall_input.txt", want: "wolf_hall_inter_line_penalty_want.txt", widths: &["3in"], tweak: |p, _| p.inter_line_penalty = 100 },
        Golden { test: "wolf_hall_left_skip", input: "wolf_hall_input.txt", want: "wolf_hall_left_skip_want.txt", widths: &["3in"], tweak: |p, _| p.left_skip = Glue { width: sc("20.0pt"), ..Default::default() } },
        Golden { test: "wolf_hall_right_skip", input: "wolf_hall_input.txt", want: "wolf_hall_right_skip_want.txt", widths: &["3in"], tweak: |p, _| p.right_skip = Glue { stretch: sc("20.00003pt"), ..Default::default() } },
        Golden { test: "wolf_hall_par_fill_skip", input: "wolf_hall_input.txt", want: "wolf_hall_par_fill_skip_want.txt", widths: &["3in"], tweak: |p, _| p.par_fill_skip = Glue::ZERO },
        Golden {
            test: "wolf_hall_ragged_right_margin",
            input: "wolf_hall_input.txt",
            want: "wolf_hall_ragged_right_margin.txt",
            widths: &["5in"],
            tweak: |p, s| {
                s.ss = Spec::new(sc("3.33298pt").0 as i64, 0, 0);
                s.xs = Spec::new(sc("5.0pt").0 as i64, 0, 0);
                p.right_skip = Glue { width: sc("20.0pt"), stretch: sc("20.00003pt"), ..Default::default() };
            },
        },
        Golden { test: "wolf_hall_ex_hyphen_penalty", input: "wolf_hall_stone_eyed_input.txt", want: "wolf_hall_ex_hyphen_penalty_want.txt", widths: &["3in"], tweak: |p, _| p.ex_hyphen_penalty = -10000 },
        Golden { test: "farewell_to_arms_looseness_plus_1", input: "farewell_to_arms_input.txt", want: "farewell_to_arms_looseness_plus_1_want.txt", widths: &["3in"], tweak: |p, _| p.looseness = 1 },
        Golden { test: "alice_paragraph_2_10in", input: "alice_paragraph_2.txt", want: "alice_paragraph_2_want.txt", widths: &["10in"], tweak: |_, _| {} },
    ]
}

/// Replays TeX-recorded paragraphs through the *model*: the inter-word glue of TeX's lines must be
/// the space-factor model's, and the model's post_line_break applied to the list re-assembled from
/// TeX's lines (break glue re-inserted from the space-factor model) must give TeX's lines, glue
/// settings and penalties back. Returns (problems, number of lines validated).
fn self_validate(res: &Res) -> (Vec<String>, usize) {
    let mut errs = vec![];
    let mut nlines = 0;
    // (a) boxworks-text/src/lib.rs spacing_tests (TeX-verified): glue after the word, cmr10
    let spacing: [(&str, &str, &str, &str); 20] = [
        ("a;", "3.33333", "2.49998", "0.74074"), // default_1
        ("a,", "3.33333", "2.08331", "0.88889"), // default_2
        ("a.", "4.44444", "4.99997", "0.37036"), // default_3
        ("a:", "4.44444", "3.33331", "0.55556"), // default_4
        ("))", "3.33333", "1.66666", "1.11111"), // adjust_space_factor_zero_zero
        (")A", "3.33333", "1.66498", "1.11221"), // …_zero_small
        (")a", "3.33333", "1.66666", "1.11111"), // …_zero_normal
        (").", "4.44444", "4.99997", "0.37036"), // …_zero_large
        ("A)", "3.33333", "1.66498", "1.11221"), // …_small_zero
        ("AA", "3.33333", "1.66498", "1.11221"), // …_small_small
        ("Aa", "3.33333", "1.66666", "1.11111"), // …_small_normal
        ("A.", "3.33333", "1.66666", "1.11111"), // …_small_large
        ("a)", "3.33333", "1.66666", "1.11111"), // …_normal_zero
        ("aA", "3.33333", "1.66498", "1.11221"), // …_normal_small
        ("aa", "3.33333", "1.66666", "1.11111"), // …_normal_normal
        ("a.", "4.44444", "4.99997", "0.37036"), // …_normal_large
        (".)", "4.44444", "4.99997", "0.37036"), // …_large_zero
        (".A", "3.33333", "1.66498", "1.11221"), // …_large_small
        (".a", "3.33333", "1.66666", "1.11111"), // …_large_normal
        ("..", "4.44444", "4.99997", "0.37036"), // …_large_large
    ];
    for (w, gw, gs, gk) in spacing {
        let t = para::split_words(&format!("{w} a"));
        match para::text_glues(&t, &para::plain_sf_code, &res.font_space, &Spec::ZERO, &Spec::ZERO, SfSwitches::default(), false) {
            Ok((g, _)) if g.len() == 1 => {
                let got = (reftex::arith::print_scaled(g[0].w), reftex::arith::print_scaled(g[0].st), reftex::arith::print_scaled(g[0].sh));
                if got != (gw.to_string(), gs.to_string(), gk.to_string()) {
                    errs.push(format!("space-factor model: after {w:?} TeX has glue({gw}, {gs}, {gk}), the model {got:?}"));
                }
            }
            other => errs.push(format!("space-factor model: {w:?} -> {other:?}")),
        }
    }
    // boxworks-text ragged_right: "a b. c" with \spaceskip=3.33298pt \xspaceskip=5.0pt
    {
        let t = para::split_words("a b. c");
        let ss = Spec::new(sc("3.33298pt").0 as i64, 0, 0);
        let xs = Spec::new(sc("5.0pt").0 as i64, 0, 0);
        let g = para::text_glues(&t, &para::plain_sf_code, &res.font_space, &ss, &xs, SfSwitches::default(), false).map(|x| x.0);
        if g != Ok(vec![ss, xs]) {
            errs.push(format!("space-factor model: ragged_right gives {g:?}"));
        }
    }
    // (b) TeX-recorded paragraphs
    for gd in goldens() {
        let dir = format!("{}/crates/boxworks-knuthplass/testdata", res.repo);
        let (input, want) = match (std::fs::read_to_string(format!("{dir}/{}", gd.input)), std::fs::read_to_string(format!("{dir}/{}", gd.want))) {
            (Ok(a), Ok(b)) => (a, b),
            _ => {
                errs.push(format!("{}: cannot read the test data", gd.test));
                continue;
            }
        };
        let mut p = kp::Params::plain_tex_defaults();
        let mut s = skip_sets()[0];
        (gd.tweak)(&mut p, &mut s);
        let widths: Vec<Scaled> = gd.widths.iter().map(|w| sc(w)).collect();
        let pp = par_params(&p, &widths, &[]);
        let parsed = match boxworks::lang::parse_horizontal_list(&want) {
            Ok(l) => l,
            Err(_) => {
                errs.push(format!("{}: the recorded vlist does not parse", gd.test));
                continue;
            }
        };
        let Some(H::VBox(vb)) = parsed.first() else {
            errs.push(format!("{}: the recorded file is not a vbox", gd.test));
            continue;
        };
        let mut boxes: Vec<(&ds::HBox, Option<i64>)> = vec![];
        for v in &vb.list {
            match v {
                V::HBox(b) => boxes.push((b, None)),
                V::Penalty(pn) => {
                    if let Some(l) = boxes.last_mut() {
                        l.1 = Some(pn.0 as i64)
                    }
                }
                _ => {}
            }
        }
        let words: Vec<String> = input.split_ascii_whitespace().map(|w| w.to_string()).collect();
        let tw = para::Words { leading: false, words, trailing: false };
        let Ok((mglues, _)) = para::text_glues(&tw, &para::plain_sf_code, &res.font_space, &s.ss, &s.xs, SfSwitches::default(), false) else {
            errs.push(format!("{}: arithmetic error in the space-factor model", gd.test));
            continue;
        };
        // re-assemble the list from TeX's lines
        let mut hl: Vec<Item> = vec![];
        let mut breaks = vec![];
        let mut ok = true;
        let tex_lines: Vec<Vec<Item>> = boxes.iter().map(|(b, _)| conv_list(&b.list, &res.fonts)).collect();
        for (k, l) in tex_lines.iter().enumerate() {
            let mut c: &[Item] = l;
            if !pp.left_skip.is_zero_glue() {
                if c.first() != Some(&Item::Glue(pp.left_skip)) {
                    errs.push(format!("{}: TeX's line {k} does not begin with \\leftskip", gd.test));
                    ok = false;
                    break;
                }
                c = &c[1..];
            }
            if c.last() != Some(&Item::Glue(pp.right_skip)) {
                errs.push(format!("{}: TeX's line {k} does not end with \\rightskip", gd.test));
                ok = false;
                break;
            }
            c = &c[..c.len() - 1];
            if k + 1 == tex_lines.len() {
                hl.extend_from_slice(c);
                breaks.push(hl.len());
                break;
            }
            // a line broken at a discretionary ends: disc{} + pre-break characters ending in a hyphen (or nothing)
            let m = c.iter().rposition(|i| matches!(i, Item::Disc { pre, post, replace } if pre.is_empty() && post.is_empty() && *replace == 0));
            let disc_at = m.filter(|m| {
                let tail = &c[m + 1..];
                tail.iter().all(|i| matches!(i, Item::Char { .. } | Item::Lig { .. } | Item::Kern { kind: KernKind::Normal, .. })) && (tail.is_empty() || para::spelling(tail).ends_with('-'))
            });
            match disc_at {
                Some(m) => {
                    hl.extend_from_slice(&c[..m]);
                    breaks.push(hl.len());
                    hl.push(Item::Disc { pre: c[m + 1..].to_vec(), post: vec![], replace: 0 });
                }
                None => {
                    hl.extend_from_slice(c);
                    let gap = glues_of(&hl).len();
                    breaks.push(hl.len());
                    match mglues.get(gap) {
                        Some(g) => hl.push(Item::Glue(*g)),
                        None => {
                            errs.push(format!("{}: more glue items in TeX's lines than word gaps", gd.test));
                            ok = false;
                            break;
                        }
                    }
                }
            }
        }
        if !ok {
            continue;
        }
        // every inter-word glue TeX produced is the model's
        let mut tg = glues_of(&hl);
        let pfs = tg.pop();
        if pfs != Some(spec(&p.par_fill_skip)) {
            errs.push(format!("{}: TeX's last line does not end with \\parfillskip", gd.test));
            continue;
        }
        if tg != mglues {
            let i = tg.iter().zip(mglues.iter()).position(|(a, b)| a != b);
            errs.push(format!("{}: inter-word glue of TeX differs from the space-factor model at gap {i:?} ({} vs {} gaps)", gd.test, tg.len(), mglues.len()));
            continue;
        }
        match para::post_line_break(&hl, &breaks, &pp, PlbSwitches::default()) {
            Err(e) => errs.push(format!("{}: model post_line_break fails on TeX's breakpoints: {e}", gd.test)),
            Ok(model) => {
                for (k, (m, (b, pen))) in model.iter().zip(boxes.iter()).enumerate() {
                    nlines += 1;
                    if m.items != tex_lines[k] {
                        errs.push(format!("{}: line {k}: model {} TeX {}", gd.test, para::show_list(&m.items), para::show_list(&tex_lines[k])));
                        break;
                    }
                    if m.width != b.width.0 as i64 || m.shift != b.shift_amount.0 as i64 {
                        errs.push(format!("{}: line {k}: model width/shift {}/{} TeX {}/{}", gd.test, m.width, m.shift, b.width.0, b.shift_amount.0));
                        break;
                    }
                    if m.penalty_after != *pen {
                        errs.push(format!("{}: after line {k}: model penalty {:?} TeX {pen:?}", gd.test, m.penalty_after));
                        break;
                    }
                    // glue set as printed by TeX §186 (a float there: allow one unit in the last place)
                    let (n, d) = m.packed.set.magnitude();
                    let mv = ((2 * n as i128 * 65536 + d as i128) / (2 * d as i128)) as i64;
                    let tv = (b.glue_ratio.num.0 as i64 * 65536 / b.glue_ratio.den.0.max(1) as i64).abs();
                    if (mv - tv).abs() > 1 || (n != 0 && m.packed.set.order != b.glue_order as u8) {
                        errs.push(format!("{}: line {k}: model glue set {} order {} TeX {} {:?}", gd.test, m.packed.set.printed(), m.packed.set.order, b.glue_ratio, b.glue_order));
                        break;
                    }
                    if m.packed.height != b.height.0 as i64 || m.packed.depth != b.depth.0 as i64 {
                        errs.push(format!("{}: line {k}: model height/depth {}/{} TeX {}/{}", gd.test, m.packed.height, m.packed.depth, b.height.0, b.depth.0));
                        break;
                    }
                }
                if model.len() != boxes.len() {
                    errs.push(format!("{}: model has {} lines, TeX {}", gd.test, model.len(), boxes.len()));
                }
                // and the conservation reading accepts TeX's own lines
                if let Err(e) = para::unbreak(&hl, &tex_lines, &pp.left_skip, &pp.right_skip) {
                    errs.push(format!("{}: unbreak rejects TeX's lines: {e}", gd.test));
                }
            }
        }
    }
    // (the crate's default \sfcode table is subject matter: it is judged by family hlist-default-sfcodes, never here)
    (errs, nlines)
}

// --------------------------------------------------------------------------------------------- main

fn main() {
    let mut ctx = Ctx::new("C12", Level::Exploration);
    ctx.assume("font metrics (width/height/depth of a character, fontdimen 2,3,4,7 of cmr10) are taken from the tfm crate as input data; their correctness is C10/C11/C17");
    ctx.assume("word separators are the ASCII white space characters space, tab, LF, FF, CR (add_text's documented split; plain TeX: catcode 10 / end of line); every other character, including U+000B and the non-ASCII White_Space characters, is word material: present in the list if the font has it, possibly dropped if not, never glue or a word boundary");
    ctx.assume("a text is a non-empty sequence of words separated by blanks, fed in horizontal mode with space factor 1000; a run of blanks is one space token (TeX §344-345); the glue of a trailing space token may be present or absent (line_break §816 removes it)");
    ctx.assume("width/indent sequences follow \\parshape: line i uses entry min(i, len-1); an empty indent sequence means 0");
    ctx.assume("'no line begins with discardable material' is read as TeX §879 implements it: lines after the first; material carried from a discretionary's post-break list and the item at which the line itself is broken are exempt");
    ctx.assume("skip components times space factor/1000 stay below 2^30 sp (beyond that TeX's xn_over_d raises arith_error and the result is undefined)");
    ctx.assume("the glue set of a line box (order and ratio) is judged against an hpack model, as what makes the box have 'exactly the requested width'; math, mark, insertion, adjust and whatsit nodes are not generated (HBox::pack / the breaker hit a documented todo!() on them; the statement quantifies over glue, penalty, kern items and discretionaries); glue items have GlueKind::Normal (no code in the anchored files distinguishes glue kinds, leaders are a TODO)");
    ctx.assume("not stated by the property and therefore recorded as outcome classes only (mutations/C12/AUDIT.md): other item kinds in the list made from text, glue for a space before the first word, what break_line leaves in its in/out list argument, other vertical items between the lines, a zero penalty node, the inert item TeX leaves at a break (emptied discretionary, penalty, zero-width kern)");
    ctx.assume("hyphenation itself (which discretionaries are inserted) is C13/C14; here the list left by the hyphenation pass is the list that was broken, and it must still spell the words");
    ctx.assume("inter-line glue (baselineskip) is not compared: the property does not state it");

    let res = match load_res() {
        Ok(r) => r,
        Err(e) => {
            ctx.machinery_error(e);
            ctx.finish("-");
        }
    };

    if let Some((_fam, case)) = ctx.replay_case() {
        let mut acc = Acc::default();
        TRACE.store(true, std::sync::atomic::Ordering::Relaxed);
        replay(&res, &case, &mut acc);
        ctx.finish_replay(acc);
    }

    let (errs, nlines) = self_validate(&res);
    ctx.extra("model_self_validation", json!({"tex_recorded_spacing_cases": 21, "tex_recorded_paragraphs": goldens().len(), "tex_recorded_lines_reproduced_by_the_model": nlines, "problems": errs}));
    if !errs.is_empty() {
        for e in errs.iter().take(8) {
            ctx.machinery_error(format!("model self-validation: {e}"));
        }
        ctx.finish("-");
    }

    let res = &res;
    // F1: text -> hlist
    {
        let maxw = ctx.pick(3u32, 4u32);
        let nw = count_words(maxw);
        let nsk = 12u64; // skip sets 0..=11 (the two "wide" tables belong to the non-ASCII family)
        let n = nw * SPACINGS * nsk;
        ctx.family("hlist-text", &format!("every sequence of 1..={maxw} words over {VOCAB:?} x {SPACINGS} spacings (single, leading, trailing, double, all) x {nsk} settings of \\spaceskip/\\xspaceskip/\\sfcode"), n, |i, acc| {
            let d = vcore::digits(i, &[nw, SPACINGS, nsk]);
            let words = nth_words(d[0]);
            match spaced(&words, d[1]) {
                Some(text) => {
                    check_hlist(i, res, &text, d[2] as usize, 0, acc);
                    if i % 200_003 == 11 {
                        acc.sample(i, || json!({"text": text, "skips": skip_sets()[d[2] as usize].name}));
                    }
                }
                None => acc.skipped += 1,
            }
        });
    }
    // F2: text paragraphs
    {
        let gs = geoms().len() as u64;
        let run = |ctx: &mut Ctx, name: &str, minw: u32, maxw: u32, st: Vec<Vec<usize>>, what: &str| {
            let lo = if minw <= 1 { 0 } else { count_words(minw - 1) };
            let nw = count_words(maxw) - lo;
            let n = nw * gs * st.len() as u64 * 2;
            let stl = st.len() as u64;
            let st = &st;
            ctx.family(name, &format!("every sequence of {minw}..={maxw} words over the vocabulary (3-word sequences extended to 'w1 w2 w3 w1w3 w2') x {gs} width/indent sequences x {stl} parameter settings ({what}) x hyphenation off/on, cmr10"), n, |i, acc| {
                let d = vcore::digits(i, &[nw, gs, stl, 2]);
                let words = nth_words(lo + d[0]);
                let text = para_text(&words);
                check_text_para(i, res, &text, d[1] as usize, &st[d[2] as usize], d[3] == 1, 0, acc);
                if i % 300_007 == 13 {
                    acc.sample(i, || json!({"text": text, "geom": geoms()[d[1] as usize].name, "tweaks": st[d[2] as usize].iter().map(|t| tweaks()[*t].name).collect::<Vec<_>>(), "hyph": d[3] == 1}));
                }
            });
        };
        let nt = tweaks().len();
        if ctx.quick() {
            run(&mut ctx, "para-text", 1, 3, settings(false), &format!("plain TeX defaults and each of {nt} single changes"));
        } else {
            run(&mut ctx, "para-text-pairs", 1, 3, settings(true), &format!("defaults, each of {nt} single changes, every pair of changes to different parameters"));
            run(&mut ctx, "para-text-4", 4, 4, settings(false), &format!("defaults and each of {nt} single changes"));
            run(&mut ctx, "para-text-5", 5, 5, vec![vec![]], "defaults");
        }
    }
    // F3: hand-built lists
    {
        let nb = ctx.pick(3usize, 4usize);
        let pats: Vec<Vec<u64>> = if nb == 3 { vec![vec![0, 0, 0], vec![0, 1, 0]] } else { vec![vec![0, 0, 0, 0], vec![0, 1, 0, 1]] };
        let m = slot_menu().len() as u64;
        let nt = tail_menu().len() as u64;
        let nh = head_menu().len() as u64;
        let mut rad: Vec<u64> = vec![nh];
        rad.extend(vec![m; nb - 1]);
        rad.extend([pats.len() as u64, nt, HAND_WIDTHS.len() as u64, HAND_TOLS.len() as u64, HAND_PVS]);
        let n = vcore::product(&rad);
        let rad = &rad;
        let pats = &pats;
        ctx.family(
            "para-handbuilt",
            &format!("{nh} list heads (nothing, glue, forced break) x {nb} boxes ({pats:?}) with every choice of {m} inter-box fillers (incl. adjacent glue/penalty/kern, zero glue/kern, discretionaries with pre/post material replacing 0/1/2 items, penalties 9999/10000/10001/-10000/-10001) x {nt} list tails (incl. two and three glues, a discretionary) x line widths {HAND_WIDTHS:?}pt x tolerance {HAND_TOLS:?} x {HAND_PVS} parameter sets, toy font a=5pt b=3pt c=2pt -=1pt"),
            n,
            |i, acc| {
                let d = vcore::digits(i, rad);
                let head = d[0];
                let slots = &d[1..nb];
                let rest = &d[nb..];
                let boxes = &pats[rest[0] as usize];
                check_hand(i, head, slots, boxes, rest[1], rest[2], rest[3], rest[4], acc);
                if i % 100_003 == 17 {
                    acc.sample(i, || json!({"head": head_menu()[head as usize].0, "slots": slots.iter().map(|s| slot_menu()[*s as usize].0).collect::<Vec<_>>(), "boxes": boxes, "tail": tail_menu()[rest[1] as usize].0, "widths_pt": HAND_WIDTHS[rest[2] as usize], "tolerance": HAND_TOLS[rest[3] as usize], "pv": rest[4]}));
                }
            },
        );
    }
    // F4: degenerate lists
    {
        let k = deg_alphabet().len() as u64;
        let nl = vcore::strings_upto(k, 3);
        let rad = [nl, HAND_WIDTHS.len() as u64, HAND_TOLS.len() as u64, HAND_PVS];
        ctx.family("para-degenerate", &format!("every list of 0..=3 items over {:?} x line widths x tolerance x {HAND_PVS} parameter sets", deg_alphabet().iter().map(|a| a.0).collect::<Vec<_>>()), vcore::product(&rad), |i, acc| {
            let d = vcore::digits(i, &rad);
            let sel = vcore::nth_string(k, d[0]);
            check_deg(i, &sel, d[1], d[2], d[3], acc);
            if i == 0 {
                acc.sample(i, || json!({"list": "(empty)", "widths_pt": HAND_WIDTHS[d[1] as usize]}));
            }
        });
    }
    // F4b: discretionaries that replace following items, empty post-break list
    {
        let rad = [replace_menu().len() as u64, REP_OTHERS.len() as u64, 2, HAND_WIDTHS.len() as u64, HAND_TOLS.len() as u64, 4];
        ctx.family("para-disc-replace", &format!("a a [X] a [Y] b with X,Y = one of {:?} and one of (glue, pen-10000, nothing, disc(-|c|0), glue glue) in both orders x line widths x tolerance x (defaults, hyphen penalties -10000, -100, -10000 with leftskip)", replace_menu().iter().map(|r| r.0).collect::<Vec<_>>()), vcore::product(&rad), |i, acc| {
            let d = vcore::digits(i, &rad);
            check_rep(i, d[0], d[1], d[2], d[3], d[4], d[5], acc);
            if i == 300 {
                acc.sample(i, || json!({"replace_filler": replace_menu()[d[0] as usize].0, "pv": d[5]}));
            }
        });
    }
    // F4c: the crate's own default \\sfcode table (Params::plain_tex_defaults / Params::default), judged
    // against the model's plain TeX table: a word ending in every character, then a space
    {
        let mut chars: Vec<char> = (0u32..128).filter_map(char::from_u32).collect();
        chars.extend(['\u{80}', '\u{a0}', '\u{e9}', '\u{ff}', '\u{100}', '\u{2003}']);
        let pre = ["", "a", "A", "a."];
        let suf = ["", ".", "?", "!", ":", ";", ",", ")", "'", "]"];
        let sk = [0u64, 3, 14, 15];
        let rad = [chars.len() as u64, pre.len() as u64, suf.len() as u64, sk.len() as u64];
        let chars = &chars;
        ctx.family("hlist-default-sfcodes", "words <prefix><c><suffix> followed by a space and 'a', c = every character 0..=127 and U+0080, U+00A0, U+00E9, U+00FF, U+0100, U+2003, prefix in ('', a, A, a.), suffix = nothing or one of . ? ! : ; , ) ' ]; sfcode table exactly as Params::plain_tex_defaults() / Params::default() provide it, with and without \\spaceskip/\\xspaceskip; expected glue from the model's own plain TeX table (INITEX + plain.tex)", vcore::product(&rad), |i, acc| {
            let d = vcore::digits(i, &rad);
            let c = chars[d[0] as usize];
            let text = format!("{}{}{} a", pre[d[1] as usize], c, suf[d[2] as usize]);
            if d[2] == 0 && (c as u32) < 128 && !para::is_separator(c) {
                acc.count("word_ends_with_each_ascii_char_under_default_sfcodes");
            }
            if d[2] != 0 && c.is_ascii_uppercase() {
                acc.count("punctuation_after_each_capital_under_default_sfcodes");
            }
            check_hlist(i, res, &text, sk[d[3] as usize] as usize, 0, acc);
            if i == 2600 {
                acc.sample(i, || json!({"text": text}));
            }
        });
    }
    // F5: two fonts, driven through add_word / add_space / activate_font
    {
        let nc = count_fonts_cases(3);
        let sk = [0u64, 1, 3, 10];
        ctx.family("hlist-two-fonts", &format!("every sequence of 1..=3 words over {VOCAB2:?} x every assignment of font 0 (cmr10) / font 1 (cmss8) to the words x 4 skip settings; add_word/add_space/activate_font called directly"), nc * sk.len() as u64, |i, acc| {
            let d = vcore::digits(i, &[nc, sk.len() as u64]);
            let (words, fonts) = nth_fonts_case(d[0]);
            check_hlist_fonts(i, res, &words, &fonts, sk[d[1] as usize] as usize, acc);
            if i == 100 {
                acc.sample(i, || json!({"words": words, "fonts": fonts}));
            }
        });
        let sk = [0u64, 3];
        let gm = [0u64, 1, 5];
        ctx.family("para-two-fonts", "the same word/font sequences x 2 skip settings x 3 width/indent sequences, broken without hyphenation", nc * 6, |i, acc| {
            let d = vcore::digits(i, &[nc, 2, 3]);
            let (words, fonts) = nth_fonts_case(d[0]);
            check_fonts_para(i, res, &words, &fonts, sk[d[1] as usize] as usize, gm[d[2] as usize] as usize, acc);
        });
    }
    // F6: characters outside ASCII, white space that is not a separator, every ASCII separator
    {
        let k = VOCAB3.len() as u64;
        let nw = vcore::strings_upto(k, 3) - 1;
        let sk = [0u64, 3, 12, 13];
        let ns = SEPS.len() as u64;
        let text_of = move |j: u64, sep: u64, ends: u64| -> String {
            let w: Vec<&'static str> = vcore::nth_string(k, j + 1).into_iter().map(|x| VOCAB3[x as usize]).collect();
            let t = w.join(SEPS[sep as usize]);
            if ends == 1 {
                format!("{0}{t}{0}", SEPS[sep as usize])
            } else {
                t
            }
        };
        ctx.family(
            "hlist-text-wide",
            &format!("every sequence of 1..=3 words over {VOCAB3:?} (2-, 3-, 4-byte characters; codes 233, 255, 256; White_Space characters that are not separators) x {ns} separators (each ASCII white space kind, a run of all) x (bare, separator at both ends) x fonts smfebsl10 (has 0x85, 0xA0, 0xE9) / cmr10 (has 0x0B) x 4 skip/sfcode settings"),
            nw * ns * 2 * 2 * 4,
            |i, acc| {
                let d = vcore::digits(i, &[nw, ns, 2, 2, 4]);
                let text = text_of(d[0], d[1], d[2]);
                let nwords = para::split_words(&text).words.len();
                if nwords >= 2 && d[1] == ns - 1 {
                    acc.count("text_separated_by_each_ascii_white_space_kind");
                }
                check_hlist(i, res, &text, sk[d[4] as usize] as usize, if d[3] == 0 { 2 } else { 0 }, acc);
                if i % 50_021 == 40 {
                    acc.sample(i, || json!({"text": text}));
                }
            },
        );
        let gm = [0u64, 3, 1];
        let st: [&[usize]; 3] = [&[], &[6], &[18]];
        ctx.family("para-text-wide", "the same words x separators (space, the run of all five) x widths 36pt/20pt/90pt x (defaults, spaceskip, hyphenpenalty=-2000) x hyphenation off/on x fonts smfebsl10 / cmr10", nw * 2 * 3 * 3 * 2 * 2, |i, acc| {
            let d = vcore::digits(i, &[nw, 2, 3, 3, 2, 2]);
            let text = text_of(d[0], if d[1] == 0 { 0 } else { ns - 1 }, 0);
            check_text_para(i, res, &text, gm[d[2] as usize] as usize, st[d[3] as usize], d[4] == 1, if d[5] == 0 { 2 } else { 0 }, acc);
        });
    }
    for (c, m) in [
        ("space_after_sf_1", "a space follows a space factor of 1 (smallest positive sfcode)"),
        ("space_after_sf_1001", "a space follows a space factor of 1001"),
        ("space_after_sf_1999", "a space follows a space factor of 1999 (just below the >= 2000 tests)"),
        ("space_after_sf_2001", "a space follows a space factor of 2001"),
        ("space_after_sf_32767", "a space follows the largest space factor"),
        ("zero_glue_parameter_with_infinite_order", "a glue parameter whose three dimensions are 0 but whose orders are not normal (still zero_glue)"),
        ("space_glue_from_second_font", "a space is processed while font 1 is current"),
        ("font_switch_between_words", "the current font changes between two words"),
        ("paragraph_with_characters_of_two_fonts", "a broken paragraph holds characters of both fonts"),
        ("text_with_2_byte_character", "text with a 2-byte UTF-8 character"),
        ("text_with_3_byte_character", "text with a 3-byte UTF-8 character"),
        ("text_with_4_byte_character", "text with a 4-byte UTF-8 character"),
        ("word_contains_non_ascii_white_space_char_present_in_font", "a word holds U+0085 or U+00A0 and the font has that slot: the character must appear, it is not a separator"),
        ("word_contains_non_ascii_white_space_char_absent_from_font", "a word holds U+1680/U+2003/U+2028/U+3000 (not in the font): may be dropped, never a word boundary"),
        ("word_contains_vertical_tab_present_in_font", "a word holds U+000B (not ASCII white space for add_text) and the font has slot 0x0B"),
        ("word_begins_with_non_separator_white_space", "a word begins with a White_Space character that is not a separator (first-character test of add_text)"),
        ("text_separated_by_each_ascii_white_space_kind", "the words are separated by a run holding space, tab, line feed, form feed and carriage return"),
        ("word_ends_with_each_ascii_char_under_default_sfcodes", "a word ends in a given ASCII character and a space follows, sfcodes as the crate's defaults provide them (one count per character x prefix x setting)"),
        ("punctuation_after_each_capital_under_default_sfcodes", "a punctuation character directly follows a capital letter under the crate's default sfcodes"),
        ("break_at_disc_with_replace_count_and_empty_post_followed_by_discardable", "a chosen break is a discretionary with replace count > 0 and empty post-break list, and discardable items follow the replaced items"),
        ("break_at_disc_replacing_an_explicit_kern", "a chosen break is a discretionary whose replaced items include an explicit kern"),
        ("break_at_disc_replacing_a_font_kern", "a chosen break is a discretionary whose replaced items include a font kern"),
        ("accent_or_math_kern_followed_by_glue_in_broken_list", "the list holds an accent or math kern directly followed by glue (not a breakpoint, not removable)"),
        ("font_kern_followed_by_glue_in_broken_list", "the list holds a font kern directly followed by glue"),
        ("hbox_vbox_or_rule_in_broken_list", "the list holds an hbox, vbox or rule item"),
        ("line_with_two_different_infinite_orders", "a line whose glue has non-zero totals at two different infinite orders (stretch or shrink)"),
        ("shrinking_line_with_two_different_infinite_orders", "an over-long line whose shrink has non-zero totals at two different infinite orders"),
        ("characters_255_and_256", "text with the characters 255 (last sfcode entry) and 256 (first without one)"),
        ("penalty_sum_negative", "the penalties of §890 add up to a negative value"),
        ("penalty_sum_plus_one", "the penalties of §890 add up to +1"),
        ("penalty_sum_minus_one", "the penalties of §890 add up to -1"),
        ("break_at_discretionary_replacing_two_items", "a chosen break is a discretionary with replace count >= 2"),
        ("fil_stretch_of_the_skips_cancels", "\\leftskip and \\rightskip have fil stretch that cancels to exactly zero in a line"),
        ("last_line_holds_only_the_skips", "the last line holds nothing but the skips (everything after the last break was pruned)"),
        ("empty_input_list", "the list to be broken is empty"),
        ("input_list_of_discardables_only", "the list to be broken holds discardable items only"),
        ("input_list_begins_with_discardable", "the list to be broken begins with a discardable item"),
        ("zero_glue_item_in_list", "the list holds a glue item that is exactly zero"),
        ("break_at_zero_width_kern", "a chosen break is an explicit kern of width 0"),
        ("line_width_zero", "a requested line width of 0pt"),
        ("line_width_max_dimen", "a requested line width of 2^30-1 sp"),
    ] {
        ctx.require(c, m);
    }
    ctx.require("spaceskip_with_sf_not_1000", "\\spaceskip is set and a space follows a space factor other than 1000 (and \\xspaceskip does not take over)");
    ctx.require("xspaceskip_with_sf_ge_2000", "\\xspaceskip is set and a space follows a space factor >= 2000");
    ctx.require("sf_below_1000", "a space follows a space factor below 1000");
    ctx.require("sf_capped_before_space", "the last character before a space has an sfcode above 1000 and follows a space factor below 1000 (capped at 1000, §1034)");
    ctx.require("sfcode_zero_keeps_factor_before_space", "the last character before a space has sfcode 0 and the space factor it keeps is not 1000");
    ctx.require("xspaceskip_with_sf_exactly_2000", "\\xspaceskip is set and a space follows a space factor of exactly 2000");
    ctx.require("extra_space_added", "a space follows a space factor >= 2000 while \\xspaceskip is zero (extra_space is added, §1044)");
    ctx.require("legal_break_followed_by_discardable", "the list has a legal breakpoint directly followed by a discardable item");
    ctx.require("pruned_after_break", "TeX §879 deletes at least one discardable item after a chosen break");
    ctx.require("post_break_carried_over", "a line starts with the post-break list of the discretionary the previous line ended at");
    ctx.require("break_at_discretionary_with_replace_count", "a chosen break is a discretionary that replaces following items");
    ctx.require("penalty_sum_zero_no_node", "the penalties of §890 add up to zero, so no penalty node is appended");
    ctx.require("club_and_widow_on_same_line", "a two-line paragraph: club and widow penalty on the same line");
    ctx.require("four_or_more_lines", "a paragraph with a line that is neither first, last nor last but one");
    ctx.require("line_beyond_width_sequence", "a line whose index is past the end of a width sequence of length >= 2");
    ctx.require("overfull_line", "a line that is overfull (glue set to full shrink)");
    ctx.finish("hlist: every word sequence x spacing x skip setting (non-trivial = some space follows a space factor other than 1000); paragraphs: every text/list x geometry x parameter setting x hyphenation (non-trivial = the paragraph has at least two lines); all enumerated, nothing sampled; cases are distinct by construction (spacing variants that repeat an earlier text are skipped)");
}

fn replay(res: &Res, case: &Value, acc: &mut Acc) {
    let arr = |v: &Value| -> Vec<u64> { v.as_array().map(|a| a.iter().filter_map(|x| x.as_u64()).collect()).unwrap_or_default() };
    match case["kind"].as_str() {
        Some("hlist") => check_hlist(0, res, case["text"].as_str().unwrap_or(""), case["skips"].as_u64().unwrap_or(0) as usize, case["font"].as_u64().unwrap_or(0), acc),
        Some("text") => {
            let tw: Vec<usize> = arr(&case["tweaks"]).into_iter().map(|x| x as usize).collect();
            check_text_para(0, res, case["text"].as_str().unwrap_or(""), case["geom"].as_u64().unwrap_or(0) as usize, &tw, case["hyph"].as_bool().unwrap_or(false), case["font"].as_u64().unwrap_or(0), acc)
        }
        Some("hlist2") | Some("text2") => {
            let words: Vec<String> = case["words"].as_array().map(|a| a.iter().filter_map(|x| x.as_str().map(|s| s.to_string())).collect()).unwrap_or_default();
            let words: Vec<&str> = words.iter().map(|s| s.as_str()).collect();
            let fonts: Vec<u32> = arr(&case["fonts"]).into_iter().map(|x| x as u32).collect();
            let sk = case["skips"].as_u64().unwrap_or(0) as usize;
            if case["kind"] == "hlist2" {
                check_hlist_fonts(0, res, &words, &fonts, sk, acc)
            } else {
                check_fonts_para(0, res, &words, &fonts, sk, case["geom"].as_u64().unwrap_or(0) as usize, acc)
            }
        }
        Some("rep") => check_rep(0, case["r"].as_u64().unwrap_or(0), case["other"].as_u64().unwrap_or(0), case["order"].as_u64().unwrap_or(0), case["widths"].as_u64().unwrap_or(0), case["tol"].as_u64().unwrap_or(0), case["pv"].as_u64().unwrap_or(0), acc),
        Some("deg") => check_deg(0, &arr(&case["items"]), case["widths"].as_u64().unwrap_or(0), case["tol"].as_u64().unwrap_or(0), case["pv"].as_u64().unwrap_or(0), acc),
        Some("hand") => check_hand(0, case["head"].as_u64().unwrap_or(0), &arr(&case["slots"]), &arr(&case["boxes"]), case["tail"].as_u64().unwrap_or(0), case["widths"].as_u64().unwrap_or(0), case["tol"].as_u64().unwrap_or(0), case["pv"].as_u64().unwrap_or(0), acc),
        _ => {
            eprintln!("replay: unknown case kind");
            std::process::exit(2);
        }
    }
}
