//! C12 — not built yet.
fn main() {
    eprintln!("c12: check not built yet");
    std::process::exit(2);
}
