//! vcore: the shared machinery of the texcraft property checks.
//!
//! * `Ctx`    – one run of one check: tier/seed/replay arguments, families, evidence file,
//!              VIOLATION / KNOWN-FINDING lines, exit status (0 held, 1 violation, 2 machinery).
//! * `Acc`    – a mergeable accumulator (evaluations, non-trivial cases, collision counters,
//!              outcome classes, failing cases ordered by enumeration index, known-finding hits).
//! * `par`    – deterministic sharding of an index space over the cores.
//! * `pan`    – panic capture with call-site identity (file, line, text of the source line).
//! * `xs`     – level-synchronous explicit-state search over histories of a replayed real object.
//! * `known`  – the read-only known-findings file.
//!
//! Every verdict is produced by complete enumeration of an index space; nothing here samples.

use serde_json::{json, Value};
use std::collections::BTreeMap;
use std::path::PathBuf;
use std::time::Instant;

pub mod known;
pub mod pan;
pub mod par;
pub mod xs;

pub use pan::{catch, Panic};

#[derive(Clone, Copy, PartialEq, Eq, Debug)]
pub enum Tier {
    Quick,
    Thorough,
}

#[derive(Clone, Copy, PartialEq, Eq, Debug)]
pub enum Level {
    Exploration,
    FaultEnumeration,
    ModelChecking,
}
impl Level {
    fn as_str(self) -> &'static str {
        match self {
            Level::Exploration => "exploration",
            Level::FaultEnumeration => "fault_enumeration",
            Level::ModelChecking => "model_checking",
        }
    }
}

/// One failing case. `idx` is the position of the case in the family's enumeration order, so the
/// reported violation is the smallest one whatever the thread schedule was.
#[derive(Clone, Debug)]
pub struct Fail {
    pub idx: u64,
    pub case: Value,
    pub expected: String,
    pub observed: String,
    pub note: String,
}

const KEEP_FAILS: usize = 8; // replay files written per run
const KEEP_PER_CLASS: usize = 2; // failing cases retained per failure class (class = start of `note`)
const KEEP_CLASSES_FAIL: usize = 16;
const KEEP_SAMPLES: usize = 3;
const KEEP_CLASSES: usize = 4000;

#[derive(Default, Clone, Debug)]
pub struct Acc {
    pub evals: u64,
    pub nontrivial: u64,
    pub counters: BTreeMap<&'static str, u64>,
    pub classes: BTreeMap<String, u64>,
    pub fails: Vec<Fail>,
    pub fail_count: u64,
    /// finding id -> (cases explained, smallest idx, witness)
    pub known: BTreeMap<String, (u64, u64, Value)>,
    pub samples: Vec<(u64, Value)>,
    pub states: u64,
    pub transitions: u64,
    pub traces_validated: u64,
    pub cutoffs: u64,
    pub skipped: u64,
}

impl Acc {
    #[inline]
    pub fn eval(&mut self) {
        self.evals += 1;
    }
    #[inline]
    pub fn nontrivial(&mut self) {
        self.nontrivial += 1;
    }
    #[inline]
    pub fn count(&mut self, name: &'static str) {
        *self.counters.entry(name).or_insert(0) += 1;
    }
    #[inline]
    pub fn count_n(&mut self, name: &'static str, n: u64) {
        *self.counters.entry(name).or_insert(0) += n;
    }
    pub fn class(&mut self, c: &str) {
        if let Some(v) = self.classes.get_mut(c) {
            *v += 1;
        } else if self.classes.len() < KEEP_CLASSES {
            self.classes.insert(c.to_string(), 1);
        } else {
            *self.classes.entry("<more classes>".into()).or_insert(0) += 1;
        }
    }
    pub fn sample(&mut self, idx: u64, f: impl FnOnce() -> Value) {
        if self.samples.len() < KEEP_SAMPLES {
            self.samples.push((idx, f()));
        }
    }
    pub fn fail(&mut self, idx: u64, case: Value, expected: impl Into<String>, observed: impl Into<String>, note: impl Into<String>) {
        self.fail_count += 1;
        let f = Fail { idx, case, expected: expected.into(), observed: observed.into(), note: note.into() };
        let pos = self.fails.iter().position(|x| x.idx > idx).unwrap_or(self.fails.len());
        self.fails.insert(pos, f);
        Self::prune(&mut self.fails);
    }
    fn class_of(note: &str) -> String {
        note.chars().take(40).collect()
    }
    /// Keep the smallest cases of every failure class (so that one frequent class cannot hide the
    /// others), classes ordered by their first occurrence; `fails` stays sorted by idx.
    fn prune(fails: &mut Vec<Fail>) {
        if fails.len() <= KEEP_PER_CLASS {
            return;
        }
        let mut seen: Vec<(String, usize)> = vec![];
        let mut keep = vec![false; fails.len()];
        for (i, f) in fails.iter().enumerate() {
            let c = Self::class_of(&f.note);
            match seen.iter_mut().find(|(k, _)| *k == c) {
                Some((_, n)) => {
                    if *n < KEEP_PER_CLASS {
                        *n += 1;
                        keep[i] = true;
                    }
                }
                None => {
                    if seen.len() < KEEP_CLASSES_FAIL {
                        seen.push((c, 1));
                        keep[i] = true;
                    }
                }
            }
        }
        let mut i = 0;
        fails.retain(|_| {
            i += 1;
            keep[i - 1]
        });
    }
    /// The case failed, but a listed known finding's predicate matches the case and the observed
    /// behaviour equals that finding's adjusted expectation. Whether the finding is really listed in
    /// known_findings.json is decided in `Ctx::finish` (unlisted => VIOLATION).
    pub fn known(&mut self, finding: &str, idx: u64, witness: impl FnOnce() -> Value) {
        match self.known.get_mut(finding) {
            Some(e) => {
                e.0 += 1;
                if idx < e.1 {
                    e.1 = idx;
                    e.2 = witness();
                }
            }
            None => {
                self.known.insert(finding.to_string(), (1, idx, witness()));
            }
        }
    }
    pub fn merge(&mut self, o: Acc) {
        self.evals += o.evals;
        self.nontrivial += o.nontrivial;
        for (k, v) in o.counters {
            *self.counters.entry(k).or_insert(0) += v;
        }
        for (k, v) in o.classes {
            if self.classes.contains_key(&k) || self.classes.len() < KEEP_CLASSES {
                *self.classes.entry(k).or_insert(0) += v;
            } else {
                *self.classes.entry("<more classes>".into()).or_insert(0) += v;
            }
        }
        self.fail_count += o.fail_count;
        self.fails.extend(o.fails);
        self.fails.sort_by_key(|f| f.idx);
        Self::prune(&mut self.fails);
        for (k, (n, i, w)) in o.known {
            match self.known.get_mut(&k) {
                Some(e) => {
                    e.0 += n;
                    if i < e.1 {
                        e.1 = i;
                        e.2 = w;
                    }
                }
                None => {
                    self.known.insert(k, (n, i, w));
                }
            }
        }
        self.samples.extend(o.samples);
        self.samples.sort_by_key(|s| s.0);
        self.samples.truncate(KEEP_SAMPLES);
        self.states += o.states;
        self.transitions += o.transitions;
        self.traces_validated += o.traces_validated;
        self.cutoffs += o.cutoffs;
        self.skipped += o.skipped;
    }
}

pub struct FamilyReport {
    pub name: String,
    pub bounds: String,
    pub exhaustive: bool,
    pub cap_note: Option<String>,
    pub wall_s: f64,
    pub acc: Acc,
}

pub struct Ctx {
    pub id: String,
    pub level: Level,
    pub tier: Tier,
    pub seed: u64,
    pub replay: Option<PathBuf>,
    pub only_family: Option<String>,
    pub threads: usize,
    start: Instant,
    wall_cap_s: f64,
    out_dir: PathBuf,
    families: Vec<FamilyReport>,
    required: Vec<(&'static str, String)>,
    assumptions: Vec<String>,
    machinery: Vec<String>,
    extra: BTreeMap<String, Value>,
}

impl Ctx {
    pub fn new(id: &str, level: Level) -> Ctx {
        pan::install_hook();
        let args: Vec<String> = std::env::args().collect();
        let mut tier = match std::env::var("VERIF_TIER").ok().as_deref() {
            Some("thorough") => Tier::Thorough,
            _ => Tier::Quick,
        };
        let mut replay = None;
        let mut only_family = None;
        let mut i = 1;
        while i < args.len() {
            match args[i].as_str() {
                "--tier" => {
                    i += 1;
                    tier = if args.get(i).map(|s| s.as_str()) == Some("thorough") { Tier::Thorough } else { Tier::Quick };
                }
                "--replay" => {
                    i += 1;
                    replay = args.get(i).map(PathBuf::from);
                }
                "--family" => {
                    i += 1;
                    only_family = args.get(i).cloned();
                }
                _ => {}
            }
            i += 1;
        }
        let seed = std::env::var("VERIF_SEED").ok().and_then(|s| s.parse().ok()).unwrap_or(0);
        let threads = std::env::var("VERIF_THREADS").ok().and_then(|s| s.parse().ok()).unwrap_or_else(|| std::thread::available_parallelism().map(|n| n.get()).unwrap_or(8));
        let wall_cap_s = std::env::var("VERIF_WALL_CAP_S").ok().and_then(|s| s.parse().ok()).unwrap_or(if tier == Tier::Quick { 900.0 } else { 8.0 * 3600.0 });
        let out_dir = PathBuf::from(std::env::var("VERIF_OUT").unwrap_or_else(|_| "/verif".into()));
        Ctx { id: id.into(), level, tier, seed, replay, only_family, threads, start: Instant::now(), wall_cap_s, out_dir, families: vec![], required: vec![], assumptions: vec![], machinery: vec![], extra: BTreeMap::new() }
    }
    pub fn quick(&self) -> bool {
        self.tier == Tier::Quick
    }
    pub fn pick<T>(&self, quick: T, thorough: T) -> T {
        if self.quick() {
            quick
        } else {
            thorough
        }
    }
    pub fn wants(&self, family: &str) -> bool {
        self.only_family.as_deref().map(|f| f == family).unwrap_or(true)
    }
    pub fn elapsed(&self) -> f64 {
        self.start.elapsed().as_secs_f64()
    }
    /// Seconds left before the engine-internal wall cap. A cap hit is reported, never a verdict.
    pub fn remaining_s(&self) -> f64 {
        (self.wall_cap_s - self.elapsed()).max(0.0)
    }
    pub fn assume(&mut self, s: &str) {
        self.assumptions.push(s.to_string());
    }
    pub fn machinery_error(&mut self, s: impl Into<String>) {
        let s = s.into();
        eprintln!("MACHINERY-ERROR {}: {}", self.id, s);
        self.machinery.push(s);
    }
    /// Vacuity guard: the named collision counter must be non-zero over the whole run.
    pub fn require(&mut self, counter: &'static str, meaning: &str) {
        self.required.push((counter, meaning.to_string()));
    }
    pub fn extra(&mut self, key: &str, v: Value) {
        self.extra.insert(key.to_string(), v);
    }

    /// Enumerate indices 0..n in parallel; `f(idx, acc)` handles one case.
    pub fn family<F>(&mut self, name: &str, bounds: &str, n: u64, f: F)
    where
        F: Fn(u64, &mut Acc) + Sync,
    {
        self.family_ranges(name, bounds, n, |r, acc| {
            for i in r {
                f(i, acc);
            }
        })
    }
    /// Enumerate 0..n in parallel in contiguous ranges; `f(range, acc)` handles all cases of a range
    /// (for enumerators that are cheaper to advance than to index).
    pub fn family_ranges<F>(&mut self, name: &str, bounds: &str, n: u64, f: F)
    where
        F: Fn(std::ops::Range<u64>, &mut Acc) + Sync,
    {
        if !self.wants(name) {
            return;
        }
        let t = Instant::now();
        let deadline = Instant::now() + std::time::Duration::from_secs_f64(self.remaining_s());
        let (acc, done, total) = par::run(n, self.threads, deadline, &f);
        let exhaustive = done == total;
        let cap_note = if exhaustive { None } else { Some(format!("wall cap hit: {done} of {total} chunks of the index space 0..{n} were completed; chunks are contiguous index ranges taken in increasing order")) };
        self.push_family(name, bounds, exhaustive, cap_note, t.elapsed().as_secs_f64(), acc);
    }
    pub fn push_family(&mut self, name: &str, bounds: &str, exhaustive: bool, cap_note: Option<String>, wall_s: f64, acc: Acc) {
        eprintln!(
            "[{}] family {:<28} evals={:<11} nontrivial={:<10} classes={:<5} fails={} known={} cutoffs={} {:.1}s{}",
            self.id,
            name,
            acc.evals,
            acc.nontrivial,
            acc.classes.len(),
            acc.fail_count,
            acc.known.values().map(|v| v.0).sum::<u64>(),
            acc.cutoffs,
            wall_s,
            if exhaustive { "" } else { "  CAPPED" }
        );
        self.families.push(FamilyReport { name: name.into(), bounds: bounds.into(), exhaustive, cap_note, wall_s, acc });
    }

    /// Write evidence, replay files, print the verdict lines and exit.
    pub fn finish(mut self, rule: &str) -> ! {
        let kf = known::KnownFindings::load(&self.out_dir);
        let mut total = Acc::default();
        let mut fam_json = vec![];
        let mut all_exhaustive = true;
        let mut caps = vec![];
        let mut fails: Vec<(String, Fail)> = vec![];
        let mut known_hits: BTreeMap<String, (u64, String, Value)> = BTreeMap::new();
        for fam in &self.families {
            all_exhaustive &= fam.exhaustive;
            if let Some(c) = &fam.cap_note {
                caps.push(format!("{}: {}", fam.name, c));
            }
            fam_json.push(json!({
                "name": fam.name, "bounds": fam.bounds, "exhaustive": fam.exhaustive, "wall_s": (fam.wall_s*100.0).round()/100.0,
                "evaluations": fam.acc.evals, "nontrivial": fam.acc.nontrivial, "outcome_classes": fam.acc.classes.len(),
                "states": fam.acc.states, "transitions": fam.acc.transitions,
                "failures": fam.acc.fail_count, "cutoffs": fam.acc.cutoffs, "skipped": fam.acc.skipped,
                "counters": fam.acc.counters,
            }));
            for f in &fam.acc.fails {
                fails.push((fam.name.clone(), f.clone()));
            }
            for (k, (n, _i, w)) in &fam.acc.known {
                let e = known_hits.entry(k.clone()).or_insert((0, fam.name.clone(), w.clone()));
                e.0 += n;
            }
            total.merge(fam.acc.clone());
        }
        // vacuity guards
        if self.only_family.is_none() && self.replay.is_none() {
            for (c, meaning) in &self.required {
                if total.counters.get(c).copied().unwrap_or(0) == 0 {
                    self.machinery.push(format!("vacuity guard: collision counter '{c}' ({meaning}) is zero"));
                }
            }
            if total.evals == 0 {
                self.machinery.push("no case was evaluated".into());
            }
        }
        // known findings: only findings listed in the committed file explain anything
        let mut violations = total.fail_count;
        let mut lines = vec![];
        let mut known_json = serde_json::Map::new();
        let mut unlisted: Vec<(String, u64, String, Value)> = vec![];
        for (fid, (n, fam, w)) in &known_hits {
            match kf.lookup(&self.id, fid) {
                Some(what) => {
                    lines.push(format!("KNOWN-FINDING: property={} {} {} [{} case(s) in this run, first: {}]", self.id, fid, what, n, compact(w, 300)));
                    known_json.insert(fid.clone(), json!({"cases": n, "first": w}));
                }
                None => unlisted.push((fid.clone(), *n, fam.clone(), w.clone())),
            }
        }
        let replay_dir = self.out_dir.join("replays");
        let _ = std::fs::create_dir_all(&replay_dir);
        let mut nrep = 0;
        let mut write_replay = |family: &str, case: &Value, expected: &str, observed: &str, note: &str, idx: u64, id: &str| -> String {
            nrep += 1;
            let p = replay_dir.join(format!("{}-{}.json", id, nrep));
            let v = json!({"property": id, "family": family, "idx": idx, "case": case, "expected": expected, "observed": observed, "note": note,
                "replay": format!("./check {} --replay {}", id, p.display())});
            let _ = std::fs::write(&p, serde_json::to_string_pretty(&v).unwrap());
            p.display().to_string()
        };
        // remove stale replay files of this property
        if let Ok(rd) = std::fs::read_dir(&replay_dir) {
            for e in rd.flatten() {
                let n = e.file_name().to_string_lossy().to_string();
                if n.starts_with(&format!("{}-", self.id)) && self.replay.is_none() {
                    let _ = std::fs::remove_file(e.path());
                }
            }
        }
        for (fid, n, fam, w) in &unlisted {
            violations += n;
            let p = write_replay(fam, w, "finding is not listed in known_findings.json", "", &format!("case class {fid}"), 0, &self.id);
            lines.push(format!("VIOLATION property={} replay={}", self.id, p));
        }
        // one witness per (family, failure class) first, then the remaining smallest ones
        fails.sort_by_key(|f| f.1.idx);
        let mut chosen: Vec<usize> = vec![];
        let mut seen_classes: Vec<(String, String)> = vec![];
        for (i, (fam, f)) in fails.iter().enumerate() {
            let key = (fam.clone(), Acc::class_of(&f.note));
            if !seen_classes.contains(&key) {
                seen_classes.push(key);
                chosen.push(i);
            }
        }
        for i in 0..fails.len() {
            if !chosen.contains(&i) {
                chosen.push(i);
            }
        }
        chosen.truncate(KEEP_FAILS);
        let fails: Vec<(String, Fail)> = chosen.into_iter().map(|i| fails[i].clone()).collect();
        for (fam, f) in fails.iter() {
            let p = write_replay(fam, &f.case, &f.expected, &f.observed, &f.note, f.idx, &self.id);
            lines.push(format!("VIOLATION property={} replay={}", self.id, p));
            eprintln!("  failing case [{}#{}]: {}\n    expected: {}\n    observed: {}\n    {}", fam, f.idx, compact(&f.case, 600), clip(&f.expected, 600), clip(&f.observed, 600), clip(&f.note, 400));
        }
        if total.fail_count > 0 {
            eprintln!("  {} failing case(s) in total", total.fail_count);
        }
        let mut classes: Vec<(&String, &u64)> = total.classes.iter().collect();
        classes.sort_by(|a, b| b.1.cmp(a.1).then(a.0.cmp(b.0)));
        let top: Vec<Value> = classes.iter().take(40).map(|(k, v)| json!([k, v])).collect();
        let samples: Vec<Value> = total.samples.iter().map(|s| s.1.clone()).collect();
        let mut coverage = json!({
            "evaluations": total.evals,
            "distinct_nontrivial": total.nontrivial,
            "rule": rule,
            "samples": samples,
            "exhaustive": all_exhaustive && self.only_family.is_none(),
            "families": fam_json,
            "collision_counters": total.counters,
            "outcome_classes": total.classes.len(),
            "outcome_classes_top": top,
            "caps_hit": caps,
            "budget_cutoffs_not_counted": total.cutoffs,
            "skipped_outside_domain": total.skipped,
            "known_findings_hit": Value::Object(known_json),
            "threads": self.threads,
        });
        if self.level == Level::ModelChecking {
            coverage["states"] = json!(total.states);
            coverage["transitions"] = json!(total.transitions);
            coverage["traces_validated_against_impl"] = json!(total.traces_validated);
        }
        for (k, v) in &self.extra {
            coverage[k] = v.clone();
        }
        let ev = json!({
            "property_id": self.id,
            "tier": if self.quick() { "quick" } else { "thorough" },
            "seed": self.seed,
            "level": self.level.as_str(),
            "coverage": coverage,
            "assumptions": self.assumptions,
            "wall_s": (self.elapsed()*100.0).round()/100.0,
            "violations": violations,
            "machinery_errors": self.machinery,
        });
        if self.replay.is_none() && self.only_family.is_none() {
            let dir = self.out_dir.join("evidence");
            let _ = std::fs::create_dir_all(&dir);
            std::fs::write(dir.join(format!("{}.json", self.id)), serde_json::to_string_pretty(&ev).unwrap() + "\n").expect("write evidence");
        }
        for l in &lines {
            println!("{l}");
        }
        let status = if violations > 0 {
            1
        } else if !self.machinery.is_empty() {
            2
        } else {
            0
        };
        println!(
            "{} {} tier={} evaluations={} nontrivial={} classes={} states={} transitions={} violations={} known={} exhaustive={} wall={:.1}s",
            self.id,
            match status {
                0 => "HELD",
                1 => "VIOLATED",
                _ => "MACHINERY-ERROR",
            },
            if self.quick() { "quick" } else { "thorough" },
            total.evals,
            total.nontrivial,
            total.classes.len(),
            total.states,
            total.transitions,
            violations,
            known_hits.len(),
            all_exhaustive,
            self.elapsed()
        );
        std::process::exit(status)
    }

    /// Load the `case` (and family) of a replay file.
    pub fn replay_case(&self) -> Option<(String, Value)> {
        let p = self.replay.as_ref()?;
        let s = std::fs::read_to_string(p).unwrap_or_else(|e| {
            eprintln!("cannot read replay file {}: {e}", p.display());
            std::process::exit(2)
        });
        let v: Value = serde_json::from_str(&s).unwrap_or_else(|e| {
            eprintln!("bad replay file: {e}");
            std::process::exit(2)
        });
        Some((v["family"].as_str().unwrap_or("").to_string(), v["case"].clone()))
    }
    /// Standard tail of a replay run: report what the single case did and exit 0/1.
    pub fn finish_replay(self, acc: Acc) -> ! {
        let kf = known::KnownFindings::load(&self.out_dir);
        let mut status = 0;
        for f in &acc.fails {
            println!("REPLAY property={} FAILS\n  case: {}\n  expected: {}\n  observed: {}\n  {}", self.id, compact(&f.case, 2000), f.expected, f.observed, f.note);
            status = 1;
        }
        for (k, _) in &acc.known {
            match kf.lookup(&self.id, k) {
                Some(w) => println!("REPLAY property={} matches known finding {k}: {w}", self.id),
                None => {
                    println!("REPLAY property={} FAILS (class {k}, not a listed finding)", self.id);
                    status = 1
                }
            }
        }
        if status == 0 && acc.known.is_empty() {
            println!("REPLAY property={} passes ({} evaluation(s))", self.id, acc.evals);
        }
        std::process::exit(status)
    }
}

pub fn compact(v: &Value, max: usize) -> String {
    clip(&serde_json::to_string(v).unwrap_or_default(), max)
}
pub fn clip(s: &str, max: usize) -> String {
    if s.chars().count() <= max {
        s.to_string()
    } else {
        let t: String = s.chars().take(max).collect();
        format!("{t}…")
    }
}

/// Mixed-radix helpers for index-addressable enumerations.
pub fn digits(mut idx: u64, radices: &[u64]) -> Vec<u64> {
    let mut out = vec![0; radices.len()];
    for (i, r) in radices.iter().enumerate().rev() {
        out[i] = idx % r;
        idx /= r;
    }
    out
}
pub fn product(radices: &[u64]) -> u64 {
    radices.iter().product()
}
/// Number of strings of length 0..=maxlen over k symbols, and the (len, digits) of the idx-th one in
/// shortest-first order.
pub fn strings_upto(k: u64, maxlen: u32) -> u64 {
    (0..=maxlen).map(|l| k.pow(l)).sum()
}
pub fn nth_string(k: u64, mut idx: u64) -> Vec<u64> {
    let mut len = 0u32;
    loop {
        let n = k.pow(len);
        if idx < n {
            break;
        }
        idx -= n;
        len += 1;
    }
    let mut out = vec![0; len as usize];
    for i in (0..len as usize).rev() {
        out[i] = idx % k;
        idx /= k;
    }
    out
}
