//! Deterministic sharding: the index space 0..n is cut into contiguous chunks, chunks are handed out
//! in increasing order, every worker owns an `Acc`, and the merge keeps the failing cases with the
//! smallest indices – so the reported counterexample does not depend on the thread schedule.

use crate::Acc;
use std::ops::Range;
use std::sync::atomic::{AtomicU64, Ordering};
use std::time::Instant;

pub const STACK_BYTES: usize = 256 << 20;

/// Returns (merged accumulator, chunks completed, chunks in total).
pub fn run<F>(n: u64, threads: usize, deadline: Instant, f: &F) -> (Acc, u64, u64)
where
    F: Fn(Range<u64>, &mut Acc) + Sync,
{
    if n == 0 {
        return (Acc::default(), 0, 0);
    }
    let threads = threads.max(1);
    // ~64 chunks per thread keeps the tail short; chunk of at least 1.
    let chunk = (n / (threads as u64 * 64)).max(1);
    let chunks = n.div_ceil(chunk);
    let next = AtomicU64::new(0);
    let done = AtomicU64::new(0);
    let mut accs: Vec<Acc> = vec![];
    std::thread::scope(|s| {
        let mut hs = vec![];
        for _ in 0..threads.min(chunks as usize) {
            let h = std::thread::Builder::new()
                .stack_size(STACK_BYTES)
                .spawn_scoped(s, || {
                    let mut acc = Acc::default();
                    loop {
                        if Instant::now() >= deadline {
                            break;
                        }
                        let c = next.fetch_add(1, Ordering::Relaxed);
                        if c >= chunks {
                            break;
                        }
                        let lo = c * chunk;
                        let hi = ((c + 1) * chunk).min(n);
                        if let Err(p) = crate::pan::catch(|| f(lo..hi, &mut acc)) {
                            eprintln!("MACHINERY-ERROR: harness code panicked outside a subject call: {}", p.describe());
                            std::process::exit(2);
                        }
                        done.fetch_add(1, Ordering::Relaxed);
                    }
                    acc
                })
                .expect("spawn worker");
            hs.push(h);
        }
        for h in hs {
            match h.join() {
                Ok(a) => accs.push(a),
                Err(_) => {
                    eprintln!("MACHINERY-ERROR: a worker thread died outside catch_unwind");
                    std::process::exit(2);
                }
            }
        }
    });
    let mut total = Acc::default();
    for a in accs {
        total.merge(a);
    }
    (total, done.load(Ordering::Relaxed), chunks)
}

/// Map a slice in parallel, preserving order (used by the level-synchronous search).
pub fn map<T: Sync, R: Send, F: Fn(&T) -> R + Sync>(items: &[T], threads: usize, f: F) -> Vec<R> {
    let n = items.len();
    let mut out: Vec<Option<R>> = (0..n).map(|_| None).collect();
    if n == 0 {
        return vec![];
    }
    let threads = threads.max(1).min(n);
    let chunk = n.div_ceil(threads * 8).max(1);
    let next = AtomicU64::new(0);
    let slots: Vec<std::sync::Mutex<Vec<(usize, R)>>> = (0..threads).map(|_| std::sync::Mutex::new(vec![])).collect();
    std::thread::scope(|s| {
        for t in 0..threads {
            let next = &next;
            let f = &f;
            let slot = &slots[t];
            std::thread::Builder::new()
                .stack_size(STACK_BYTES)
                .spawn_scoped(s, move || {
                    let mut local = vec![];
                    loop {
                        let c = next.fetch_add(1, Ordering::Relaxed) as usize;
                        let lo = c * chunk;
                        if lo >= n {
                            break;
                        }
                        let hi = (lo + chunk).min(n);
                        for i in lo..hi {
                            local.push((i, f(&items[i])));
                        }
                    }
                    *slot.lock().unwrap() = local;
                })
                .expect("spawn");
        }
    });
    for s in slots {
        for (i, r) in s.into_inner().unwrap() {
            out[i] = Some(r);
        }
    }
    out.into_iter().map(|o| o.expect("all mapped")).collect()
}
