//! Panic capture. The hook records file, line and message in a thread-local; `catch` turns an unwind
//! into a `Panic` value. The identity of a call site is (file suffix, text of the source line), which
//! stays stable when unrelated edits shift line numbers.

use std::cell::RefCell;
use std::panic::{catch_unwind, AssertUnwindSafe};

#[derive(Clone, Debug, PartialEq, Eq)]
pub struct Panic {
    pub file: String,
    pub line: u32,
    pub msg: String,
    /// true when the unwind was the harness's own step/error budget (not a verdict)
    pub cutoff: bool,
}

/// Payload thrown by harness budgets (`std::panic::panic_any(Cutoff)`).
pub struct Cutoff;

thread_local! {
    static LAST: RefCell<Option<(String, u32, String)>> = const { RefCell::new(None) };
}

pub fn install_hook() {
    std::panic::set_hook(Box::new(|info| {
        let (file, line) = info.location().map(|l| (l.file().to_string(), l.line())).unwrap_or_default();
        let msg = if let Some(s) = info.payload().downcast_ref::<&str>() {
            s.to_string()
        } else if let Some(s) = info.payload().downcast_ref::<String>() {
            s.clone()
        } else if info.payload().downcast_ref::<Cutoff>().is_some() {
            "<cutoff>".to_string()
        } else {
            "<non-string payload>".to_string()
        };
        LAST.with(|l| *l.borrow_mut() = Some((file, line, msg)));
    }));
}

pub fn catch<T>(f: impl FnOnce() -> T) -> Result<T, Panic> {
    LAST.with(|l| *l.borrow_mut() = None);
    match catch_unwind(AssertUnwindSafe(f)) {
        Ok(v) => Ok(v),
        Err(payload) => {
            let cutoff = payload.downcast_ref::<Cutoff>().is_some();
            let (file, line, msg) = LAST.with(|l| l.borrow_mut().take()).unwrap_or_else(|| ("<unknown>".into(), 0, "<no hook record>".into()));
            Err(Panic { file, line, msg, cutoff })
        }
    }
}

impl Panic {
    /// Text of the source line at the panic location (trimmed), or "" if the file cannot be read.
    pub fn source_line(&self) -> String {
        let candidates = [self.file.clone(), format!("/repo/{}", self.file)];
        for c in candidates {
            if let Ok(s) = std::fs::read_to_string(&c) {
                if let Some(l) = s.lines().nth(self.line.saturating_sub(1) as usize) {
                    return l.trim().to_string();
                }
            }
        }
        String::new()
    }
    /// Path relative to the repository root ("crates/…"), or the raw path (e.g. a std location).
    pub fn rel_file(&self) -> String {
        if self.file.starts_with("crates/") {
            return self.file.clone();
        }
        match self.file.find("/crates/") {
            Some(i) if !self.file.starts_with("/rustc/") => self.file[i + 1..].to_string(),
            _ => self.file.clone(),
        }
    }
    pub fn site(&self) -> String {
        format!("{}:{}", self.rel_file(), self.line)
    }
    pub fn describe(&self) -> String {
        format!("panic at {}: {} [source line: {}]", self.site(), crate::clip(&self.msg, 200), self.source_line())
    }
    pub fn in_repo(&self) -> bool {
        self.file.starts_with("crates/") || (self.file.contains("/crates/") && !self.file.starts_with("/rustc/") && !self.file.contains("/.cargo/"))
    }
}
