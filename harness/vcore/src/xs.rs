//! Explicit-state search over operation histories of a *real* object.
//!
//! A state is represented by the shortest history (sequence of action indices) that reaches it; the
//! real object is rebuilt by replaying the history (live objects here are not `Clone`). `step` runs
//! history `h` on the implementation and on the reference model, records a failure in the `Acc` when
//! they disagree, and returns the fingerprint of the *implementation* state reached (None = action
//! not enabled, or the state failed and is not expanded). States are deduplicated on the
//! fingerprint. The search is level-synchronous breadth first: all transitions of a level are
//! evaluated in parallel, then merged sequentially in enumeration order, so state counts, the
//! representative histories and the first counterexample are deterministic.

use crate::Acc;
use std::collections::HashSet;
use std::hash::Hash;
use std::time::Instant;

#[derive(Debug, Clone, Default)]
pub struct Stats {
    pub states: u64,
    pub transitions: u64,
    pub depth_completed: usize,
    pub frontier_sizes: Vec<u64>,
    pub capped: Option<String>,
}

pub fn bfs<FP, S>(n_actions: usize, max_depth: usize, max_states: u64, threads: usize, deadline: Instant, init_fp: FP, step: S) -> (Acc, Stats)
where
    FP: Hash + Eq + Send + Clone,
    S: Fn(&[u8], &mut Acc) -> Option<FP> + Sync,
{
    let mut seen: HashSet<FP> = HashSet::new();
    seen.insert(init_fp);
    let mut frontier: Vec<Vec<u8>> = vec![vec![]];
    let mut total = Acc::default();
    let mut stats = Stats { states: 1, ..Default::default() };
    let mut base_idx: u64 = 0;
    for depth in 1..=max_depth {
        if frontier.is_empty() {
            break;
        }
        stats.frontier_sizes.push(frontier.len() as u64);
        if Instant::now() >= deadline {
            stats.capped = Some(format!("wall cap before level {depth}"));
            break;
        }
        // evaluate all transitions out of this level in parallel
        let chunks: Vec<&[Vec<u8>]> = frontier.chunks(frontier.len().div_ceil(threads.max(1) * 16).max(1)).collect();
        let mut offsets = Vec::with_capacity(chunks.len());
        let mut o = 0u64;
        for c in &chunks {
            offsets.push(o);
            o += (c.len() * n_actions) as u64;
        }
        let jobs: Vec<(u64, &[Vec<u8>])> = offsets.into_iter().zip(chunks).collect();
        let results = crate::par::map(&jobs, threads, |(off, chunk)| {
            let mut acc = Acc::default();
            let mut out: Vec<(Vec<u8>, FP)> = vec![];
            let mut h: Vec<u8> = Vec::with_capacity(depth);
            let mut k = 0u64;
            for hist in chunk.iter() {
                for a in 0..n_actions {
                    h.clear();
                    h.extend_from_slice(hist);
                    h.push(a as u8);
                    let before = acc.fail_count;
                    let r = step(&h, &mut acc);
                    // re-index failures recorded by this step to the global transition number
                    if acc.fail_count > before {
                        let gi = base_idx + off + k;
                        for f in acc.fails.iter_mut() {
                            if f.idx == u64::MAX {
                                f.idx = gi;
                            }
                        }
                    }
                    acc.transitions += 1;
                    k += 1;
                    if let Some(fp) = r {
                        out.push((h.clone(), fp));
                    }
                }
            }
            (acc, out)
        });
        let mut next: Vec<Vec<u8>> = vec![];
        for (acc, out) in results {
            base_idx += 0; // (offsets already global within the level)
            total.merge(acc);
            for (h, fp) in out {
                if seen.insert(fp) {
                    next.push(h);
                }
            }
        }
        base_idx += (frontier.len() * n_actions) as u64;
        stats.depth_completed = depth;
        stats.states = seen.len() as u64;
        frontier = next;
        if stats.states > max_states {
            stats.capped = Some(format!("state cap {max_states} exceeded after level {depth}"));
            break;
        }
    }
    stats.transitions = total.transitions;
    total.states = stats.states;
    (total, stats)
}
