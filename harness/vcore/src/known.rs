//! The known-findings file (`/verif/known_findings.json`), read-only at run time.
//!
//! ```json
//! { "findings": [ { "property": "C03", "id": "D4", "what": "^^xy two-hex-digit form is not reduced",
//!                   "witness": "...", "site": { "file": "crates/..rs", "line_text": "todo!()" } } ],
//!   "fixed": [ "fixed: property=C01 <commit> <what failed>" ] }
//! ```
//! A finding explains a failing case only if the check's own predicate on the *case* selected that
//! finding id and the observed behaviour equalled the finding's adjusted expectation (both decided
//! in the check); this module only answers "is that id listed for this property". `fixed` entries
//! suppress nothing.

use serde_json::Value;
use std::path::Path;

pub struct KnownFindings {
    findings: Vec<Value>,
}

impl KnownFindings {
    pub fn load(out_dir: &Path) -> KnownFindings {
        // the committed file always lives in /verif (VERIF_KNOWN overrides for scratch runs)
        let p = std::env::var("VERIF_KNOWN").map(std::path::PathBuf::from).unwrap_or_else(|_| {
            let a = out_dir.join("known_findings.json");
            if a.exists() {
                a
            } else {
                "/verif/known_findings.json".into()
            }
        });
        let findings = std::fs::read_to_string(&p).ok().and_then(|s| serde_json::from_str::<Value>(&s).ok()).and_then(|v| v["findings"].as_array().cloned()).unwrap_or_default();
        KnownFindings { findings }
    }
    pub fn lookup(&self, property: &str, id: &str) -> Option<String> {
        self.findings.iter().find(|f| f["property"] == property && f["id"] == id).map(|f| f["what"].as_str().unwrap_or("").to_string())
    }
    /// Panic findings are keyed by call site: file (suffix match) + text of the source line.
    pub fn panic_site(&self, property: &str, p: &crate::Panic) -> Option<String> {
        let rel = p.rel_file();
        let text = p.source_line();
        self.findings
            .iter()
            .find(|f| {
                f["property"] == property
                    && f["site"]["file"].as_str().map(|s| rel.ends_with(s)).unwrap_or(false)
                    && f["site"]["line_text"].as_str().map(|s| !s.is_empty() && text.contains(s)).unwrap_or(false)
            })
            .and_then(|f| f["id"].as_str().map(|s| s.to_string()))
    }
}
