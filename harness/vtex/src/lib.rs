//! vtex: the harness-owned VM state (`HState`) and the run/observe helpers of the VM checks.
//!
//! `HState` has the same components and the same hook delegations as `texlang_stdlib::StdLibState`
//! and installs the real `texlang_stdlib::built_in_commands`. What it adds is ownership of every
//! source of nondeterminism (DESIGN §1.4): in-memory file system, scripted terminal (never the
//! process's stdin), log sinks, a fixed clock, a step/error budget, and a token-exact observation log.

use std::cell::{Cell, RefCell};
use std::collections::HashMap;
use std::rc::Rc;
use texlang::traits::*;
use texlang::types::CatCode;
use texlang::*;
use texlang_stdlib::*;

pub use texlang;
pub use texlang_common;
pub use texlang_stdlib;

// ------------------------------------------------------------------ environment

#[derive(Default)]
pub struct MemFs {
    pub files: RefCell<HashMap<std::path::PathBuf, Vec<u8>>>,
}
impl MemFs {
    pub fn add(&self, rel: &str, content: &str) {
        self.files.borrow_mut().insert(std::path::Path::new(VFS_ROOT).join(rel), content.as_bytes().to_vec());
    }
}
pub const VFS_ROOT: &str = "/vfs";
impl texlang_common::FileSystem for MemFs {
    fn read_to_string(&self, path: &std::path::Path) -> std::io::Result<String> {
        match self.files.borrow().get(path) {
            None => Err(std::io::Error::new(std::io::ErrorKind::NotFound, "not found")),
            Some(b) => String::from_utf8(b.clone()).map_err(|_| std::io::Error::new(std::io::ErrorKind::InvalidData, "not utf-8")),
        }
    }
    fn read_to_bytes(&self, path: &std::path::Path) -> std::io::Result<Vec<u8>> {
        self.files.borrow().get(path).cloned().ok_or_else(|| std::io::Error::new(std::io::ErrorKind::NotFound, "not found"))
    }
    fn write_bytes(&self, path: &std::path::Path, contents: &[u8]) -> std::io::Result<()> {
        self.files.borrow_mut().insert(path.to_path_buf(), contents.to_vec());
        Ok(())
    }
}

/// Scripted terminal: returns the given lines, then an UnexpectedEof error (never blocks).
#[derive(Default)]
pub struct ScriptTerminal {
    pub lines: Vec<String>,
    pub pos: usize,
}
impl texlang_common::TerminalIn for ScriptTerminal {
    fn read_line(&mut self, _prompt: Option<&str>, buffer: &mut String) -> std::io::Result<()> {
        match self.lines.get(self.pos) {
            None => Err(std::io::Error::new(std::io::ErrorKind::UnexpectedEof, "scripted terminal exhausted")),
            Some(l) => {
                buffer.push_str(l);
                self.pos += 1;
                Ok(())
            }
        }
    }
}

struct Sink;
impl std::io::Write for Sink {
    fn write(&mut self, b: &[u8]) -> std::io::Result<usize> {
        Ok(b.len())
    }
    fn flush(&mut self) -> std::io::Result<()> {
        Ok(())
    }
}

pub struct Env {
    pub out: RefCell<Vec<String>>,
    pub steps: Cell<u64>,
    pub errs: Cell<u64>,
    pub step_budget: Cell<u64>,
    pub err_budget: Cell<u64>,
    pub fs: Rc<RefCell<MemFs>>,
    pub font_names: RefCell<HashMap<u32, token::CommandRef>>,
}
impl Default for Env {
    fn default() -> Self {
        Env { out: Default::default(), steps: Cell::new(0), errs: Cell::new(0), step_budget: Cell::new(5000), err_budget: Cell::new(100), fs: Default::default(), font_names: Default::default() }
    }
}

// ------------------------------------------------------------------ state

#[derive(Default, serde::Serialize, serde::Deserialize)]
pub struct HState {
    pub alloc: alloc::Component,
    pub codes_cat_code: codes::Component<CatCode>,
    pub codes_math_code: codes::Component<types::MathCode>,
    pub conditional: conditional::Component,
    pub end_line_char: endlinechar::Component,
    pub error_mode: errormode::Component,
    pub input: input::Component<16>,
    pub job: job::Component,
    pub prefix: prefix::Component,
    pub registers_i32: registers::Component<i32, 32768>,
    pub registers_scaled: registers::Component<common::Scaled, 32768>,
    pub registers_glue: registers::Component<common::Glue, 32768>,
    pub registers_token_list: registers::Component<Vec<token::Token>, 256>,
    pub repl: repl::Component,
    pub script: script::Component,
    pub time: time::Component,
    pub tracing_macros: tracingmacros::Component,
    #[serde(skip)]
    pub env: Env,
}

impl TexlangState for HState {
    #[inline]
    fn cat_code(&self, c: char) -> CatCode {
        codes::cat_code(self, c)
    }
    #[inline]
    fn end_line_char(&self) -> Option<char> {
        endlinechar::end_line_char(self)
    }
    fn post_macro_expansion_hook(token: token::Token, input: &vm::ExpansionInput<Self>, m: &texmacro::Macro, a: &[&[token::Token]], r: &[token::Token]) {
        input.state().env.step();
        tracingmacros::hook(token, input, m, a, r)
    }
    fn expansion_override_hook(token: token::Token, input: &mut vm::ExpansionInput<Self>, tag: Option<command::Tag>) -> texlang::prelude::Result<Option<token::Token>> {
        input.state().env.step();
        expansion::noexpand_hook(token, input, tag)
    }
    fn variable_assignment_scope_hook(state: &mut Self) -> texcraft_stdext::collections::groupingmap::Scope {
        prefix::variable_assignment_scope_hook(state)
    }
    fn recoverable_error_hook(&self, e: error::TracedTexError) -> Result<(), Box<dyn error::TexError>> {
        self.env.errs.set(self.env.errs.get() + 1);
        if self.env.errs.get() > self.env.err_budget.get() {
            // the behaviour the trait documents for "too many errors": make the error fatal
            return Err(e.error);
        }
        errormode::recoverable_error_hook(self, e)
    }
}
impl Env {
    #[inline]
    fn step(&self) {
        let s = self.steps.get() + 1;
        self.steps.set(s);
        if s > self.step_budget.get() {
            std::panic::panic_any(vcore::pan::Cutoff);
        }
    }
}
impl the::TheCompatible for HState {
    fn get_command_ref_for_font(&self, font: types::Font) -> Option<token::CommandRef> {
        self.env.font_names.borrow().get(&(font.0 as u32)).copied()
    }
}
vm::implement_has_component![HState{
    alloc: alloc::Component,
    codes_cat_code: codes::Component<CatCode>,
    codes_math_code: codes::Component<types::MathCode>,
    conditional: conditional::Component,
    end_line_char: endlinechar::Component,
    error_mode: errormode::Component,
    input: input::Component<16>,
    job: job::Component,
    prefix: prefix::Component,
    registers_i32: registers::Component<i32, 32768>,
    registers_scaled: registers::Component<common::Scaled, 32768>,
    registers_glue: registers::Component<common::Glue, 32768>,
    registers_token_list: registers::Component<Vec<token::Token>, 256>,
    repl: repl::Component,
    script: script::Component,
    time: time::Component,
    tracing_macros: tracingmacros::Component,
}];
impl texlang_common::HasLogging for HState {
    fn terminal_out(&self) -> Rc<RefCell<dyn std::io::Write>> {
        Rc::new(RefCell::new(Sink))
    }
    fn log_file(&self) -> Rc<RefCell<dyn std::io::Write>> {
        Rc::new(RefCell::new(Sink))
    }
}
impl texlang_common::HasFileSystem for HState {
    fn file_system(&self) -> Rc<RefCell<dyn texlang_common::FileSystem>> {
        self.env.fs.clone()
    }
}
impl texlang_common::HasTerminalIn for HState {
    fn terminal_in(&self) -> Rc<RefCell<dyn texlang_common::TerminalIn>> {
        self.error_mode.terminal_in()
    }
}

// ------------------------------------------------------------------ handlers and harness primitives

pub fn token_text<S: TexlangState>(vm: &vm::VM<S>, t: token::Token) -> String {
    match t.value() {
        token::Value::CommandRef(r) => r.to_string(vm.cs_name_interner()),
        v => v.char().map(|c| c.to_string()).unwrap_or_else(|| "?".into()),
    }
}
/// Token with its category: `\name`, or `c/11` style for character tokens.
pub fn token_exact<S: TexlangState>(vm: &vm::VM<S>, t: token::Token) -> String {
    match t.value() {
        token::Value::CommandRef(r) => r.to_string(vm.cs_name_interner()),
        v => format!("{}/{}", v.char().unwrap_or('?'), t.cat_code().map(|c| c as u8).unwrap_or(255)),
    }
}

pub struct H;
impl vm::Handlers<HState> for H {
    fn character_handler(input: &mut vm::ExecutionInput<HState>, _t: token::Token, c: char) -> texlang::prelude::Result<()> {
        input.state().env.out.borrow_mut().push(c.to_string());
        Ok(())
    }
    fn undefined_command_handler(input: &mut vm::ExecutionInput<HState>, t: token::Token) -> texlang::prelude::Result<()> {
        let s = token_text(input.vm(), t);
        input.state().env.out.borrow_mut().push(format!("<undef {s}>"));
        Ok(())
    }
    fn unexpanded_expansion_command(input: &mut vm::ExecutionInput<HState>, t: token::Token) -> texlang::prelude::Result<()> {
        let s = token_text(input.vm(), t);
        input.state().env.out.borrow_mut().push(format!("<unexp {s}>"));
        Ok(())
    }
}
/// Strict handlers: an undefined command is the fatal error the default handler raises.
pub struct HStrict;
impl vm::Handlers<HState> for HStrict {
    fn character_handler(input: &mut vm::ExecutionInput<HState>, _t: token::Token, c: char) -> texlang::prelude::Result<()> {
        input.state().env.out.borrow_mut().push(c.to_string());
        Ok(())
    }
}

fn probefont(_t: token::Token, input: &mut vm::ExecutionInput<HState>) -> texlang::prelude::Result<()> {
    let f = input.vm().current_font().0;
    input.state().env.out.borrow_mut().push(format!("F{f}"));
    Ok(())
}
/// `\capture ... \END`: records every token up to `\END` verbatim (unexpanded, with category codes).
fn capture(_t: token::Token, input: &mut vm::ExecutionInput<HState>) -> texlang::prelude::Result<()> {
    loop {
        let t = match input.unexpanded().next()? {
            None => break,
            Some(t) => t,
        };
        let s = token_exact(input.vm(), t);
        if s == "\\END" {
            break;
        }
        input.state().env.out.borrow_mut().push(format!("[{s}]"));
    }
    Ok(())
}

pub fn builtins() -> HashMap<&'static str, command::BuiltIn<HState>> {
    let mut m = built_in_commands::<HState>();
    m.remove("sleep");
    m.insert("fa", command::BuiltIn::new_font(types::Font(1)));
    m.insert("fb", command::BuiltIn::new_font(types::Font(2)));
    m.insert("probefont", command::BuiltIn::new_execution(probefont));
    m.insert("capture", command::BuiltIn::new_execution(capture));
    m
}

pub type Vm = vm::VM<HState>;

pub fn prepare(vm: &mut Vm) {
    vm.working_directory = Some(VFS_ROOT.into());
    vm.state.error_mode.set_default_terminal(Rc::new(RefCell::new(ScriptTerminal::default())));
}
pub fn new_vm() -> Box<Vm> {
    let mut vm = vm::VM::<HState>::new_with_built_in_commands(builtins());
    vm.state.time = time::Component::new_with_values(0, 1, 1, 2000);
    prepare(&mut vm);
    Box::new(vm)
}
pub fn set_terminal(vm: &mut Vm, lines: &[&str]) {
    vm.state.error_mode.set_default_terminal(Rc::new(RefCell::new(ScriptTerminal { lines: lines.iter().map(|s| s.to_string()).collect(), pos: 0 })));
}

#[derive(Clone, Debug, PartialEq, Eq)]
pub struct RunOut {
    /// everything delivered to the handlers, concatenated
    pub out: String,
    /// title of the fatal error, if the run ended with one
    pub err: Option<String>,
}
impl RunOut {
    pub fn show(&self) -> String {
        match &self.err {
            None => self.out.clone(),
            Some(e) => format!("{} !{}", self.out, e),
        }
    }
}

/// Push `src` as a new source and run to completion. No catch_unwind here.
pub fn run_raw<Hd: vm::Handlers<HState>>(vm: &mut Vm, src: &str) -> RunOut {
    vm.state.env.out.borrow_mut().clear();
    let _ = vm.push_source("t.tex", src);
    let r = vm.run::<Hd>();
    let out = vm.state.env.out.borrow().concat();
    RunOut { out, err: r.err().map(|e| e.error.title()) }
}
pub fn run(vm: &mut Vm, src: &str) -> RunOut {
    run_raw::<H>(vm, src)
}

/// Outcome of one program on a fresh VM, under catch_unwind.
#[derive(Clone, Debug, PartialEq, Eq)]
pub enum Outcome {
    Done(RunOut),
    Cutoff,
    Panic(vcore::Panic),
}
pub fn run_fresh(src: &str) -> Outcome {
    run_fresh_with(src, |_| {})
}
pub fn run_fresh_with(src: &str, setup: impl FnOnce(&mut Vm)) -> Outcome {
    match vcore::catch(|| {
        let mut vm = new_vm();
        setup(&mut vm);
        run(&mut vm, src)
    }) {
        Ok(r) => Outcome::Done(r),
        Err(p) if p.cutoff => Outcome::Cutoff,
        Err(p) => Outcome::Panic(p),
    }
}

// ------------------------------------------------------------------ serialisation formats (C08)

#[derive(Clone, Copy, Debug, PartialEq, Eq)]
pub enum Format {
    Json,
    MessagePack,
    Bincode,
}
pub const FORMATS: [Format; 3] = [Format::Json, Format::MessagePack, Format::Bincode];

/// Serialise + deserialise with the same calls as `texlang_testing::run_serde_test`, then re-attach
/// the environment (it is `serde(skip)` by design).
pub fn checkpoint(vm: &Vm, fmt: Format) -> Box<Vm> {
    let mut vm2 = match fmt {
        Format::Json => {
            let s = serde_json::to_string(vm).unwrap();
            let mut d = serde_json::Deserializer::from_str(&s);
            vm::VM::deserialize_with_built_in_commands(&mut d, builtins()).unwrap()
        }
        Format::MessagePack => {
            let s = rmp_serde::to_vec(vm).unwrap();
            let mut d = rmp_serde::decode::Deserializer::from_read_ref(&s);
            vm::VM::deserialize_with_built_in_commands(&mut d, builtins()).unwrap()
        }
        Format::Bincode => {
            let s = bincode::serde::encode_to_vec(vm, bincode::config::standard()).unwrap();
            let d: Box<vm::serde::DeserializedVM<HState>> = bincode::serde::decode_from_slice(&s, bincode::config::standard()).unwrap().0;
            vm::serde::finish_deserialization(d, builtins())
        }
    };
    prepare(&mut vm2);
    vm2.state.env.fs = vm.state.env.fs.clone();
    vm2.state.env.step_budget.set(vm.state.env.step_budget.get());
    Box::new(vm2)
}
pub fn to_json_value(vm: &Vm) -> serde_json::Value {
    serde_json::to_value(vm).unwrap()
}
