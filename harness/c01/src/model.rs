//! The scoping oracle of C01: a stack of snapshots.
//!
//! tex.web, Part 19 "Saving and restoring equivalents" (§268-§284), states the semantics this model
//! implements directly instead of through a save stack:
//!   * §274 new_save_level / §282 unsave: when a group closes every quantity has the value it had
//!     when the group opened – unless (§283) it was assigned globally in the meantime (its
//!     `xeq_level` is `level_one`), in which case "the saved value is discarded";
//!   * §277 eq_define: a local assignment changes the value at the current level only;
//!   * §279 geq_define: a global assignment sets the value "at level one", i.e. for every open level.
//! So the model keeps, for every open level, the value every target has *at that level*:
//! `{` pushes a copy of the top, `}` pops, a local assignment writes the top, a global assignment
//! writes every level.
//!
//! Scope of one assignment, tex.web §1211-§1214 (prefixed_command):
//!   a := 4 if the command is preceded by \global (§1211), then (§1214)
//!   "if global_defs<>0 then if global_defs<0 then (if global then a:=a-4) else (if not global then a:=a+4)",
//!   evaluated *before* the assignment itself is performed (so `\globaldefs=1` is itself local when
//!   \globaldefs was 0). \gdef/\xdef (§1218): "if odd(cur_chr) and not global and (global_defs>=0)
//!   then a:=a+4". The prefix is consumed by exactly this command (a is a local variable of
//!   prefixed_command).

#[derive(Clone, Copy, PartialEq, Eq, Debug)]
pub enum Scope {
    Local,
    Global,
}

/// §1211/§1214/§1218. `prefixed`: the assignment is preceded by `\global`; `gdef`: the command is
/// `\gdef`; `globaldefs`: value of `\globaldefs` when the command starts.
pub fn effective_scope(prefixed: bool, gdef: bool, globaldefs: i64) -> Scope {
    if globaldefs > 0 {
        Scope::Global
    } else if globaldefs < 0 {
        Scope::Local
    } else if prefixed || gdef {
        Scope::Global
    } else {
        Scope::Local
    }
}

/// What the bookkeeping (used for the vacuity counters only, never for values) saw during one op.
#[derive(Default, Clone, Copy, Debug)]
pub struct Events {
    /// `}` executed while the closing level held a saved entry for some target
    pub close_with_saved: bool,
    /// global assignment discarded a saved entry that lives at nesting depth >= 2
    pub purge_depth_ge_2: bool,
    /// global assignment to a target that was assigned locally earlier in the same group
    pub local_then_global_same_group: bool,
    /// local assignment to a target that was assigned globally earlier in the same group
    pub global_then_local_same_group: bool,
    /// `}` restored a value that is itself shadowing a saved value of an outer open group
    pub restore_shadowed_twice: bool,
    /// index of a target whose value was restored by this `}` (any one)
    pub restored_target: Option<usize>,
}

#[derive(Clone, Debug)]
pub struct Snapshots {
    /// levels[0] = outside all groups. levels[d][t] = value of target t at depth d.
    pub levels: Vec<Vec<String>>,
    // ---- bookkeeping for counters: which (level, target) would hold a save-stack entry
    saved: Vec<Vec<bool>>,
    global_here: Vec<Vec<bool>>,
}

impl Snapshots {
    pub fn new(initial: Vec<String>) -> Snapshots {
        let n = initial.len();
        Snapshots { levels: vec![initial], saved: vec![vec![false; n]], global_here: vec![vec![false; n]] }
    }
    pub fn depth(&self) -> usize {
        self.levels.len() - 1
    }
    pub fn top(&self) -> &Vec<String> {
        self.levels.last().unwrap()
    }
    pub fn get(&self, t: usize) -> &str {
        &self.top()[t]
    }
    pub fn open(&mut self) {
        let t = self.top().clone();
        let n = t.len();
        self.levels.push(t);
        self.saved.push(vec![false; n]);
        self.global_here.push(vec![false; n]);
    }
    /// None: there is no group to close.
    pub fn close(&mut self) -> Option<Events> {
        if self.levels.len() == 1 {
            return None;
        }
        let mut ev = Events::default();
        let d = self.levels.len() - 1;
        for t in 0..self.saved[d].len() {
            if self.saved[d][t] {
                ev.close_with_saved = true;
                ev.restored_target = Some(t);
                if (1..d).any(|k| self.saved[k][t]) {
                    ev.restore_shadowed_twice = true;
                }
            }
        }
        self.levels.pop();
        self.saved.pop();
        self.global_here.pop();
        Some(ev)
    }
    /// bookkeeping only: some open group would hold a save-stack entry for target t
    pub fn some_group_holds_save(&self, t: usize) -> bool {
        (1..self.saved.len()).any(|k| self.saved[k][t])
    }
    pub fn assign(&mut self, t: usize, value: String, scope: Scope) -> Events {
        let mut ev = Events::default();
        let d = self.levels.len() - 1;
        match scope {
            Scope::Local => {
                self.levels[d][t] = value;
                if d >= 1 {
                    if self.global_here[d][t] {
                        ev.global_then_local_same_group = true;
                    }
                    self.saved[d][t] = true;
                }
            }
            Scope::Global => {
                for l in self.levels.iter_mut() {
                    l[t] = value.clone();
                }
                if d >= 1 && self.saved[d][t] {
                    ev.local_then_global_same_group = true;
                }
                for k in 0..=d {
                    if self.saved[k][t] && k >= 2 {
                        ev.purge_depth_ge_2 = true;
                    }
                    self.saved[k][t] = false;
                }
                self.global_here[d][t] = true;
            }
        }
        ev
    }
}

/// Self-validation: the repository's own TeX-recorded expectations for scoping, replayed through
/// the model (test names from crates/texlang-stdlib). Returns the list of failed cases.
pub fn self_validate() -> Vec<String> {
    use Scope::*;
    let mut bad = vec![];
    let s = |x: &str| x.to_string();
    let mut check = |name: &str, got: String, want: &str| {
        if got != want {
            bad.push(format!("{name}: model gives {got:?}, the repository's test expects {want:?}"));
        }
    };
    // prefix.rs non_global: \i=5{\i=8}\the\i -> 5
    {
        let mut m = Snapshots::new(vec![s("0")]);
        m.assign(0, s("5"), Local);
        m.open();
        m.assign(0, s("8"), Local);
        m.close();
        check("prefix::non_global", m.get(0).into(), "5");
    }
    // prefix.rs non_global_2: \i=5\i=6{\i=8}\the\i -> 6
    {
        let mut m = Snapshots::new(vec![s("0")]);
        m.assign(0, s("5"), Local);
        m.assign(0, s("6"), Local);
        m.open();
        m.assign(0, s("8"), Local);
        m.close();
        check("prefix::non_global_2", m.get(0).into(), "6");
    }
    // prefix.rs non_global_3: \i=5{\i=6{\i=8 \the\i}\the\i}\the\i -> 865
    {
        let mut m = Snapshots::new(vec![s("0")]);
        let mut out = String::new();
        m.assign(0, s("5"), Local);
        m.open();
        m.assign(0, s("6"), Local);
        m.open();
        m.assign(0, s("8"), Local);
        out += m.get(0);
        m.close();
        out += m.get(0);
        m.close();
        out += m.get(0);
        check("prefix::non_global_3", out, "865");
    }
    // prefix.rs global: \i=5{\global\i=8}\the\i -> 8
    {
        let mut m = Snapshots::new(vec![s("0")]);
        m.assign(0, s("5"), Local);
        m.open();
        m.assign(0, s("8"), effective_scope(true, false, 0));
        m.close();
        check("prefix::global", m.get(0).into(), "8");
    }
    // prefix.rs global_defs_1: \i=5{\globaldefs=1 \i=8}\the\i -> 8   (targets: 0 = \i, 1 = \globaldefs)
    {
        let mut m = Snapshots::new(vec![s("0"), s("0")]);
        m.assign(0, s("5"), Local);
        m.open();
        let gd: i64 = m.get(1).parse().unwrap();
        m.assign(1, s("1"), effective_scope(false, false, gd));
        let gd: i64 = m.get(1).parse().unwrap();
        m.assign(0, s("8"), effective_scope(false, false, gd));
        m.close();
        check("prefix::global_defs_1", m.get(0).into(), "8");
        check("prefix::global_defs_1 (globaldefs itself was assigned locally)", m.get(1).into(), "0");
    }
    // prefix.rs global_defs_2: \i=5{\globaldefs=-1\global\i=8}\the\i -> 5
    {
        let mut m = Snapshots::new(vec![s("0"), s("0")]);
        m.assign(0, s("5"), Local);
        m.open();
        let gd: i64 = m.get(1).parse().unwrap();
        m.assign(1, s("-1"), effective_scope(false, false, gd));
        let gd: i64 = m.get(1).parse().unwrap();
        m.assign(0, s("8"), effective_scope(true, false, gd));
        m.close();
        check("prefix::global_defs_2", m.get(0).into(), "5");
    }
    // registers.rs countdef_local / countdef_global: \countdef\A 1{[\global]\countdef\A 2}\the\A -> 1 / 2
    for (g, want) in [(false, "1"), (true, "2")] {
        let mut m = Snapshots::new(vec![s("undefined")]);
        m.assign(0, s("1"), Local);
        m.open();
        m.assign(0, s("2"), effective_scope(g, false, 0));
        m.close();
        check(if g { "registers::countdef_global" } else { "registers::countdef_local" }, m.get(0).into(), want);
    }
    // alias.rs local / global: \let\C=\A{[\global]\let\C=\B \C}\C -> ba / bb
    for (g, want) in [(false, "ba"), (true, "bb")] {
        let mut m = Snapshots::new(vec![s("undefined")]);
        let mut out = String::new();
        m.assign(0, s("a"), Local);
        m.open();
        m.assign(0, s("b"), effective_scope(g, false, 0));
        out += m.get(0);
        m.close();
        out += m.get(0);
        check(if g { "alias::global" } else { "alias::local" }, out, want);
    }
    // def.rs grouping / grouping_global / gdef / gdef_global: \def\A{Hello}\A{<def>\A{World}\A}\A
    for (name, g, gdef, want) in [("def::grouping", false, false, "HelloWorldHello"), ("def::grouping_global", true, false, "HelloWorldWorld"), ("def::gdef", false, true, "HelloWorldWorld"), ("def::gdef_global", true, true, "HelloWorldWorld")] {
        let mut m = Snapshots::new(vec![s("undefined")]);
        let mut out = String::new();
        m.assign(0, s("Hello"), Local);
        out += m.get(0);
        m.open();
        m.assign(0, s("World"), effective_scope(g, gdef, 0));
        out += m.get(0);
        m.close();
        out += m.get(0);
        check(name, out, want);
    }
    // math.rs global_advance / local_advance: \count 1 5{[\global]\advance\count 1 8}\the\count 1 -> 13 / 5
    for (g, want) in [(true, "13"), (false, "5")] {
        let mut m = Snapshots::new(vec![s("0")]);
        m.assign(0, s("5"), Local);
        m.open();
        let v: i64 = m.get(0).parse::<i64>().unwrap() + 8;
        m.assign(0, v.to_string(), effective_scope(g, false, 0));
        m.close();
        check(if g { "math::global_advance" } else { "math::local_advance" }, m.get(0).into(), want);
    }
    bad
}
