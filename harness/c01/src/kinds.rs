//! Target kinds of C01: what can be assigned, how the assignment is written, how it is observed.
//!
//! Every kind has one or two *targets* that live in the same underlying container of the
//! implementation (same save-stack map / same command container), every target has one or more
//! assignment *forms*. The i-th value of a kind is distinct from the j-th (i != j below `nvals`), so
//! an observation tells which assignment is visible.

type TextFn = Box<dyn Fn(usize) -> String + Send + Sync>;
type ApplyFn = Box<dyn Fn(&str, usize) -> String + Send + Sync>;

/// (prefix tokens of the local variant, prefix tokens of the global variant)
pub type Prefixes = (&'static str, &'static str);
pub const PLAIN: Prefixes = ("", "\\global");

pub struct Form {
    pub name: &'static str,
    /// what is written in front of the assignment: TeX §1211 accumulates \global, \long, \outer in any order
    pub prefixes: Prefixes,
    /// the command is \gdef (tex.web §1218: global unless \globaldefs<0)
    pub gdef: bool,
    /// source text of the assignment of value i, without prefix, self-delimiting
    pub text: TextFn,
    /// observation after the assignment, given the observation before it
    pub apply: ApplyFn,
}

pub struct Target {
    pub name: &'static str,
    /// executed before the history, outside all groups; touches only this target
    pub setup: String,
    pub probe: String,
    pub initial: String,
    pub forms: Vec<Form>,
    /// assignment text (without prefix) that writes the INITIAL value again, where TeX can express it
    pub default_text: Option<String>,
    /// first / last element of an indexed container, or a boundary of a code table
    pub edge: bool,
    /// an assignment that cannot change the value: `\\let X=X` for commands, `\\advance X by 0` for arithmetic
    /// variables. Its scoping effects are those of any assignment (a global one discards every saved value).
    pub noop_text: Option<String>,
}

#[derive(Clone, Copy, PartialEq, Eq, Debug)]
pub enum Class {
    Variable,
    ControlSequence,
    ActiveChar,
    Font,
    GlobalDefs,
}

pub struct Kind {
    pub name: &'static str,
    pub class: Class,
    /// executed first; defines helpers only (never a target of any kind)
    pub setup: String,
    pub targets: Vec<Target>,
    pub nvals: usize,
}

pub const NV: usize = 20;
/// Category codes that are harmless for a character that only ever appears as a control symbol
/// (`\|`) or by number: no escape, end-of-line, ignored, comment or invalid.
const CATS: [u8; 10] = [11, 7, 8, 3, 4, 6, 13, 1, 2, 10];

fn abs_form(name: &'static str, text: impl Fn(usize) -> String + Send + Sync + 'static, obs: impl Fn(usize) -> String + Send + Sync + 'static) -> Form {
    Form { name, gdef: false, prefixes: PLAIN, text: Box::new(text), apply: Box::new(move |_, i| obs(i)) }
}
fn with_prefixes(mut f: Form, name: &'static str, prefixes: Prefixes) -> Form {
    f.name = name;
    f.prefixes = prefixes;
    f
}
fn prefixed_def(name: &'static str, prefixes: Prefixes, lhs: &'static str, base: usize) -> Form {
    Form { name, gdef: false, prefixes, text: Box::new(move |i| format!("\\def{lhs}{{{}}}", base + i)), apply: Box::new(move |_, i| (base + i).to_string()) }
}
/// `\\let X=X`
fn self_alias(lhs: &str) -> String {
    format!("\\let{lhs}={}", exec_probe(lhs))
}
fn letter(base: u8, i: usize) -> char {
    (base + (i % 26) as u8) as char
}
/// probe text of a command target: a control word needs a delimiting space; a control symbol (`\€`) and an
/// active character do not (a space after them would be delivered)
fn exec_probe(lhs: &str) -> String {
    if lhs.starts_with('\\') && lhs[1..].chars().all(|c| c.is_ascii_alphabetic()) {
        format!("{lhs} ")
    } else {
        lhs.to_string()
    }
}
/// every active-character target other than `~` (active in the default table) has to be made active first
fn active_setup(lhs: &str) -> String {
    if !lhs.starts_with('\\') && lhs != "~" {
        format!("\\catcode`\\{lhs}=13 ")
    } else {
        String::new()
    }
}

fn int_target(name: &'static str, lhs: &'static str, initial: i64, setup: &str, alias: Option<&'static str>, edge: bool) -> Target {
    let mut forms = vec![
        abs_form("set", move |i| format!("{lhs}={} ", i + 1), |i| (i + 1).to_string()),
        Form { name: "advance", gdef: false, prefixes: PLAIN, text: Box::new(move |i| format!("\\advance{lhs} by {} ", 100 * (i + 1))), apply: Box::new(|cur, i| (cur.parse::<i64>().unwrap() + 100 * (i as i64 + 1)).to_string()) },
    ];
    if let Some(a) = alias {
        forms.push(abs_form("set-through-alias", move |i| format!("{a}={} ", 50 + i), |i| (50 + i).to_string()));
        // \global\global is one \global (TeX §1211; prefix.rs test global_squared)
        forms.push(with_prefixes(abs_form("", move |i| format!("{lhs}={} ", 70 + i), |i| (70 + i).to_string()), "set-global-twice", ("", "\\global\\global")));
    }
    Target { name, setup: setup.into(), probe: format!("\\the{lhs} "), initial: initial.to_string(), forms, default_text: Some(format!("{lhs}={initial} ")), edge, noop_text: Some(format!("\\advance{lhs} by 0 ")) }
}

fn pt(obs: &str) -> (i64, i64) {
    // "N.0pt" or "N.0pt plus S.0pt"
    let mut it = obs.split(" plus ");
    let n = it.next().unwrap().trim_end_matches(".0pt").parse::<i64>().unwrap();
    let s = it.next().map(|x| x.trim_end_matches(".0pt").parse::<i64>().unwrap()).unwrap_or(0);
    (n, s)
}
fn glue_obs(n: i64, s: i64) -> String {
    if s == 0 {
        format!("{n}.0pt")
    } else {
        format!("{n}.0pt plus {s}.0pt")
    }
}
/// registers an alias kind points at: value-1 of the first / last index and a run in the middle
fn alias_index(i: usize, last: usize) -> usize {
    match i {
        0 => 1,
        1 => last - 1,
        _ => 10 + i,
    }
}

pub fn kinds() -> Vec<Kind> {
    let mut v = vec![];
    // ---------------------------------------------------------------- variables (first and last register of each array)
    v.push(Kind {
        name: "count",
        class: Class::Variable,
        setup: String::new(),
        targets: vec![int_target("count0", "\\count0", 0, "\\countdef\\ca=0 ", Some("\\ca"), true), int_target("count32767", "\\count32767", 0, "", None, true)],
        nvals: NV,
    });
    let dimen = |name: &'static str, lhs: &'static str, edge: bool| Target {
        name,
        setup: String::new(),
        probe: format!("\\the{lhs} "),
        initial: "0.0pt".into(),
        forms: vec![
            abs_form("set", move |i| format!("{lhs}={}pt ", i + 1), |i| format!("{}.0pt", i + 1)),
            Form { name: "advance", gdef: false, prefixes: PLAIN, text: Box::new(move |i| format!("\\advance{lhs} by {}pt ", 100 * (i + 1))), apply: Box::new(|cur, i| format!("{}.0pt", pt(cur).0 + 100 * (i as i64 + 1))) },
        ],
        default_text: Some(format!("{lhs}=0pt ")),
        edge,
        noop_text: Some(format!("\\advance{lhs} by 0pt ")),
    };
    v.push(Kind { name: "dimen", class: Class::Variable, setup: String::new(), targets: vec![dimen("dimen1", "\\dimen1", false), dimen("dimen32767", "\\dimen32767", true)], nvals: NV });
    let skip = |name: &'static str, lhs: &'static str| Target {
        name,
        setup: String::new(),
        probe: format!("\\the{lhs} "),
        initial: "0.0pt".into(),
        forms: vec![
            abs_form("set", move |i| format!("{lhs}={}pt plus 1pt ", i + 1), |i| glue_obs(i as i64 + 1, 1)),
            Form {
                name: "advance",
                gdef: false,
                prefixes: PLAIN,
                text: Box::new(move |i| format!("\\advance{lhs} by {}pt plus 1pt ", 100 * (i + 1))),
                apply: Box::new(|cur, i| {
                    let (n, s) = pt(cur);
                    glue_obs(n + 100 * (i as i64 + 1), s + 1)
                }),
            },
        ],
        default_text: Some(format!("{lhs}=0pt ")),
        edge: true,
        noop_text: Some(format!("\\advance{lhs} by 0pt ")),
    };
    v.push(Kind { name: "skip", class: Class::Variable, setup: String::new(), targets: vec![skip("skip0", "\\skip0"), skip("skip32767", "\\skip32767")], nvals: NV });
    // token lists hold non-ASCII text (2-, 3- and 4-byte characters)
    let toks = |name: &'static str, lhs: &'static str, setup: &str, alias: Option<&'static str>| {
        let mut forms = vec![abs_form("set", move |i| format!("{lhs}={{ñ‰🙂{}}}", i + 1), |i| format!("ñ‰🙂{}", i + 1))];
        if let Some(a) = alias {
            forms.push(abs_form("set-through-alias", move |i| format!("{a}={{{}}}", 50 + i), |i| (50 + i).to_string()));
        }
        Target { name, setup: setup.into(), probe: format!("\\the{lhs} "), initial: String::new(), forms, default_text: Some(format!("{lhs}={{}}")), edge: true, noop_text: None }
    };
    v.push(Kind { name: "toks", class: Class::Variable, setup: String::new(), targets: vec![toks("toks0", "\\toks0", "\\toksdef\\ta=0 ", Some("\\ta")), toks("toks255", "\\toks255", "", None)], nvals: NV });
    // `idx` is how the character is written after \catcode / \mathcode: `\| or a number
    let cat = |name: &'static str, idx: &'static str, edge: bool| Target {
        name,
        // the starting value is pinned by an assignment outside all groups, not by texcraft's default table
        setup: format!("\\catcode{idx}=12 "),
        probe: format!("\\the\\catcode{idx} "),
        initial: "12".into(),
        forms: vec![abs_form("set", move |i| format!("\\catcode{idx}={} ", CATS[i % CATS.len()]), |i| CATS[i % CATS.len()].to_string())],
        default_text: Some(format!("\\catcode{idx}=12 ")),
        edge,
        noop_text: None,
    };
    // low table: 0..=127, high table: everything above
    v.push(Kind { name: "catcode-low", class: Class::Variable, setup: String::new(), targets: vec![cat("catcode |", "`\\|", false), cat("catcode 127", "127", true)], nvals: CATS.len() });
    v.push(Kind { name: "catcode-high", class: Class::Variable, setup: String::new(), targets: vec![cat("catcode √", "`\\√", false), cat("catcode 128", "128", true)], nvals: CATS.len() });
    let mathcode = |name: &'static str, idx: &'static str| Target {
        name,
        setup: format!("\\mathcode{idx}=777 "),
        probe: format!("\\the\\mathcode{idx} "),
        initial: "777".into(),
        // 32767: texcraft rejects "8000 (TeX accepts it for \\mathcode; not a scoping matter)
        forms: vec![abs_form("set", move |i| format!("\\mathcode{idx}={} ", if i == 2 { 32767 } else { i + 1 }), |i| (if i == 2 { 32767 } else { i + 1 }).to_string())],
        default_text: Some(format!("\\mathcode{idx}=777 ")),
        edge: true,
        noop_text: None,
    };
    // character 0 (first of the low table) and U+10FFFF (the last one)
    v.push(Kind { name: "mathcode", class: Class::Variable, setup: String::new(), targets: vec![mathcode("mathcode 0", "0"), mathcode("mathcode 1114111", "1114111")], nvals: NV });
    v.push(Kind {
        name: "endlinechar",
        class: Class::Variable,
        setup: String::new(),
        targets: vec![Target { name: "endlinechar", setup: "\\endlinechar=13 ".into(), probe: "\\the\\endlinechar ".into(), initial: "13".into(), forms: vec![abs_form("set", |i| format!("\\endlinechar={} ", if i == 1 { -1 } else { 65 + i as i64 }), |i| (if i == 1 { -1 } else { 65 + i as i64 }).to_string())], default_text: Some("\\endlinechar=13 ".into()), edge: false, noop_text: Some("\\advance\\endlinechar by 0 ".into()) }],
        nvals: NV,
    });
    v.push(Kind { name: "time-singleton", class: Class::Variable, setup: String::new(), targets: vec![int_target("year", "\\year", 2000, "", None, false), int_target("month", "\\month", 1, "", None, false)], nvals: NV });
    v.push(Kind { name: "newint", class: Class::Variable, setup: String::new(), targets: vec![int_target("newInt a", "\\na", 0, "\\newInt\\na ", None, false), int_target("newInt b", "\\nb", 0, "\\newInt\\nb ", None, false)], nvals: NV });
    v.push(Kind { name: "newintarray", class: Class::Variable, setup: "\\newIntArray\\ia 3 ".into(), targets: vec![int_target("array[0]", "\\ia 0", 0, "", None, true), int_target("array[2]", "\\ia 2", 0, "", None, true)], nvals: NV });
    // ---------------------------------------------------------------- commands (names: ASCII word, 3- and 4-byte control symbols, 2/3/4-byte active characters)
    let mac = |name: &'static str, lhs: &'static str| Target {
        name,
        setup: active_setup(lhs),
        probe: exec_probe(lhs),
        initial: format!("<undef {lhs}>"),
        forms: vec![
            abs_form("def", move |i| format!("\\def{lhs}{{ñ{}}}", i + 1), |i| format!("ñ{}", i + 1)),
            Form { name: "gdef", gdef: true, prefixes: PLAIN, text: Box::new(move |i| format!("\\gdef{lhs}{{{}}}", 50 + i)), apply: Box::new(|_, i| (50 + i).to_string()) },
            // \def with \long / \outer in every position relative to \global: scopes exactly like [\global]\def
            prefixed_def("long-def", ("\\long", "\\global\\long"), lhs, 100),
            prefixed_def("outer-def", ("\\outer", "\\global\\outer"), lhs, 200),
            prefixed_def("long-then-global-def", ("\\long", "\\long\\global"), lhs, 300),
            prefixed_def("outer-long-then-global-def", ("\\outer\\long", "\\outer\\long\\global"), lhs, 400),
            prefixed_def("global-then-long-outer-def", ("\\long\\outer", "\\global\\long\\outer"), lhs, 500),
            prefixed_def("global-twice-def", ("", "\\global\\global"), lhs, 600),
        ],
        default_text: None,
        edge: false,
        noop_text: Some(self_alias(lhs)),
    };
    v.push(Kind { name: "macro", class: Class::ControlSequence, setup: String::new(), targets: vec![mac("\\ma", "\\ma"), mac("\\€", "\\€")], nvals: NV });
    v.push(Kind { name: "macro-active", class: Class::ActiveChar, setup: String::new(), targets: vec![mac("~", "~"), mac("é", "é")], nvals: NV });
    let xdefs: String = (0..NV).map(|i| format!("\\def\\x{}{{X{}}}", letter(b'a', i), letter(b'a', i))).collect();
    let lett = |name: &'static str, lhs: &'static str| Target {
        name,
        setup: active_setup(lhs),
        probe: exec_probe(lhs),
        initial: format!("<undef {lhs}>"),
        forms: vec![
            abs_form("let-macro", move |i| format!("\\let{lhs}=\\x{} ", letter(b'a', i)), |i| format!("X{}", letter(b'a', i))),
            abs_form("let-char", move |i| format!("\\let{lhs}={}", letter(b'A', i)), |i| letter(b'A', i).to_string()),
        ],
        default_text: None,
        edge: false,
        noop_text: Some(self_alias(lhs)),
    };
    v.push(Kind { name: "let", class: Class::ControlSequence, setup: xdefs.clone(), targets: vec![lett("\\la", "\\la"), lett("\\😀", "\\😀")], nvals: NV });
    v.push(Kind { name: "let-active", class: Class::ActiveChar, setup: xdefs.clone(), targets: vec![lett("~", "~"), lett("€", "€")], nvals: NV });
    let counts: String = (0..NV).map(|i| format!("\\count{}={} ", alias_index(i, 32767), 100 + i)).collect::<String>() + "\\count9=99 ";
    let cdef = |name: &'static str, lhs: &'static str| Target {
        name,
        setup: format!("{}\\countdef{lhs}=9 ", active_setup(lhs)),
        probe: format!("\\the{}", exec_probe(lhs)),
        initial: "99".into(),
        forms: vec![abs_form("countdef", move |i| format!("\\countdef{lhs}={} ", alias_index(i, 32767)), |i| (100 + i).to_string())],
        default_text: Some(format!("\\countdef{lhs}=9 ")),
        edge: false,
        noop_text: Some(self_alias(lhs)),
    };
    v.push(Kind { name: "countdef", class: Class::ControlSequence, setup: counts.clone(), targets: vec![cdef("\\cd", "\\cd"), cdef("\\ce", "\\ce")], nvals: NV });
    v.push(Kind { name: "countdef-active", class: Class::ActiveChar, setup: counts.clone(), targets: vec![cdef("~", "~"), cdef("😀", "😀")], nvals: NV });
    let tokss: String = (0..NV).map(|i| format!("\\toks{}={{T{}}}", alias_index(i, 255), i)).collect::<String>() + "\\toks9={T}";
    let tdef = |name: &'static str, lhs: &'static str| Target {
        name,
        setup: format!("\\toksdef{lhs}=9 "),
        probe: format!("\\the{lhs} "),
        initial: "T".into(),
        forms: vec![abs_form("toksdef", move |i| format!("\\toksdef{lhs}={} ", alias_index(i, 255)), |i| format!("T{i}"))],
        default_text: Some(format!("\\toksdef{lhs}=9 ")),
        edge: false,
        noop_text: Some(self_alias(lhs)),
    };
    v.push(Kind { name: "toksdef", class: Class::ControlSequence, setup: tokss, targets: vec![tdef("\\td", "\\td"), tdef("\\te", "\\te")], nvals: NV });
    // \chardef values: letters, a 3-byte character (8364 = €) and U+10FFFF
    fn chr(i: usize) -> u32 {
        match i {
            3 => 8364,
            4 => 1114111,
            _ => 65 + i as u32,
        }
    }
    let chdef = |name: &'static str, lhs: &'static str| Target {
        name,
        setup: active_setup(lhs),
        probe: exec_probe(lhs),
        initial: format!("<undef {lhs}>"),
        forms: vec![abs_form("chardef", move |i| format!("\\chardef{lhs}={} ", chr(i)), |i| char::from_u32(chr(i)).unwrap().to_string())],
        default_text: None,
        edge: false,
        noop_text: Some(self_alias(lhs)),
    };
    v.push(Kind { name: "chardef", class: Class::ControlSequence, setup: String::new(), targets: vec![chdef("\\ch", "\\ch"), chdef("\\ß", "\\ß")], nvals: NV });
    v.push(Kind { name: "chardef-active", class: Class::ActiveChar, setup: String::new(), targets: vec![chdef("~", "~"), chdef("!", "!")], nvals: NV });
    let mcdef = |name: &'static str, lhs: &'static str| Target {
        name,
        setup: format!("\\mathchardef{lhs}=999 "),
        probe: format!("\\the{lhs} "),
        initial: "999".into(),
        forms: vec![abs_form("mathchardef", move |i| format!("\\mathchardef{lhs}={} ", if i == 2 { 32767 } else { i + 1 }), |i| (if i == 2 { 32767 } else { i + 1 }).to_string())],
        default_text: Some(format!("\\mathchardef{lhs}=999 ")),
        edge: false,
        noop_text: Some(self_alias(lhs)),
    };
    v.push(Kind { name: "mathchardef", class: Class::ControlSequence, setup: String::new(), targets: vec![mcdef("\\mc", "\\mc"), mcdef("\\md", "\\md")], nvals: NV });
    // ---------------------------------------------------------------- current font (\fna..\fns = 1..19, \fnt = 65535, \fnz = 0 = null font)
    fn fontno(i: usize) -> u32 {
        if i % 20 == 19 {
            65535
        } else {
            (i % 20) as u32 + 1
        }
    }
    v.push(Kind {
        name: "font",
        class: Class::Font,
        setup: String::new(),
        targets: vec![Target {
            name: "current font",
            setup: String::new(),
            probe: "\\probefont ".into(),
            initial: "F0".into(),
            forms: vec![
                abs_form("select", |i| format!("\\fn{} ", letter(b'a', i % 20)), |i| format!("F{}", fontno(i))),
                with_prefixes(abs_form("", |i| format!("\\fn{} ", letter(b'a', (i + 7) % 20)), |i| format!("F{}", fontno(i + 7))), "select-global-twice", ("", "\\global\\global")),
            ],
            default_text: Some("\\fnz ".into()),
            edge: false,
            noop_text: None,
        }],
        nvals: NV,
    });
    // ---------------------------------------------------------------- \globaldefs itself
    // three forms (positive, negative, zero: the sign is what matters; both 1 and the extreme value appear)
    let gd = |name: &'static str, vals: [i64; 2]| Form { name, gdef: false, prefixes: PLAIN, text: Box::new(move |i| format!("\\globaldefs={} ", vals[i % 2])), apply: Box::new(move |_, i| vals[i % 2].to_string()) };
    v.push(Kind {
        name: "globaldefs",
        class: Class::GlobalDefs,
        setup: String::new(),
        targets: vec![Target { name: "globaldefs", setup: String::new(), probe: "\\the\\globaldefs ".into(), initial: "0".into(), forms: vec![gd("=1", [1, 2147483647]), gd("=-1", [-1, -2147483647]), gd("=0", [0, 0])], default_text: None, edge: false, noop_text: None }],
        nvals: NV,
    });
    v
}
