//! Target kinds of C01: what can be assigned, how the assignment is written, how it is observed.
//!
//! Every kind has one or two *targets* that live in the same underlying container of the
//! implementation (same save-stack map / same command container), every target has one or more
//! assignment *forms*. The i-th value of a kind is distinct from the j-th (i != j below `nvals`), so
//! an observation tells which assignment is visible.

type TextFn = Box<dyn Fn(usize) -> String + Send + Sync>;
type ApplyFn = Box<dyn Fn(&str, usize) -> String + Send + Sync>;

/// (prefix tokens of the local variant, prefix tokens of the global variant)
pub type Prefixes = (&'static str, &'static str);
pub const PLAIN: Prefixes = ("", "\\global");

pub struct Form {
    pub name: &'static str,
    /// what is written in front of the assignment: TeX §1211 accumulates \global, \long, \outer in any order
    pub prefixes: Prefixes,
    /// the command is \gdef (tex.web §1218: global unless \globaldefs<0)
    pub gdef: bool,
    /// source text of the assignment of value i, without prefix, self-delimiting
    pub text: TextFn,
    /// observation after the assignment, given the observation before it
    pub apply: ApplyFn,
}

pub struct Target {
    pub name: &'static str,
    /// executed before the history, outside all groups; touches only this target
    pub setup: String,
    pub probe: String,
    pub initial: String,
    pub forms: Vec<Form>,
}

#[derive(Clone, Copy, PartialEq, Eq, Debug)]
pub enum Class {
    Variable,
    ControlSequence,
    ActiveChar,
    Font,
    GlobalDefs,
}

pub struct Kind {
    pub name: &'static str,
    pub class: Class,
    /// executed first; defines helpers only (never a target of any kind)
    pub setup: String,
    pub targets: Vec<Target>,
    pub nvals: usize,
}

pub const NV: usize = 20;
/// Category codes that are harmless for a character that only ever appears as a control symbol
/// (`\|`): no escape, end-of-line, ignored, comment or invalid.
const CATS: [u8; 10] = [11, 7, 8, 3, 4, 6, 13, 1, 2, 10];

fn abs_form(name: &'static str, text: impl Fn(usize) -> String + Send + Sync + 'static, obs: impl Fn(usize) -> String + Send + Sync + 'static) -> Form {
    Form { name, gdef: false, prefixes: PLAIN, text: Box::new(text), apply: Box::new(move |_, i| obs(i)) }
}
fn prefixed_def(name: &'static str, prefixes: Prefixes, lhs: &'static str, base: usize) -> Form {
    Form { name, gdef: false, prefixes, text: Box::new(move |i| format!("\\def{lhs}{{{}}}", base + i)), apply: Box::new(move |_, i| (base + i).to_string()) }
}
fn letter(base: u8, i: usize) -> char {
    (base + (i % 26) as u8) as char
}
/// probe text of a command target: a control word needs a delimiting space, an active char does not
fn exec_probe(lhs: &str) -> String {
    if lhs.starts_with('\\') {
        format!("{lhs} ")
    } else {
        lhs.to_string()
    }
}
/// `!` has to be made active first; `~` is active in the default table
fn active_setup(lhs: &str) -> String {
    if lhs == "!" {
        "\\catcode`\\!=13 ".into()
    } else {
        String::new()
    }
}

fn int_target(name: &'static str, lhs: &'static str, initial: i64, setup: &str, alias: Option<&'static str>) -> Target {
    let mut forms = vec![
        abs_form("set", move |i| format!("{lhs}={} ", i + 1), |i| (i + 1).to_string()),
        Form { name: "advance", gdef: false, prefixes: PLAIN, text: Box::new(move |i| format!("\\advance{lhs} by {} ", 100 * (i + 1))), apply: Box::new(|cur, i| (cur.parse::<i64>().unwrap() + 100 * (i as i64 + 1)).to_string()) },
    ];
    if let Some(a) = alias {
        forms.push(abs_form("set-through-alias", move |i| format!("{a}={} ", 50 + i), |i| (50 + i).to_string()));
    }
    Target { name, setup: setup.into(), probe: format!("\\the{lhs} "), initial: initial.to_string(), forms }
}

fn pt(obs: &str) -> (i64, i64) {
    // "N.0pt" or "N.0pt plus S.0pt"
    let mut it = obs.split(" plus ");
    let n = it.next().unwrap().trim_end_matches(".0pt").parse::<i64>().unwrap();
    let s = it.next().map(|x| x.trim_end_matches(".0pt").parse::<i64>().unwrap()).unwrap_or(0);
    (n, s)
}
fn glue_obs(n: i64, s: i64) -> String {
    if s == 0 {
        format!("{n}.0pt")
    } else {
        format!("{n}.0pt plus {s}.0pt")
    }
}

pub fn kinds() -> Vec<Kind> {
    let mut v = vec![];
    // ---------------------------------------------------------------- variables
    v.push(Kind {
        name: "count",
        class: Class::Variable,
        setup: String::new(),
        targets: vec![int_target("count1", "\\count1", 0, "\\countdef\\ca=1 ", Some("\\ca")), int_target("count2", "\\count2", 0, "", None)],
        nvals: NV,
    });
    let dimen = |name: &'static str, lhs: &'static str| Target {
        name,
        setup: String::new(),
        probe: format!("\\the{lhs} "),
        initial: "0.0pt".into(),
        forms: vec![
            abs_form("set", move |i| format!("{lhs}={}pt ", i + 1), |i| format!("{}.0pt", i + 1)),
            Form { name: "advance", gdef: false, prefixes: PLAIN, text: Box::new(move |i| format!("\\advance{lhs} by {}pt ", 100 * (i + 1))), apply: Box::new(|cur, i| format!("{}.0pt", pt(cur).0 + 100 * (i as i64 + 1))) },
        ],
    };
    v.push(Kind { name: "dimen", class: Class::Variable, setup: String::new(), targets: vec![dimen("dimen1", "\\dimen1"), dimen("dimen2", "\\dimen2")], nvals: NV });
    let skip = |name: &'static str, lhs: &'static str| Target {
        name,
        setup: String::new(),
        probe: format!("\\the{lhs} "),
        initial: "0.0pt".into(),
        forms: vec![
            abs_form("set", move |i| format!("{lhs}={}pt plus 1pt ", i + 1), |i| glue_obs(i as i64 + 1, 1)),
            Form {
                name: "advance",
                gdef: false,
                prefixes: PLAIN,
                text: Box::new(move |i| format!("\\advance{lhs} by {}pt plus 1pt ", 100 * (i + 1))),
                apply: Box::new(|cur, i| {
                    let (n, s) = pt(cur);
                    glue_obs(n + 100 * (i as i64 + 1), s + 1)
                }),
            },
        ],
    };
    v.push(Kind { name: "skip", class: Class::Variable, setup: String::new(), targets: vec![skip("skip1", "\\skip1"), skip("skip2", "\\skip2")], nvals: NV });
    let toks = |name: &'static str, lhs: &'static str, setup: &str, alias: Option<&'static str>| {
        let mut forms = vec![abs_form("set", move |i| format!("{lhs}={{{}}}", i + 1), |i| (i + 1).to_string())];
        if let Some(a) = alias {
            forms.push(abs_form("set-through-alias", move |i| format!("{a}={{{}}}", 50 + i), |i| (50 + i).to_string()));
        }
        Target { name, setup: setup.into(), probe: format!("\\the{lhs} "), initial: String::new(), forms }
    };
    v.push(Kind { name: "toks", class: Class::Variable, setup: String::new(), targets: vec![toks("toks1", "\\toks1", "\\toksdef\\ta=1 ", Some("\\ta")), toks("toks2", "\\toks2", "", None)], nvals: NV });
    let cat = |name: &'static str, ch: &'static str| Target {
        name,
        // the starting value is pinned by an assignment outside all groups, not by texcraft's default table
        setup: format!("\\catcode`\\{ch}=12 "),
        probe: format!("\\the\\catcode`\\{ch} "),
        initial: "12".into(),
        forms: vec![abs_form("set", move |i| format!("\\catcode`\\{ch}={} ", CATS[i % CATS.len()]), |i| CATS[i % CATS.len()].to_string())],
    };
    v.push(Kind { name: "catcode-low", class: Class::Variable, setup: String::new(), targets: vec![cat("catcode |", "|"), cat("catcode /", "/")], nvals: CATS.len() });
    v.push(Kind { name: "catcode-high", class: Class::Variable, setup: String::new(), targets: vec![cat("catcode é", "é"), cat("catcode ß", "ß")], nvals: CATS.len() });
    let mathcode = |name: &'static str, ch: &'static str| Target {
        name,
        setup: format!("\\mathcode`\\{ch}=777 "),
        probe: format!("\\the\\mathcode`\\{ch} "),
        initial: "777".into(),
        forms: vec![abs_form("set", move |i| format!("\\mathcode`\\{ch}={} ", i + 1), |i| (i + 1).to_string())],
    };
    v.push(Kind { name: "mathcode", class: Class::Variable, setup: String::new(), targets: vec![mathcode("mathcode |", "|"), mathcode("mathcode é", "é")], nvals: NV });
    v.push(Kind {
        name: "endlinechar",
        class: Class::Variable,
        setup: String::new(),
        targets: vec![Target { name: "endlinechar", setup: "\\endlinechar=13 ".into(), probe: "\\the\\endlinechar ".into(), initial: "13".into(), forms: vec![abs_form("set", |i| format!("\\endlinechar={} ", 65 + i), |i| (65 + i).to_string())] }],
        nvals: NV,
    });
    v.push(Kind { name: "time-singleton", class: Class::Variable, setup: String::new(), targets: vec![int_target("year", "\\year", 2000, "", None), int_target("month", "\\month", 1, "", None)], nvals: NV });
    v.push(Kind { name: "newint", class: Class::Variable, setup: String::new(), targets: vec![int_target("newInt a", "\\na", 0, "\\newInt\\na ", None), int_target("newInt b", "\\nb", 0, "\\newInt\\nb ", None)], nvals: NV });
    v.push(Kind { name: "newintarray", class: Class::Variable, setup: "\\newIntArray\\ia 3 ".into(), targets: vec![int_target("array[0]", "\\ia 0", 0, "", None), int_target("array[2]", "\\ia 2", 0, "", None)], nvals: NV });
    // ---------------------------------------------------------------- commands
    let mac = |name: &'static str, lhs: &'static str| Target {
        name,
        setup: active_setup(lhs),
        probe: exec_probe(lhs),
        initial: format!("<undef {lhs}>"),
        forms: vec![
            abs_form("def", move |i| format!("\\def{lhs}{{{}}}", i + 1), |i| (i + 1).to_string()),
            Form { name: "gdef", gdef: true, prefixes: PLAIN, text: Box::new(move |i| format!("\\gdef{lhs}{{{}}}", 50 + i)), apply: Box::new(|_, i| (50 + i).to_string()) },
            // \def with \long / \outer in every position relative to \global: scopes exactly like [\global]\def
            prefixed_def("long-def", ("\\long", "\\global\\long"), lhs, 100),
            prefixed_def("outer-def", ("\\outer", "\\global\\outer"), lhs, 200),
            prefixed_def("long-then-global-def", ("\\long", "\\long\\global"), lhs, 300),
            prefixed_def("outer-long-then-global-def", ("\\outer\\long", "\\outer\\long\\global"), lhs, 400),
            prefixed_def("global-then-long-outer-def", ("\\long\\outer", "\\global\\long\\outer"), lhs, 500),
        ],
    };
    v.push(Kind { name: "macro", class: Class::ControlSequence, setup: String::new(), targets: vec![mac("\\ma", "\\ma"), mac("\\mb", "\\mb")], nvals: NV });
    v.push(Kind { name: "macro-active", class: Class::ActiveChar, setup: String::new(), targets: vec![mac("~", "~"), mac("!", "!")], nvals: NV });
    let xdefs: String = (0..NV).map(|i| format!("\\def\\x{}{{X{}}}", letter(b'a', i), letter(b'a', i))).collect();
    let lett = |name: &'static str, lhs: &'static str| Target {
        name,
        setup: active_setup(lhs),
        probe: exec_probe(lhs),
        initial: format!("<undef {lhs}>"),
        forms: vec![
            abs_form("let-macro", move |i| format!("\\let{lhs}=\\x{} ", letter(b'a', i)), |i| format!("X{}", letter(b'a', i))),
            abs_form("let-char", move |i| format!("\\let{lhs}={}", letter(b'A', i)), |i| letter(b'A', i).to_string()),
        ],
    };
    v.push(Kind { name: "let", class: Class::ControlSequence, setup: xdefs.clone(), targets: vec![lett("\\la", "\\la"), lett("\\lb", "\\lb")], nvals: NV });
    v.push(Kind { name: "let-active", class: Class::ActiveChar, setup: xdefs.clone(), targets: vec![lett("~", "~"), lett("!", "!")], nvals: NV });
    let counts: String = (0..NV).map(|i| format!("\\count{}={} ", 10 + i, 100 + i)).collect::<String>() + "\\count9=99 ";
    let cdef = |name: &'static str, lhs: &'static str| Target {
        name,
        setup: format!("{}\\countdef{lhs}=9 ", active_setup(lhs)),
        probe: format!("\\the{}", exec_probe(lhs)),
        initial: "99".into(),
        forms: vec![abs_form("countdef", move |i| format!("\\countdef{lhs}={} ", 10 + i), |i| (100 + i).to_string())],
    };
    v.push(Kind { name: "countdef", class: Class::ControlSequence, setup: counts.clone(), targets: vec![cdef("\\cd", "\\cd"), cdef("\\ce", "\\ce")], nvals: NV });
    v.push(Kind { name: "countdef-active", class: Class::ActiveChar, setup: counts.clone(), targets: vec![cdef("~", "~"), cdef("!", "!")], nvals: NV });
    let tokss: String = (0..NV).map(|i| format!("\\toks{}={{T{}}}", 10 + i, i)).collect::<String>() + "\\toks9={T}";
    let tdef = |name: &'static str, lhs: &'static str| Target {
        name,
        setup: format!("\\toksdef{lhs}=9 "),
        probe: format!("\\the{lhs} "),
        initial: "T".into(),
        forms: vec![abs_form("toksdef", move |i| format!("\\toksdef{lhs}={} ", 10 + i), |i| format!("T{i}"))],
    };
    v.push(Kind { name: "toksdef", class: Class::ControlSequence, setup: tokss, targets: vec![tdef("\\td", "\\td"), tdef("\\te", "\\te")], nvals: NV });
    let chdef = |name: &'static str, lhs: &'static str| Target {
        name,
        setup: active_setup(lhs),
        probe: exec_probe(lhs),
        initial: format!("<undef {lhs}>"),
        forms: vec![abs_form("chardef", move |i| format!("\\chardef{lhs}={} ", 65 + i), |i| letter(b'A', i).to_string())],
    };
    v.push(Kind { name: "chardef", class: Class::ControlSequence, setup: String::new(), targets: vec![chdef("\\ch", "\\ch"), chdef("\\ci", "\\ci")], nvals: NV });
    v.push(Kind { name: "chardef-active", class: Class::ActiveChar, setup: String::new(), targets: vec![chdef("~", "~"), chdef("!", "!")], nvals: NV });
    let mcdef = |name: &'static str, lhs: &'static str| Target {
        name,
        setup: format!("\\mathchardef{lhs}=999 "),
        probe: format!("\\the{lhs} "),
        initial: "999".into(),
        forms: vec![abs_form("mathchardef", move |i| format!("\\mathchardef{lhs}={} ", i + 1), |i| (i + 1).to_string())],
    };
    v.push(Kind { name: "mathchardef", class: Class::ControlSequence, setup: String::new(), targets: vec![mcdef("\\mc", "\\mc"), mcdef("\\md", "\\md")], nvals: NV });
    // ---------------------------------------------------------------- current font
    v.push(Kind {
        name: "font",
        class: Class::Font,
        setup: String::new(),
        targets: vec![Target { name: "current font", setup: String::new(), probe: "\\probefont ".into(), initial: "F0".into(), forms: vec![abs_form("select", |i| format!("\\fn{} ", letter(b'a', i)), |i| format!("F{}", i + 1))] }],
        nvals: NV,
    });
    // ---------------------------------------------------------------- \globaldefs itself
    // three forms (+1, -1, 0: the sign is what matters) so that an alphabet can name them
    let gd = |name: &'static str, val: i64| Form { name, gdef: false, prefixes: PLAIN, text: Box::new(move |_| format!("\\globaldefs={val} ")), apply: Box::new(move |_, _| val.to_string()) };
    v.push(Kind {
        name: "globaldefs",
        class: Class::GlobalDefs,
        setup: String::new(),
        targets: vec![Target { name: "globaldefs", setup: String::new(), probe: "\\the\\globaldefs ".into(), initial: "0".into(), forms: vec![gd("=1", 1), gd("=-1", -1), gd("=0", 0)] }],
        nvals: NV,
    });
    v
}
