//! C01 — not built yet.
fn main() {
    eprintln!("c01: check not built yet");
    std::process::exit(2);
}
