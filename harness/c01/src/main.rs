//! C01 — group scoping in the VM: local assignments are undone when the group closes, global ones
//! survive at any depth, `\global` / `\globaldefs` affect exactly one assignment.
//! Engines: BEX (operation histories per target kind, deep nests, kind pairs) + XS (explicit-state
//! search per kind, merged on the drained implementation state). DESIGN.md §3 C01.
//!
//! Every case is one TeX program run on a fresh real VM (`vtex::HState`, real stdlib built-ins):
//!   setup ; probe  op1 ; probe  op2 ; probe … [ } ; probe ]*
//! where `probe` reads every target of the case. The oracle (`model.rs`, a stack of snapshots) is
//! compared with the implementation after EVERY operation.

mod kinds;
mod model;

use kinds::{Class, Kind};
use model::{effective_scope, Snapshots};
use serde_json::{json, Value};
use std::collections::BTreeMap;
use std::sync::Mutex;
use vcore::{Acc, Ctx, Level};
use vtex::texlang::{command, types, vm};

// ---------------------------------------------------------------- the VM under test

/// vtex::builtins() plus twenty font selectors \fna … \fnt (Font(1) … Font(20)), so that the n-th
/// font assignment of a history is distinguishable from all others.
fn new_vm() -> Box<vtex::Vm> {
    let mut m = vtex::builtins();
    const NAMES: [&str; 20] = ["fna", "fnb", "fnc", "fnd", "fne", "fnf", "fng", "fnh", "fni", "fnj", "fnk", "fnl", "fnm", "fnn", "fno", "fnp", "fnq", "fnr", "fns", "fnt"];
    for (i, n) in NAMES.iter().enumerate() {
        // \fna..\fns = fonts 1..19, \fnt = 65535 (the largest font number), \fnz = 0 (the null font)
        m.insert(n, command::BuiltIn::new_font(types::Font(if i == 19 { 65535 } else { i as u16 + 1 })));
    }
    m.insert("fnz", command::BuiltIn::new_font(types::Font(0)));
    let mut vm = vm::VM::<vtex::HState>::new_with_built_in_commands(m);
    vm.state.time = vtex::texlang_stdlib::time::Component::new_with_values(0, 1, 1, 2000);
    vtex::prepare(&mut vm);
    Box::new(vm)
}

// ---------------------------------------------------------------- programs

#[derive(Clone, Copy, PartialEq, Eq, Debug)]
enum Op {
    Open,
    Close,
    /// group delimiters reached through \let\bg={ \let\eg=} (implicit braces: the CharacterTokenAlias route of the VM)
    OpenImplicit,
    CloseImplicit,
    /// assignment to target `tgt` (index into Prog::targets) with form `f`, prefixed by \global if `g`.
    /// `f | SAME`: the form `f` writes again the value that is current at this point (only for forms
    /// whose value does not depend on the old one); scoping effects are those of any assignment.
    Assign { tgt: u8, f: u8, g: bool },
}

#[derive(Clone, Copy, PartialEq, Eq, Debug)]
enum ValueRule {
    /// the n-th assignment of the program writes value n (unique inside the program)
    Counter,
    /// the value is a function of (nesting depth, prefix): 2*depth + g. Used by XS, where the value
    /// must be a function of the state for merged states to have equal futures.
    ByDepth,
}

struct Prog<'a> {
    family: &'static str,
    kinds: Vec<&'a Kind>,
    /// (index into kinds, target index)
    targets: Vec<(usize, usize)>,
    ops: Vec<Op>,
    rule: ValueRule,
    /// after the history, close every open group with a probe after each `}`
    drain: bool,
}

#[derive(Default, Clone)]
struct Flags {
    nontrivial: bool,
    purge_depth_ge_2: bool,
    local_then_global: bool,
    global_then_local: bool,
    restore_shadowed_twice: bool,
    active_restored: bool,
    font_restored: bool,
    command_restored: bool,
    globaldefs_forced_global: bool,
    globaldefs_forced_local: bool,
    global_same_value_while_group_holds_save: bool,
    default_value_while_group_holds_save: bool,
    global_self_alias_after_local_redefinition: bool,
    global_noop_arithmetic_while_group_holds_save: bool,
    implicit_close_with_saved: bool,
    edge_target_restored: bool,
    non_ascii_target_restored: bool,
    /// a \global-prefixed assignment ran while \globaldefs>0 and later an unprefixed one ran inside a group while \globaldefs=0
    prefix_under_positive_globaldefs_then_plain_at_zero: bool,
    max_depth: usize,
}

struct Built {
    src: String,
    /// expected observation (one string per target) at every probe point
    expected: Vec<Vec<String>>,
    /// history points (= ops.len()+1); drain points follow
    hist_points: usize,
    flags: Flags,
    /// depth after the history
    depth: usize,
}

/// a probe point is written `;v1,v2:` – the terminator tells a complete probe from one cut short by a fatal error
const SAME: u8 = 0x80;
/// `f | DEFAULT`: the target's `default_text` – writes the INITIAL value again
const DEFAULT: u8 = 0x40;
/// `f | NOOP`: the target's `noop_text` (`\\let X=X`, `\\advance X by 0`) – cannot change the value, scopes like any assignment
const NOOP: u8 = 0x20;
const SEP: char = ';';
const TSEP: char = ',';
const END: char = ':';

impl<'a> Prog<'a> {
    fn target(&self, i: usize) -> &'a kinds::Target {
        let (k, t) = self.targets[i];
        &self.kinds[k].targets[t]
    }
    fn probe_text(&self) -> String {
        let mut s = String::new();
        s.push(SEP);
        for i in 0..self.targets.len() {
            if i > 0 {
                s.push(TSEP);
            }
            s.push_str(&self.target(i).probe);
        }
        s.push(END);
        s
    }
    /// None if the history closes a group that is not open.
    fn build(&self) -> Option<Built> {
        let mut src = String::new();
        let mut seen = vec![];
        for k in &self.kinds {
            if !seen.contains(&k.setup) {
                src.push_str(&k.setup);
                seen.push(k.setup.clone());
            }
        }
        for i in 0..self.targets.len() {
            src.push_str(&self.target(i).setup);
        }
        if self.ops.iter().any(|o| matches!(o, Op::OpenImplicit | Op::CloseImplicit)) {
            src.push_str("\\let\\bg={\\let\\eg=}");
        }
        let probe = self.probe_text();
        src.push_str(&probe);
        let mut m = Snapshots::new((0..self.targets.len()).map(|i| self.target(i).initial.clone()).collect());
        let gd_target = (0..self.targets.len()).find(|i| self.kinds[self.targets[*i].0].class == Class::GlobalDefs);
        let mut expected = vec![m.top().clone()];
        let mut flags = Flags::default();
        let mut n = 0usize;
        let mut prefixed_under_positive = false;
        // which value index is current at every level ("" = the initial value): same ops, same scopes
        let mut mi = Snapshots::new(vec![String::new(); self.targets.len()]);
        for op in &self.ops {
            match *op {
                Op::Open | Op::OpenImplicit => {
                    src.push_str(if *op == Op::Open { "{" } else { "\\bg " });
                    m.open();
                    mi.open();
                    flags.max_depth = flags.max_depth.max(m.depth());
                }
                Op::Close | Op::CloseImplicit => {
                    src.push_str(if *op == Op::Close { "}" } else { "\\eg " });
                    let ev = m.close()?;
                    mi.close();
                    if ev.close_with_saved {
                        flags.nontrivial = true;
                        if *op == Op::CloseImplicit {
                            flags.implicit_close_with_saved = true;
                        }
                    }
                    if let Some(t) = ev.restored_target {
                        let tg = self.target(t);
                        flags.edge_target_restored |= tg.edge;
                        flags.non_ascii_target_restored |= !tg.name.is_ascii();
                    }
                    flags.restore_shadowed_twice |= ev.restore_shadowed_twice;
                    if let Some(t) = ev.restored_target {
                        match self.kinds[self.targets[t].0].class {
                            Class::ActiveChar => flags.active_restored = true,
                            Class::Font => flags.font_restored = true,
                            Class::ControlSequence => flags.command_restored = true,
                            _ => {}
                        }
                    }
                }
                Op::Assign { tgt, f, g } => {
                    let tgt = tgt as usize;
                    let kind = self.kinds[self.targets[tgt].0];
                    let same = f & SAME != 0;
                    let dflt = f & DEFAULT != 0;
                    let noop = f & NOOP != 0;
                    let form = &self.target(tgt).forms[(f & !(SAME | DEFAULT | NOOP)) as usize];
                    let i = if noop {
                        0
                    } else if same {
                        // out of domain while the target still has its initial value (no form writes that)
                        mi.get(tgt).parse::<usize>().ok()?
                    } else {
                        match self.rule {
                            ValueRule::Counter => n % kind.nvals,
                            ValueRule::ByDepth => (2 * m.depth() + g as usize) % kind.nvals,
                        }
                    };
                    n += 1;
                    let gd: i64 = gd_target.map(|t| m.get(t).parse().unwrap()).unwrap_or(0);
                    let scope = effective_scope(g, form.gdef, gd);
                    if gd > 0 && !g && !form.gdef {
                        flags.globaldefs_forced_global = true;
                    }
                    if gd < 0 && g {
                        flags.globaldefs_forced_local = true;
                    }
                    if gd > 0 && g {
                        prefixed_under_positive = true;
                    }
                    if gd == 0 && !g && !form.gdef && prefixed_under_positive && m.depth() >= 1 {
                        flags.prefix_under_positive_globaldefs_then_plain_at_zero = true;
                    }
                    let mut new = if noop { m.get(tgt).to_string() } else { (form.apply)(m.get(tgt), i) };
                    if noop && scope == model::Scope::Global && m.some_group_holds_save(tgt) {
                        if kind.class == Class::Variable {
                            flags.global_noop_arithmetic_while_group_holds_save = true;
                        } else {
                            flags.global_self_alias_after_local_redefinition = true;
                        }
                    }
                    if dflt {
                        new = self.target(tgt).initial.clone();
                        if m.some_group_holds_save(tgt) {
                            flags.default_value_while_group_holds_save = true;
                        }
                    }
                    if same {
                        debug_assert_eq!(new, m.get(tgt));
                        if scope == model::Scope::Global && m.some_group_holds_save(tgt) {
                            flags.global_same_value_while_group_holds_save = true;
                        }
                    }
                    let cur_index = mi.get(tgt).to_string();
                    mi.assign(tgt, if dflt { String::new() } else if noop { cur_index } else { i.to_string() }, scope);
                    src.push_str(if g { form.prefixes.1 } else { form.prefixes.0 });
                    if noop {
                        src.push_str(self.target(tgt).noop_text.as_ref()?);
                    } else if dflt {
                        // out of domain for targets whose initial value cannot be written (undefined names)
                        src.push_str(self.target(tgt).default_text.as_ref()?);
                    } else {
                        src.push_str(&(form.text)(i));
                    }
                    let ev = m.assign(tgt, new, scope);
                    flags.purge_depth_ge_2 |= ev.purge_depth_ge_2;
                    flags.local_then_global |= ev.local_then_global_same_group;
                    flags.global_then_local |= ev.global_then_local_same_group;
                }
            }
            src.push_str(&probe);
            expected.push(m.top().clone());
        }
        let hist_points = expected.len();
        let depth = m.depth();
        if self.drain {
            while m.depth() > 0 {
                src.push('}');
                m.close();
                src.push_str(&probe);
                expected.push(m.top().clone());
            }
        }
        Some(Built { src, expected, hist_points, flags, depth })
    }
    /// Human-readable history up to and including op `upto` (exclusive end).
    fn shape(&self, upto: usize) -> String {
        let simple = self.targets.len() == 1 && self.ops.iter().all(|o| !matches!(o, Op::Assign { f, .. } if *f & !(SAME | DEFAULT | NOOP) != 0));
        let mut s = String::new();
        for op in &self.ops[..upto.min(self.ops.len())] {
            if !s.is_empty() {
                s.push(' ');
            }
            match *op {
                Op::Open => s.push('{'),
                Op::Close => s.push('}'),
                Op::OpenImplicit => s.push_str("\\bg"),
                Op::CloseImplicit => s.push_str("\\eg"),
                Op::Assign { tgt, f, g } => {
                    s.push(if g { 'G' } else { 'L' });
                    if f & SAME != 0 {
                        s.push('=');
                    }
                    if f & DEFAULT != 0 {
                        s.push('0');
                    }
                    if f & NOOP != 0 {
                        s.push_str("self");
                    }
                    if !simple {
                        let t = self.target(tgt as usize);
                        s.push_str(&format!("({}:{})", t.name, t.forms[(f & !(SAME | DEFAULT | NOOP)) as usize].name));
                    }
                }
            }
        }
        s
    }
    fn case_json(&self, built: &Built) -> Value {
        json!({
            "family": self.family,
            "kinds": self.kinds.iter().map(|k| k.name).collect::<Vec<_>>(),
            "targets": self.targets.iter().map(|(k, t)| json!([k, t])).collect::<Vec<_>>(),
            "ops": self.ops.iter().map(|o| match *o { Op::Open => json!("{"), Op::Close => json!("}"), Op::OpenImplicit => json!("\\bg"), Op::CloseImplicit => json!("\\eg"), Op::Assign { tgt, f, g } => json!([tgt, f, g]) }).collect::<Vec<_>>(),
            "value_rule": if self.rule == ValueRule::Counter { "counter" } else { "by-depth" },
            "drain": self.drain,
            "history": self.shape(self.ops.len()),
            "program": built.src,
        })
    }
}

fn prog_from_json<'a>(all: &'a [Kind], case: &Value) -> Option<Prog<'a>> {
    let kinds: Vec<&Kind> = case["kinds"].as_array()?.iter().map(|n| all.iter().find(|k| Some(k.name) == n.as_str())).collect::<Option<_>>()?;
    let targets = case["targets"].as_array()?.iter().map(|p| Some((p[0].as_u64()? as usize, p[1].as_u64()? as usize))).collect::<Option<Vec<_>>>()?;
    let ops = case["ops"]
        .as_array()?
        .iter()
        .map(|o| match o {
            Value::String(s) if s == "{" => Some(Op::Open),
            Value::String(s) if s == "}" => Some(Op::Close),
            Value::String(s) if s == "\\bg" => Some(Op::OpenImplicit),
            Value::String(s) if s == "\\eg" => Some(Op::CloseImplicit),
            Value::Array(a) => Some(Op::Assign { tgt: a[0].as_u64()? as u8, f: a[1].as_u64()? as u8, g: a[2].as_bool()? }),
            _ => None,
        })
        .collect::<Option<Vec<_>>>()?;
    let rule = if case["value_rule"] == "by-depth" { ValueRule::ByDepth } else { ValueRule::Counter };
    Some(Prog { family: "replay", kinds, targets, ops, rule, drain: case["drain"].as_bool().unwrap_or(false) })
}

// ---------------------------------------------------------------- execution and comparison

#[derive(Clone, Debug, PartialEq, Eq)]
enum Exec {
    /// probe segments (one Vec<String> per probe point reached), text before the first probe, fatal error
    Done { points: Vec<Vec<String>>, prelude: String, err: Option<String> },
    Cutoff,
    Panic(String),
}

fn execute(src: &str) -> Exec {
    match vcore::catch(|| {
        let mut vm = new_vm();
        vtex::run(&mut vm, src)
    }) {
        Ok(r) => {
            let mut segs: Vec<&str> = r.out.split(SEP).collect();
            let prelude = segs.remove(0).to_string();
            // a probe is complete if its terminator was delivered; what follows the terminator of
            // the last probe is the end-of-line token of the single source line
            let points = segs.iter().filter_map(|s| s.split_once(END)).map(|(s, _)| s.split(TSEP).map(|x| x.to_string()).collect()).collect();
            Exec::Done { points, prelude, err: r.err }
        }
        Err(p) if p.cutoff => Exec::Cutoff,
        Err(p) => Exec::Panic(p.describe()),
    }
}

struct Mismatch {
    /// probe point of the first divergence (0 = before the first op)
    pos: usize,
    expected: String,
    observed: String,
}

fn compare(built: &Built, e: &Exec) -> Result<(), Mismatch> {
    match e {
        Exec::Cutoff => Ok(()),
        Exec::Panic(p) => Err(Mismatch { pos: 0, expected: "the program runs".into(), observed: p.clone() }),
        Exec::Done { points, prelude, err } => {
            if !prelude.is_empty() {
                return Err(Mismatch { pos: 0, expected: "no output from the setup".into(), observed: format!("{prelude:?}") });
            }
            for (i, want) in built.expected.iter().enumerate() {
                match points.get(i) {
                    Some(got) if got == want => {}
                    Some(got) => return Err(Mismatch { pos: i, expected: format!("{want:?}"), observed: format!("{got:?}") }),
                    None => return Err(Mismatch { pos: i, expected: format!("{want:?}"), observed: format!("the run ended before this probe; fatal error: {err:?}") }),
                }
            }
            // What happens after the last probe (e.g. a complaint about groups still open at the end of
            // the input) is not a scoping statement: every value has been compared by then.
            Ok(())
        }
    }
}

const REEXEC: usize = 5;

/// first failing history per kind (shortest, then smallest index), for the evidence file
static WITNESSES: Mutex<BTreeMap<String, ((usize, &'static str, u64), Value)>> = Mutex::new(BTreeMap::new());

/// Runs one case. Returns the probe points of the implementation if it agreed with the model.
fn run_case(idx: u64, prog: &Prog, acc: &mut Acc) -> Option<(Built, Vec<Vec<String>>)> {
    let built = match prog.build() {
        Some(b) => b,
        None => {
            acc.skipped += 1;
            return None;
        }
    };
    acc.eval();
    acc.traces_validated += 1;
    let f = &built.flags;
    if f.nontrivial {
        acc.nontrivial();
    }
    for (on, name) in [
        (f.purge_depth_ge_2, "global_purged_saved_value_at_depth_ge_2"),
        (f.local_then_global, "local_then_global_same_group"),
        (f.global_then_local, "global_then_local_same_group"),
        (f.restore_shadowed_twice, "restore_of_value_shadowed_twice"),
        (f.active_restored, "active_char_target_restored"),
        (f.font_restored, "font_restored"),
        (f.command_restored, "control_sequence_target_restored"),
        (f.globaldefs_forced_global, "globaldefs_positive_forced_global"),
        (f.globaldefs_forced_local, "globaldefs_negative_overrode_global_prefix"),
        (f.global_same_value_while_group_holds_save, "global_assignment_of_current_value_while_a_group_holds_a_save"),
        (f.default_value_while_group_holds_save, "initial_value_assigned_again_while_a_group_holds_a_save"),
        (f.global_self_alias_after_local_redefinition, "global_self_alias_after_local_redefinition"),
        (f.global_noop_arithmetic_while_group_holds_save, "global_advance_by_zero_while_a_group_holds_a_save"),
        (f.implicit_close_with_saved, "implicit_brace_closes_group_with_saved_value"),
        (f.edge_target_restored, "first_or_last_element_target_restored"),
        (f.non_ascii_target_restored, "non_ascii_named_target_restored"),
        (f.prefix_under_positive_globaldefs_then_plain_at_zero, "global_prefix_under_positive_globaldefs_then_plain_assignment_at_zero"),
        (f.max_depth >= 8, "nesting_depth_8_reached"),
    ] {
        if on {
            acc.count(name);
        }
    }
    let first = execute(&built.src);
    if first == Exec::Cutoff {
        acc.cutoffs += 1;
        return None;
    }
    match compare(&built, &first) {
        Ok(()) => {
            if let Exec::Done { err: Some(e), .. } = &first {
                acc.class(&format!("all probes agree, the run then ends with: {e}"));
            }
            acc.class(&format!("ok {} depth<={} closes-with-saved={}", prog.kinds.iter().map(|k| k.name).collect::<Vec<_>>().join("+"), f.max_depth, f.nontrivial));
            match first {
                Exec::Done { points, .. } => Some((built, points)),
                _ => None,
            }
        }
        Err(mut mm) => {
            // the subject's hash order is not controllable: re-execute, any failing execution counts
            let mut failing = 1;
            for _ in 1..REEXEC {
                let e = execute(&built.src);
                match compare(&built, &e) {
                    Ok(()) => {}
                    Err(m2) => {
                        failing += 1;
                        if m2.pos < mm.pos {
                            mm = m2;
                        }
                    }
                }
            }
            let wlen = mm.pos.min(built.expected.len() - 1);
            let mut witness = prog.shape(wlen);
            for _ in prog.ops.len()..wlen {
                witness.push_str(" }");
            }
            let kindnames = prog.kinds.iter().map(|k| k.name).collect::<Vec<_>>().join("+");
            let last_op = if mm.pos == 0 || mm.pos > prog.ops.len() {
                if mm.pos == 0 { "start".to_string() } else { "drain".to_string() }
            } else {
                match prog.ops[mm.pos - 1] {
                    Op::Open => "{".into(),
                    Op::Close => "}".into(),
                    Op::OpenImplicit => "\\bg".into(),
                    Op::CloseImplicit => "\\eg".into(),
                    Op::Assign { tgt, f, g } => format!("{}{}:{}", if g { "\\global " } else { "" }, prog.kinds[prog.targets[tgt as usize].0].name, if f & SAME != 0 { format!("{} (same value)", prog.target(tgt as usize).forms[(f & !SAME) as usize].name) } else if f & DEFAULT != 0 { "initial value again".to_string() } else if f & NOOP != 0 { "no-op assignment (\\let X=X / \\advance by 0)".to_string() } else { prog.target(tgt as usize).forms[f as usize].name.to_string() }),
                }
            };
            acc.class(&format!("FAIL {kindnames}: first divergence after `{last_op}`"));
            let mut case = prog.case_json(&built);
            case["witness"] = json!(witness);
            case["executions_failing"] = json!(format!("{failing}/{REEXEC}"));
            case["order_dependent"] = json!(failing < REEXEC);
            {
                let mut w = WITNESSES.lock().unwrap();
                let key = (wlen, prog.family, idx);
                let better = match w.get(&kindnames) {
                    None => true,
                    Some((k, _)) => key < *k,
                };
                if better && prog.kinds.len() == 1 {
                    w.insert(kindnames.clone(), (key, json!({"family": prog.family, "history": witness, "expected": mm.expected, "observed": mm.observed})));
                }
            }
            // shortest witnesses first, whatever the enumeration order (xs re-indexes u64::MAX itself)
            let key = if idx == u64::MAX { idx } else { ((wlen as u64) << 48) | (idx & ((1 << 48) - 1)) };
            acc.fail(key, case, format!("after `{witness}`: {}", mm.expected), mm.observed, format!("[{kindnames}] implementation differs from the snapshot-stack model at probe point {} (first divergence after `{last_op}`); {failing}/{REEXEC} executions fail", mm.pos));
            None
        }
    }
}

// ---------------------------------------------------------------- index spaces

/// Concatenation of blocks of different sizes: idx -> (block, index inside the block).
struct Blocks<T> {
    items: Vec<T>,
    ends: Vec<u64>,
}
impl<T> Blocks<T> {
    fn new() -> Self {
        Blocks { items: vec![], ends: vec![] }
    }
    fn push(&mut self, item: T, n: u64) {
        let e = self.total() + n;
        self.items.push(item);
        self.ends.push(e);
    }
    fn total(&self) -> u64 {
        self.ends.last().copied().unwrap_or(0)
    }
    fn locate(&self, idx: u64) -> (&T, u64) {
        let b = self.ends.partition_point(|e| *e <= idx);
        let start = if b == 0 { 0 } else { self.ends[b - 1] };
        (&self.items[b], idx - start)
    }
}

/// Alphabet over the given targets: `{`, `}`, then for every listed (target, form): local, global.
fn alphabet(tf: &[(u8, u8)]) -> Vec<Op> {
    let mut a = vec![Op::Open, Op::Close];
    for (t, f) in tf {
        a.push(Op::Assign { tgt: *t, f: *f, g: false });
        a.push(Op::Assign { tgt: *t, f: *f, g: true });
    }
    a
}

fn pow(k: usize, l: usize) -> u64 {
    (k as u64).pow(l as u32)
}

struct HistBlock<'a> {
    kinds: Vec<&'a Kind>,
    targets: Vec<(usize, usize)>,
    alpha: Vec<Op>,
    len: usize,
}

fn run_hist_family(ctx: &mut Ctx, name: &'static str, bounds: &str, blocks: Blocks<HistBlock>, sample_every: u64) {
    let n = blocks.total();
    ctx.family(name, bounds, n, |idx, acc| {
        let (b, local) = blocks.locate(idx);
        let d = vcore::digits(local, &vec![b.alpha.len() as u64; b.len]);
        let prog = Prog { family: name, kinds: b.kinds.clone(), targets: b.targets.clone(), ops: d.iter().map(|x| b.alpha[*x as usize]).collect(), rule: ValueRule::Counter, drain: false };
        if let Some((built, _)) = run_case(idx, &prog, acc) {
            if idx % sample_every == sample_every / 2 {
                acc.sample(idx, || json!({"family": name, "kinds": prog.kinds.iter().map(|k| k.name).collect::<Vec<_>>(), "history": prog.shape(prog.ops.len()), "program": built.src, "expected_probe_points": built.expected}));
            }
        }
    });
}

// ---------------------------------------------------------------- main

fn main() {
    let mut ctx = Ctx::new("C01", Level::ModelChecking);
    let all = kinds::kinds();

    for e in model::self_validate() {
        ctx.machinery_error(format!("model self-validation: {e}"));
    }

    if let Some((_fam, case)) = ctx.replay_case() {
        let mut acc = Acc::default();
        match prog_from_json(&all, &case) {
            Some(p) => {
                run_case(0, &p, &mut acc);
            }
            None => {
                eprintln!("replay: cannot rebuild the case");
                std::process::exit(2);
            }
        }
        ctx.finish_replay(acc);
    }

    ctx.assume("oracle: tex.web §268-284 as a stack of snapshots (model.rs), scope of one assignment per §1211/§1214/§1218; validated against the repository's own TeX-recorded scoping tests before every run");
    ctx.assume("a history is in the domain only if it never closes a group that is not open (unbalanced histories are skipped, not run)");
    ctx.assume("the whole program is one source line, so \\endlinechar and \\catcode targets never change how the rest of the program is read; catcode targets are characters that occur only as control symbols (\\|, \\/, \\é, \\ß) and take the codes 1,2,3,4,6,7,8,10,11,13 only");
    ctx.assume("register aliases and \\mathchardef targets are observed with \\the, which has no error path for an undefined control sequence in texcraft (todo!()), so these targets are pre-defined outside all groups; macro, \\let and \\chardef targets start undefined and 'undefined again after the group' is observed through the undefined-command handler");
    ctx.assume("\\gdef is not combined with \\globaldefs in one program: with \\globaldefs<0 tex.web §1218 makes \\gdef local while texcraft keeps it global; the property speaks about the prefix, not about \\gdef under a negative \\globaldefs (reported separately in coverage.outside_property)");
    ctx.assume("hash order inside the subject cannot be seeded: a failing case is re-executed 5 times and reported if any execution fails; passing cases are executed once");
    ctx.assume("\\let to an undefined command, \\read as an assignment, \\font loading and math fonts are outside the alphabet (DESIGN §3 C01 X)");

    let quick = ctx.quick();
    let gd_index = all.iter().position(|k| k.class == Class::GlobalDefs).unwrap();

    // ---- (a1) every history over {, }, L, G per kind, first target, first form
    {
        let len = ctx.pick(7usize, 9usize);
        let mut blocks = Blocks::new();
        for (ki, k) in all.iter().enumerate() {
            if ki == gd_index {
                continue;
            }
            let alpha = alphabet(&[(0, 0)]);
            blocks.push(HistBlock { kinds: vec![k], targets: vec![(0, 0)], len, alpha: alpha.clone() }, pow(alpha.len(), len));
        }
        run_hist_family(&mut ctx, "histories-1target", &format!("per kind ({} kinds): every history of exactly {len} ops over {{ '{{', '}}', local, \\global }} on the first target (every shorter history is a prefix of one of them and is compared at its last op)", all.len() - 1), blocks, 5003);
    }
    // ---- (a1w) thorough only: one op longer, restricted to histories that end outside all groups
    if !quick {
        let len = 10usize;
        let alpha = alphabet(&[(0, 0)]);
        // all words of length `len` over the 4 ops with non-negative depth everywhere and depth 0 at the end
        let mut words: Vec<Vec<u8>> = vec![];
        fn rec(cur: &mut Vec<u8>, depth: usize, len: usize, out: &mut Vec<Vec<u8>>) {
            if cur.len() == len {
                if depth == 0 {
                    out.push(cur.clone());
                }
                return;
            }
            if depth > len - cur.len() {
                return;
            }
            for a in 0..4u8 {
                let d = match a {
                    0 => depth + 1,
                    1 => {
                        if depth == 0 {
                            continue;
                        }
                        depth - 1
                    }
                    _ => depth,
                };
                cur.push(a);
                rec(cur, d, len, out);
                cur.pop();
            }
        }
        rec(&mut vec![], 0, len, &mut words);
        let kinds1: Vec<&Kind> = all.iter().enumerate().filter(|(i, _)| *i != gd_index).map(|(_, k)| k).collect();
        let nw = words.len() as u64;
        ctx.family("histories-1target-closed", &format!("per kind ({} kinds): every history of exactly {len} ops over {{, }}, local, \\global that never closes an unopened group and ends at depth 0 ({nw} histories per kind)", kinds1.len()), nw * kinds1.len() as u64, |idx, acc| {
            let k = kinds1[(idx / nw) as usize];
            let w = &words[(idx % nw) as usize];
            let prog = Prog { family: "histories-1target-closed", kinds: vec![k], targets: vec![(0, 0)], ops: w.iter().map(|a| alpha[*a as usize]).collect(), rule: ValueRule::Counter, drain: false };
            if let Some((built, _)) = run_case(idx, &prog, acc) {
                if idx % 50021 == 25000 {
                    acc.sample(idx, || json!({"family": "histories-1target-closed", "kind": k.name, "history": prog.shape(prog.ops.len()), "program": built.src}));
                }
            }
        });
    }
    // ---- (a1f) all assignment forms of the first target
    {
        let budget: u64 = ctx.pick(8_000, 300_000);
        let mut blocks = Blocks::new();
        let mut desc = vec![];
        for k in all.iter() {
            // at most the first three forms (set/\\advance/alias, \\def/\\gdef, …); the prefix-order forms of the
            // macro kinds have their own family
            let nf = k.targets[0].forms.len().min(if k.name.starts_with("macro") { 2 } else { 3 });
            if nf < 2 {
                continue;
            }
            // \gdef is not combined with \globaldefs; no kind has both
            let tf: Vec<(u8, u8)> = (0..nf).map(|f| (0u8, f as u8)).collect();
            let alpha = alphabet(&tf);
            let mut len = 1;
            while pow(alpha.len(), len + 1) <= budget {
                len += 1;
            }
            desc.push(format!("{}:{}ops^{}", k.name, alpha.len(), len));
            blocks.push(HistBlock { kinds: vec![k], targets: vec![(0, 0)], len, alpha: alpha.clone() }, pow(alpha.len(), len));
        }
        run_hist_family(&mut ctx, "histories-all-forms", &format!("kinds whose first target has several assignment forms (set/\\advance/through-alias, \\def/\\gdef, \\let to macro/char, \\globaldefs=+1/-1/0): every history of exactly L ops over {{, }} and every form local/\\global, L the largest with |alphabet|^L <= {budget}: {}", desc.join(" ")), blocks, 4001);
    }
    // ---- (a2) two targets in the same container
    {
        let len = ctx.pick(5usize, 7usize);
        let mut blocks = Blocks::new();
        let mut nk = 0;
        for k in all.iter() {
            if k.targets.len() < 2 {
                continue;
            }
            nk += 1;
            let alpha = alphabet(&[(0, 0), (1, 0)]);
            blocks.push(HistBlock { kinds: vec![k], targets: vec![(0, 0), (0, 1)], len, alpha: alpha.clone() }, pow(alpha.len(), len));
        }
        run_hist_family(&mut ctx, "histories-2targets", &format!("per kind with two targets in the same container ({nk} kinds): every history of exactly {len} ops over {{, }}, local/\\global assignment to target A, local/\\global to target B; both targets probed after every op"), blocks, 3001);
    }
    // ---- (b) straight nests to depth d with clusters in the slots
    {
        const CLUSTERS: [&[bool]; 5] = [&[false], &[true], &[false, true], &[true, false], &[false, false]];
        let depths: Vec<usize> = if quick { vec![4, 8] } else { (1..=8).collect() };
        let maxc = ctx.pick(2usize, 3usize);
        struct NB<'a> {
            kind: &'a Kind,
            d: usize,
            tuples: Vec<Vec<usize>>,
            m: usize,
        }
        fn nondecreasing(slots: usize, m: usize) -> Vec<Vec<usize>> {
            let mut out = vec![];
            let mut cur = vec![0usize; m];
            loop {
                out.push(cur.clone());
                let mut i = m;
                loop {
                    if i == 0 {
                        return out;
                    }
                    i -= 1;
                    if cur[i] + 1 < slots {
                        cur[i] += 1;
                        for j in i + 1..m {
                            cur[j] = cur[i];
                        }
                        break;
                    }
                }
            }
        }
        let mut blocks = Blocks::new();
        for (ki, k) in all.iter().enumerate() {
            if ki == gd_index {
                continue;
            }
            for &d in &depths {
                for m in 0..=maxc {
                    let tuples = nondecreasing(2 * d + 1, m);
                    let n = tuples.len() as u64 * pow(CLUSTERS.len(), m);
                    blocks.push(NB { kind: k, d, tuples, m }, n);
                }
            }
        }
        let n = blocks.total();
        ctx.family("nest-clusters", &format!("per kind: `{{`^d `}}`^d for d in {depths:?} with 0..={maxc} clusters placed in any of the 2d+1 slots (several per slot allowed, in order), each cluster one of L, G, LG, GL, LL on the first target; probe after every op"), n, |idx, acc| {
            let (b, local) = blocks.locate(idx);
            let nc = pow(CLUSTERS.len(), b.m);
            let tuple = &b.tuples[(local / nc) as usize];
            let cl = vcore::digits(local % nc, &vec![CLUSTERS.len() as u64; b.m]);
            let mut ops = vec![];
            for slot in 0..=2 * b.d {
                for (j, s) in tuple.iter().enumerate() {
                    if *s == slot {
                        for g in CLUSTERS[cl[j] as usize] {
                            ops.push(Op::Assign { tgt: 0, f: 0, g: *g });
                        }
                    }
                }
                if slot < b.d {
                    ops.push(Op::Open);
                } else if slot < 2 * b.d {
                    ops.push(Op::Close);
                }
            }
            let prog = Prog { family: "nest-clusters", kinds: vec![b.kind], targets: vec![(0, 0)], ops, rule: ValueRule::Counter, drain: false };
            if let Some((built, _)) = run_case(idx, &prog, acc) {
                if idx % 7001 == 3500 {
                    acc.sample(idx, || json!({"family": "nest-clusters", "kind": b.kind.name, "history": prog.shape(prog.ops.len()), "program": built.src}));
                }
            }
        });
    }
    // ---- (c) kind pairs, including \globaldefs as a kind
    {
        let len6 = ctx.pick(4usize, 5usize);
        let len10 = ctx.pick(4usize, 5usize);
        let mut blocks = Blocks::new();
        let mut pairs = 0;
        for a in 0..all.len() {
            for b in a + 1..all.len() {
                let (ka, kb) = (&all[a], &all[b]);
                // the second kind uses its second target where it has one: kinds that share targets
                // (the active characters ~ and !) then never write the same target through two kinds
                let tb = if kb.targets.len() > 1 { 1 } else { 0 };
                let mut tf: Vec<(u8, u8)> = vec![];
                for (slot, k) in [(0u8, ka), (1u8, kb)] {
                    if k.class == Class::GlobalDefs {
                        tf.extend([(slot, 0), (slot, 1), (slot, 2)]);
                    } else {
                        tf.push((slot, 0));
                    }
                }
                let alpha = alphabet(&tf);
                let len = if alpha.len() > 6 { len10 } else { len6 };
                pairs += 1;
                blocks.push(HistBlock { kinds: vec![ka, kb], targets: vec![(0, 0), (1, tb)], len, alpha: alpha.clone() }, pow(alpha.len(), len));
            }
        }
        run_hist_family(&mut ctx, "kind-pairs", &format!("every unordered pair of kinds ({pairs} pairs, \\globaldefs is one of the kinds with the assignments =1, =-1, =0): every history of exactly {len6} ops over {{, }}, local/\\global assignment to a target of kind A, local/\\global to a target of kind B ({len10} ops for the 10-op alphabets with \\globaldefs)"), blocks, 9001);
    }
    // ---- (p) \\def with \\long / \\outer before, after and around \\global (TeX §1211: prefixes accumulate in any order)
    {
        let len = ctx.pick(4usize, 5usize);
        let mut blocks = Blocks::new();
        let mut nforms = 0;
        for k in all.iter().filter(|k| ["macro", "macro-active", "count", "font"].contains(&k.name)) {
            // macro kinds: every \\def form; count and font: plain and \\global\\global (the Variable / Font arm of the prefix code)
            let forms: Vec<u8> = (0..k.targets[0].forms.len() as u8).filter(|f| { let fm = &k.targets[0].forms[*f as usize]; !fm.gdef && (k.name.starts_with("macro") || *f == 0 || fm.prefixes != kinds::PLAIN) }).collect();
            nforms = nforms.max(forms.len());
            let tf: Vec<(u8, u8)> = forms.iter().map(|f| (0u8, *f)).collect();
            let alpha = alphabet(&tf);
            blocks.push(HistBlock { kinds: vec![k], targets: vec![(0, 0)], len, alpha: alpha.clone() }, pow(alpha.len(), len));
        }
        run_hist_family(&mut ctx, "prefix-order-histories", &format!("macro and macro-active: every history of exactly {len} ops over {{, }} and {nforms} forms of \\def (plain, \\long, \\outer, \\long…\\global, \\outer\\long…\\global, \\global\\long\\outer, \\global\\global), each local and global ({} ops); count and font: plain and \\global\\global assignment (6 ops)", 2 + 2 * nforms), blocks, 5009);
    }
    // ---- (d) assignments that write the INITIAL value again ("value == default => nothing to save" shortcuts)
    {
        let len = ctx.pick(5usize, 7usize);
        let alpha = vec![Op::Open, Op::Close, Op::Assign { tgt: 0, f: 0, g: false }, Op::Assign { tgt: 0, f: 0, g: true }, Op::Assign { tgt: 0, f: DEFAULT, g: false }, Op::Assign { tgt: 0, f: DEFAULT, g: true }];
        let mut blocks = Blocks::new();
        let mut nk = 0;
        for k in all.iter().filter(|k| k.targets[0].default_text.is_some()) {
            nk += 1;
            blocks.push(HistBlock { kinds: vec![k], targets: vec![(0, 0)], len, alpha: alpha.clone() }, pow(alpha.len(), len));
        }
        run_hist_family(&mut ctx, "initial-value-histories", &format!("per kind whose initial value can be written ({nk} kinds: registers 0 / empty, codes, \\endlinechar, aliases back to their first register, \\fnz = null font): every history of exactly {len} ops over {{, }}, L(new), G(new), L(initial value), G(initial value)"), blocks, 4007);
    }
    // ---- (n) assignments that cannot change the value: \\let X=X for every command kind, \\advance X by 0 for arithmetic variables
    {
        let len = ctx.pick(5usize, 7usize);
        let alpha = vec![Op::Open, Op::Close, Op::Assign { tgt: 0, f: 0, g: false }, Op::Assign { tgt: 0, f: 0, g: true }, Op::Assign { tgt: 0, f: NOOP, g: false }, Op::Assign { tgt: 0, f: NOOP, g: true }];
        let mut blocks = Blocks::new();
        let mut nk = 0;
        for k in all.iter().filter(|k| k.targets[0].noop_text.is_some()) {
            nk += 1;
            blocks.push(HistBlock { kinds: vec![k], targets: vec![(0, 0)], len, alpha: alpha.clone() }, pow(alpha.len(), len));
        }
        run_hist_family(&mut ctx, "noop-assignment-histories", &format!("per kind with a value-preserving assignment ({nk} kinds: \\let X=X for macro, \\let, \\countdef, \\toksdef, \\chardef, \\mathchardef targets, control sequences and active characters; \\advance X by 0 for count, dimen, skip, \\endlinechar, \\year, \\newInt, array elements): every history of exactly {len} ops over {{, }}, L(new), G(new), L(no-op), G(no-op)"), blocks, 4003);
    }
    // ---- (i) groups delimited by implicit braces (\let\bg={ \let\eg=}), mixed with explicit ones
    {
        let len = ctx.pick(5usize, 6usize);
        let alpha = vec![Op::Open, Op::Close, Op::OpenImplicit, Op::CloseImplicit, Op::Assign { tgt: 0, f: 0, g: false }, Op::Assign { tgt: 0, f: 0, g: true }];
        let mut blocks = Blocks::new();
        for (ki, k) in all.iter().enumerate() {
            if ki == gd_index {
                continue;
            }
            blocks.push(HistBlock { kinds: vec![k], targets: vec![(0, 0)], len, alpha: alpha.clone() }, pow(alpha.len(), len));
        }
        run_hist_family(&mut ctx, "implicit-brace-histories", &format!("per kind ({} kinds): every history of exactly {len} ops over {{, }}, \\bg, \\eg (implicit braces, any mixture with explicit ones), local, \\global", all.len() - 1), blocks, 5003);
    }
    // ---- (s) assignments that write the value that is already current ("unchanged => skip the save-stack work" shortcuts)
    let same_alpha = vec![Op::Open, Op::Close, Op::Assign { tgt: 0, f: 0, g: false }, Op::Assign { tgt: 0, f: 0, g: true }, Op::Assign { tgt: 0, f: SAME, g: false }, Op::Assign { tgt: 0, f: SAME, g: true }];
    {
        let len = ctx.pick(6usize, 7usize);
        let mut blocks = Blocks::new();
        for (ki, k) in all.iter().enumerate() {
            if ki == gd_index {
                continue;
            }
            blocks.push(HistBlock { kinds: vec![k], targets: vec![(0, 0)], len, alpha: same_alpha.clone() }, pow(same_alpha.len(), len));
        }
        run_hist_family(&mut ctx, "same-value-histories", &format!("per kind ({} kinds): every history of exactly {len} ops over {{, }}, L(new value), G(new value), L(the value that is current), G(the value that is current) on the first target; a same-value op on a target that still has its initial value is outside the domain (skipped)", all.len() - 1), blocks, 6007);
    }
    // ---- (g) one kind together with \globaldefs: longer histories than the pairs family, so that state kept by
    // the prefix machinery across a change of \globaldefs (e.g. a \global bit recorded but not consumed while
    // \globaldefs>0) meets a later unprefixed assignment after \globaldefs is back to 0
    {
        const REPRESENTATIVE: [&str; 7] = ["count", "toks", "catcode-low", "macro", "let", "countdef", "font"];
        let gdk = &all[gd_index];
        // (alphabet with \global\globaldefs variants?, length)
        let plans: Vec<(bool, usize)> = if quick { vec![(false, 6)] } else { vec![(false, 7), (true, 6)] };
        let mut blocks = Blocks::new();
        let mut desc = vec![];
        for (with_prefixed, len) in &plans {
            let mut alpha = vec![Op::Open, Op::Close, Op::Assign { tgt: 0, f: 0, g: false }, Op::Assign { tgt: 0, f: 0, g: true }];
            for f in 0..3u8 {
                alpha.push(Op::Assign { tgt: 1, f, g: false });
            }
            if *with_prefixed {
                for f in 0..3u8 {
                    alpha.push(Op::Assign { tgt: 1, f, g: true });
                }
            }
            desc.push(format!("{} ops ^ {}", alpha.len(), len));
            for name in REPRESENTATIVE {
                let k = all.iter().find(|k| k.name == name).expect("representative kind");
                blocks.push(HistBlock { kinds: vec![k, gdk], targets: vec![(0, 0), (1, 0)], len: *len, alpha: alpha.clone() }, pow(alpha.len(), *len));
            }
        }
        run_hist_family(&mut ctx, "globaldefs-histories", &format!("per kind in {REPRESENTATIVE:?} (one per container / scope-hook call site): every history of exactly L ops over {{, }}, local assign, \\global assign, \\globaldefs=1, \\globaldefs=-1, \\globaldefs=0 (and, in the larger alphabet, the three \\global\\globaldefs forms); {}; both the target and \\globaldefs probed after every op", desc.join(" and ")), blocks, 10007);
    }
    // ---- (xs) explicit-state search per kind, merged on the drained implementation state
    if ctx.wants("xs-drained-state") {
        let t = std::time::Instant::now();
        let depth = ctx.pick(10usize, 64usize);
        let mut total = Acc::default();
        let mut per_kind = serde_json::Map::new();
        let mut capped: Option<String> = None;
        let alpha = same_alpha.clone();
        for (ki, k) in all.iter().enumerate() {
            if ki == gd_index {
                continue;
            }
            let deadline = std::time::Instant::now() + std::time::Duration::from_secs_f64(ctx.remaining_s());
            let init: (usize, Vec<Vec<String>>) = (0, vec![vec![k.targets[0].initial.clone()]]);
            let mut alpha = alpha.clone();
            if k.targets[0].noop_text.is_some() {
                alpha.push(Op::Assign { tgt: 0, f: NOOP, g: false });
                alpha.push(Op::Assign { tgt: 0, f: NOOP, g: true });
            }
            let alpha = &alpha;
            let (acc, stats) = vcore::xs::bfs(alpha.len(), depth, 2_000_000, ctx.threads, deadline, init, |h, acc| {
                let prog = Prog { family: "xs-drained-state", kinds: vec![k], targets: vec![(0, 0)], ops: h.iter().map(|a| alpha[*a as usize]).collect(), rule: ValueRule::ByDepth, drain: true };
                // bound of the search: nesting depth 0..8 (the property's range)
                let mut d = 0i32;
                for o in &prog.ops {
                    match o {
                        Op::Open => d += 1,
                        Op::Close => d -= 1,
                        _ => {}
                    }
                    if !(0..=8).contains(&d) {
                        return None;
                    }
                }
                let (built, points) = run_case(u64::MAX, &prog, acc)?;
                // fingerprint = implementation observations: value at every open level (drained), depth
                Some((built.depth, points[built.hist_points - 1..].to_vec()))
            });
            per_kind.insert(k.name.into(), json!({"states": stats.states, "transitions": stats.transitions, "levels_completed": stats.depth_completed, "frontier_sizes": stats.frontier_sizes, "fixpoint": stats.frontier_sizes.len() < depth || stats.depth_completed < depth, "capped": stats.capped}));
            if stats.capped.is_some() && capped.is_none() {
                capped = stats.capped.clone().map(|c| format!("{}: {c}", k.name));
            }
            total.merge(acc);
        }
        total.sample(0, || json!({"family": "xs-drained-state", "per_kind": per_kind.get("count")}));
        ctx.extra("xs", json!({"history_length_bound": depth, "nesting_bound": 8, "per_kind": per_kind,
            "fingerprint": "(depth, value of the target at every open level) read from the real VM by running the history followed by `}` x depth with a probe after each `}`; the assigned value is a function of (depth, prefix) so that merged states have equal futures in the model. States that differ only in whether a save-stack entry holds a value equal to the current one are not distinguished (the un-merged BEX families cover those)."}));
        ctx.push_family("xs-drained-state", &format!("per kind: BFS over histories of {{, }}, local, \\global with a new value (= f(depth, prefix)) and local, \\global with the value that is current, and local, \\global no-op assignments (\\let X=X / \\advance X by 0) where the kind has one (first target) up to length {depth} at nesting depth <= 8, every history followed by a full drain with a probe after each `}}`; merged on the drained implementation state{}", if quick { "" } else { " (runs to the fixpoint: the complete reachable state space)" }), capped.is_none(), capped, t.elapsed().as_secs_f64(), total);
    }

    // informational, outside the property: \gdef under a negative \globaldefs (tex.web §1218: local)
    {
        let src = "{\\globaldefs=-1 \\gdef\\q{1}}\\q";
        let e = execute(&format!(";{src}:"));
        ctx.extra("outside_property", json!({"program": src, "tex_web_1218": "\\gdef is local when \\globaldefs<0, so \\q is undefined after the group", "texcraft": format!("{e:?}")}));
    }
    let w = WITNESSES.lock().unwrap();
    ctx.extra("failing_kinds_shortest_witness", json!(w.iter().map(|(k, v)| (k.clone(), v.1.clone())).collect::<BTreeMap<_, _>>()));
    drop(w);

    ctx.require("global_purged_saved_value_at_depth_ge_2", "a global assignment discards a saved value that lives at nesting depth >= 2");
    ctx.require("local_then_global_same_group", "local then global assignment to the same target inside one group");
    ctx.require("global_then_local_same_group", "global then local assignment to the same target inside one group");
    ctx.require("restore_of_value_shadowed_twice", "a closing group restores a value that itself shadows a saved value of an outer group");
    ctx.require("active_char_target_restored", "a closing group restores an active-character definition");
    ctx.require("font_restored", "a closing group restores the current font");
    ctx.require("control_sequence_target_restored", "a closing group restores a control-sequence definition");
    ctx.require("globaldefs_positive_forced_global", "an unprefixed assignment executed while \\globaldefs>0");
    ctx.require("globaldefs_negative_overrode_global_prefix", "a \\global assignment executed while \\globaldefs<0");
    ctx.require("global_prefix_under_positive_globaldefs_then_plain_assignment_at_zero", "a \\global-prefixed assignment ran while \\globaldefs>0 and a later unprefixed assignment ran inside a group with \\globaldefs=0");
    ctx.require("global_assignment_of_current_value_while_a_group_holds_a_save", "a global assignment writes the value that is already current while an open group holds a saved value for the target");
    ctx.require("initial_value_assigned_again_while_a_group_holds_a_save", "an assignment writes the initial (default) value while an open group holds a saved value for the target");
    ctx.require("global_self_alias_after_local_redefinition", "\\global\\let X=X executed while an open group holds a saved meaning of X");
    ctx.require("global_advance_by_zero_while_a_group_holds_a_save", "\\global\\advance X by 0 executed while an open group holds a saved value of X");
    ctx.require("implicit_brace_closes_group_with_saved_value", "a group that holds a saved value is closed by an implicit brace (\\let\\eg=})");
    ctx.require("first_or_last_element_target_restored", "a closing group restores register 0 / 32767 / 255, code-table entry 0 / 127 / 128 / U+10FFFE or the first / last array element");
    ctx.require("non_ascii_named_target_restored", "a closing group restores a target whose name is a 2-, 3- or 4-byte character");
    ctx.require("nesting_depth_8_reached", "a history reaches nesting depth 8");
    ctx.finish("a case is one operation history ({, }, local/\\global assignments) for one target kind or a pair of kinds, run as a TeX program on a fresh VM with a probe of every target after every op and compared with a stack-of-snapshots model at every probe; histories are enumerated exhaustively per family bound (index -> digits over the alphabet), never sampled; non-trivial = the history executes at least one `}` while the closing group holds a saved value for some target (computed on the model); distinct = distinct (kinds, history)");
}
