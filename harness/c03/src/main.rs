//! C03 — lexing follows TeX's scanner; every token traces to its source position.
//! Engine: BEX. The public `Lexer` API is run directly with a custom `lexer::Config` and a real
//! `Tracer`; the oracle is `reftex::scan` (tex.web §343-356 with positions). DESIGN.md §3 C03.

use reftex::scan::{self, Item, Table, TokV};
use serde_json::{json, Value};
use texlang::token::lexer::{self, Lexer};
use texlang::token::trace::{Origin, Tracer};
use texlang::token::{CommandRef, CsNameInterner, Token, Value as TValue};
use texlang::types::CatCode;
use vcore::{catch, Acc, Ctx, Level};

// ---------------------------------------------------------------- the case

#[derive(Clone, Debug)]
struct Case {
    src: String,
    elc: Option<char>,
    over: Vec<(char, u8)>,
    report: bool,
    /// dynamic configuration: from the (k+1)-th call of `Lexer::next` on, this end-line character and
    /// these reassignments are in force instead
    switch: Option<(usize, Option<char>, Vec<(char, u8)>)>,
}

impl Case {
    fn json(&self) -> Value {
        json!({
            "kind": "lex",
            "src": self.src,
            "elc": self.elc.map(|c| c as u32),
            "over": self.over.iter().map(|(c, k)| json!([*c as u32, k])).collect::<Vec<_>>(),
            "report": self.report,
            "switch": self.switch.as_ref().map(|(k, e, o)| json!({"after_calls": k, "elc": e.map(|c| c as u32), "over": o.iter().map(|(c, k)| json!([*c as u32, k])).collect::<Vec<_>>(),
                "readable": format!("from call {} of Lexer::next on: end-line char {:?}, plain TeX catcodes{}", k + 1, e, o.iter().map(|(c, k)| format!(" with catcode({c:?})={k}")).collect::<String>())})),
            "readable": format!("source {:?}, end-line char {:?}, plain TeX catcodes{}, report_end_of_line={}",
                self.src, self.elc,
                self.over.iter().map(|(c, k)| format!(" with catcode({c:?})={k}")).collect::<String>(), self.report),
        })
    }
    fn from_json(v: &Value) -> Case {
        Case {
            src: v["src"].as_str().unwrap_or("").to_string(),
            elc: v["elc"].as_u64().and_then(|u| char::from_u32(u as u32)),
            over: v["over"].as_array().map(|a| a.iter().map(|p| (char::from_u32(p[0].as_u64().unwrap() as u32).unwrap(), p[1].as_u64().unwrap() as u8)).collect()).unwrap_or_default(),
            report: v["report"].as_bool().unwrap_or(true),
            switch: if v["switch"].is_object() {
                let w = &v["switch"];
                Some((
                    w["after_calls"].as_u64().unwrap_or(0) as usize,
                    w["elc"].as_u64().and_then(|u| char::from_u32(u as u32)),
                    w["over"].as_array().map(|a| a.iter().map(|p| (char::from_u32(p[0].as_u64().unwrap() as u32).unwrap(), p[1].as_u64().unwrap() as u8)).collect()).unwrap_or_default(),
                ))
            } else {
                None
            },
        }
    }
}

/// The implementation's base table, as TeX category numbers.
fn base_low() -> [u8; 128] {
    let mut low = [12u8; 128];
    for (i, c) in CatCode::PLAIN_TEX_DEFAULTS.iter().enumerate() {
        low[i] = *c as u8;
    }
    low
}

struct ImplCfg<'a> {
    over: &'a [(char, u8)],
    elc: Option<char>,
}
impl lexer::Config for ImplCfg<'_> {
    fn cat_code(&self, c: char) -> CatCode {
        for (x, k) in self.over {
            if *x == c {
                return CatCode::try_from(*k).unwrap();
            }
        }
        CatCode::PLAIN_TEX_DEFAULTS.get(c as usize).copied().unwrap_or_default()
    }
    fn end_line_char(&self) -> Option<char> {
        self.elc
    }
}

/// One observed item of the real lexer, with its trace.
#[derive(Clone, Debug, PartialEq, Eq)]
enum Obs {
    Tok { v: TokV, line: usize, col: usize, content: String, value: String },
    Invalid { c: char, line: usize, col: usize, content: String },
    NewLine,
    /// the lexer kept producing items beyond any possible number
    Runaway,
}

const DECOY: &str = "zz\nz";

fn run_impl(case: &Case) -> Vec<Obs> {
    let cfg1 = ImplCfg { over: &case.over, elc: case.elc };
    let (k_switch, cfg2) = match &case.switch {
        Some((k, e, o)) => (*k, ImplCfg { over: o, elc: *e }),
        None => (usize::MAX, ImplCfg { over: &case.over, elc: case.elc }),
    };
    let mut calls = 0usize;
    let mut tracer: Tracer = Default::default();
    let mut interner: CsNameInterner = Default::default();
    // a source registered before and one after: keys do not start at 0, and a key that leaves its
    // range lands in another source's text
    let _ = tracer.register_source_code(None, Origin::Terminal, DECOY);
    let range = tracer.register_source_code(None, Origin::File("case.tex".into()), &case.src);
    let _ = tracer.register_source_code(None, Origin::Terminal, DECOY);
    let mut lx = Lexer::new(case.src.clone(), range);
    let cap = 4 * case.src.chars().count() + 16;
    let mut out = Vec::with_capacity(8);
    loop {
        let cfg = if calls >= k_switch { &cfg2 } else { &cfg1 };
        calls += 1;
        match lx.next(cfg, &mut interner, case.report) {
            lexer::Result::Token(t) => {
                let tr = tracer.trace(t, &interner);
                let v = match t.value() {
                    TValue::CommandRef(CommandRef::ControlSequence(n)) => TokV::Cs(interner.resolve(n).unwrap().to_string()),
                    v => {
                        let (c, k) = v.char_and_cat_code().unwrap();
                        TokV::Ch(c, k as u8)
                    }
                };
                let origin_ok = tr.origin == Origin::File("case.tex".into());
                out.push(Obs::Tok { v, line: tr.line_number, col: tr.index, content: if origin_ok { tr.line_content } else { format!("<other source> {}", tr.line_content) }, value: tr.value });
            }
            lexer::Result::InvalidCharacter(c, key) => {
                // the way the VM traces it (InvalidCharacterError::new)
                let tr = tracer.trace(Token::new_letter(c, key), &interner);
                let origin_ok = tr.origin == Origin::File("case.tex".into());
                out.push(Obs::Invalid { c, line: tr.line_number, col: tr.index, content: if origin_ok { tr.line_content } else { format!("<other source> {}", tr.line_content) } });
            }
            lexer::Result::EndOfLine => out.push(Obs::NewLine),
            lexer::Result::EndOfInput => break,
        }
        if out.len() > cap {
            out.push(Obs::Runaway);
            break;
        }
    }
    // the end of input is stable
    if !matches!(lx.next(&cfg2, &mut interner, case.report), lexer::Result::EndOfInput) {
        out.push(Obs::Runaway);
    }
    out
}

/// Two sources registered in one tracer, their lexers driven in turn (order 0) or the second one first
/// (order 1); all tokens are traced only at the end, when every source is registered.
fn run_two(a: &Case, b: &Case, order: u8) -> (Vec<Obs>, Vec<Obs>) {
    let mut tracer: Tracer = Default::default();
    let mut interner: CsNameInterner = Default::default();
    let _ = tracer.register_source_code(None, Origin::Terminal, DECOY);
    let ra = tracer.register_source_code(None, Origin::File("a.tex".into()), &a.src);
    let rb = tracer.register_source_code(None, Origin::File("b.tex".into()), &b.src);
    let _ = tracer.register_source_code(None, Origin::Terminal, DECOY);
    let mut lx = [Lexer::new(a.src.clone(), ra), Lexer::new(b.src.clone(), rb)];
    let cases = [a, b];
    let mut raw: [Vec<lexer::Result>; 2] = [vec![], vec![]];
    let mut done = [false, false];
    let mut turn = if order == 0 { 0 } else { 1 };
    let cap = 4 * (a.src.chars().count() + b.src.chars().count()) + 32;
    let mut n = 0;
    while !(done[0] && done[1]) && n < cap {
        n += 1;
        if !done[turn] {
            let cfg = ImplCfg { over: &cases[turn].over, elc: cases[turn].elc };
            match lx[turn].next(&cfg, &mut interner, cases[turn].report) {
                lexer::Result::EndOfInput => done[turn] = true,
                r => raw[turn].push(r),
            }
        }
        // order 0: strictly alternating; order 1: the second source to its end, then the first
        if order == 0 || done[turn] {
            turn = 1 - turn;
        }
    }
    let names = ["a.tex", "b.tex"];
    let mut out: [Vec<Obs>; 2] = [vec![], vec![]];
    for k in 0..2 {
        for r in &raw[k] {
            match r {
                lexer::Result::Token(t) => {
                    let tr = tracer.trace(*t, &interner);
                    let v = match t.value() {
                        TValue::CommandRef(CommandRef::ControlSequence(n)) => TokV::Cs(interner.resolve(n).unwrap().to_string()),
                        v => {
                            let (c, k) = v.char_and_cat_code().unwrap();
                            TokV::Ch(c, k as u8)
                        }
                    };
                    let ok = tr.origin == Origin::File(names[k].into());
                    out[k].push(Obs::Tok { v, line: tr.line_number, col: tr.index, content: if ok { tr.line_content } else { format!("<other source> {}", tr.line_content) }, value: tr.value });
                }
                lexer::Result::InvalidCharacter(c, key) => {
                    let tr = tracer.trace(Token::new_letter(*c, *key), &interner);
                    out[k].push(Obs::Invalid { c: *c, line: tr.line_number, col: tr.index, content: tr.line_content });
                }
                lexer::Result::EndOfLine => out[k].push(Obs::NewLine),
                lexer::Result::EndOfInput => {}
            }
        }
        if !done[k] {
            out[k].push(Obs::Runaway);
        }
    }
    let [x, y] = out;
    (x, y)
}

fn judge_two(idx: u64, a: &Case, b: &Case, order: u8, low: &[u8; 128], acc: &mut Acc) {
    acc.eval();
    let ea = model_side(a, low);
    let eb = model_side(b, low);
    let na = ea.items.iter().filter(|i| matches!(i, Item::Tok(_))).count();
    let nb = eb.items.iter().filter(|i| matches!(i, Item::Tok(_))).count();
    if na >= 1 && nb >= 1 {
        acc.nontrivial();
        acc.count("two_sources_both_deliver_tokens");
    }
    let case = || json!({"kind": "two", "a": a.json(), "b": b.json(), "order": order});
    let want = format!("a.tex: {} | b.tex: {}", show(&expect(&ea.items, &ea.src, a.report)), show(&expect(&eb.items, &eb.src, b.report)));
    match catch(|| run_two(a, b, order)) {
        Err(p) => acc.fail(idx, case(), want, p.describe(), "the lexer / tracer panicked"),
        Ok((ga, gb)) => {
            for (e, g, name) in [(&ea, &ga, "a.tex"), (&eb, &gb, "b.tex")] {
                let ok = relaxed_agree(&e.items, &e.src, g).is_ok() || e.nohex.as_ref().map(|(i0, s0)| relaxed_agree(i0, s0, g).is_ok()).unwrap_or(false);
                if !ok {
                    let what = relaxed_agree(&e.items, &e.src, g).err().unwrap_or_default();
                    acc.fail(idx, case(), want.clone(), format!("a.tex: {} | b.tex: {}", show(&ga), show(&gb)), format!("{what} [tokens of {name}, two sources in one tracer]"));
                    return;
                }
            }
        }
    }
}

fn model_cfg(case: &Case, low: &[u8; 128], hex: bool) -> scan::Config {
    scan::Config { table: Table { low: *low, over: case.over.clone() }, end_line_char: case.elc, hex }
}

/// Expected observations from the model's items.
fn expect(items: &[Item], src: &scan::Source, report: bool) -> Vec<Obs> {
    let mut out = Vec::with_capacity(items.len());
    for i in items {
        match i {
            Item::Tok(t) => out.push(Obs::Tok { v: t.v.clone(), line: t.line, col: t.col, content: src.line_text(t.line).to_string(), value: t.v.text() }),
            Item::Invalid { c, line, col } => out.push(Obs::Invalid { c: *c, line: *line, col: *col, content: src.line_text(*line).to_string() }),
            Item::NewLine => {
                if report {
                    out.push(Obs::NewLine)
                }
            }
            Item::End => {}
        }
    }
    out
}

fn run_model(case: &Case, low: &[u8; 128], hex: bool) -> (Vec<Item>, scan::Source) {
    let cfg = model_cfg(case, low, hex);
    let cfg2 = case.switch.as_ref().map(|(_, e, o)| scan::Config { table: Table { low: *low, over: o.clone() }, end_line_char: *e, hex });
    let mut s = scan::Source::new(&case.src);
    let mut items = vec![];
    let mut calls = 0usize;
    loop {
        let c = match (&case.switch, &cfg2) {
            (Some((k, _, _)), Some(c2)) if calls >= *k => c2,
            _ => &cfg,
        };
        calls += 1;
        // one call of Lexer::next = one item; when line ends are not reported the next line is loaded
        // inside the same call, i.e. under the same configuration
        let item = loop {
            match s.next(c) {
                Item::NewLine if case.switch.is_some() && !case.report => continue,
                i => break i,
            }
        };
        match item {
            Item::End => break,
            i => items.push(i),
        }
    }
    (items, s)
}

fn show(v: &[Obs]) -> String {
    v.iter()
        .map(|o| match o {
            Obs::Tok { v, line, col, content, value } => format!("{}@{}:{}[{:?} {:?}]", v.exact(), line, col, content, value),
            Obs::Invalid { c, line, col, content } => format!("INVALID({:?})@{}:{}[{:?}]", c, line, col, content),
            Obs::NewLine => "EOL".into(),
            Obs::Runaway => "RUNAWAY".into(),
        })
        .collect::<Vec<_>>()
        .join(" ")
}

/// What the property statement supports (AUDIT.md): token values and their order; for every token the
/// line number, a column inside the source span the token started at, and the text of that line;
/// invalid characters reported in place, scanning going on. Not supported and therefore only
/// recorded: where `EndOfLine` markers are placed, which character of a `^^` sequence (or which of the
/// trimmed positions, for the end-line character) the column names, whether the line text carries
/// its trailing blanks, the rendering in `trace.value`, the trace position of an invalid character.
/// Returns the relaxations that were needed, or the kind of the first real difference.
fn relaxed_agree(items: &[Item], src: &scan::Source, got: &[Obs]) -> Result<Vec<&'static str>, String> {
    let mut used: Vec<&'static str> = vec![];
    let mut note = |s: &'static str, used: &mut Vec<&'static str>| {
        if !used.contains(&s) {
            used.push(s)
        }
    };
    let want: Vec<&Item> = items.iter().filter(|i| !matches!(i, Item::NewLine | Item::End)).collect();
    let got_t: Vec<&Obs> = got.iter().filter(|o| !matches!(o, Obs::NewLine)).collect();
    if got.iter().any(|o| matches!(o, Obs::Runaway)) {
        return Err("number of items (the lexer does not stop)".into());
    }
    for (i, (w, g)) in want.iter().zip(got_t.iter()).enumerate() {
        match (w, g) {
            (Item::Tok(t), Obs::Tok { v, line, col, content, value }) => {
                if &t.v != v {
                    return Err(format!("token value differs (first difference at item {i})"));
                }
                if t.line != *line {
                    return Err(format!("line number differs (first difference at item {i})"));
                }
                let raw = src.line_text(t.line);
                let trimmed = raw.trim_end_matches(' ');
                let tlen = trimmed.chars().count();
                // the end-line character stands for everything that was trimmed, line terminator included
                let hi = if t.col >= tlen { raw.chars().count() } else { t.col };
                if *col < t.col_first || *col > hi {
                    return Err(format!("column differs (first difference at item {i})"));
                }
                if *col != t.col {
                    note("column: another character of the token's source span than the last one", &mut used);
                }
                if !(raw.starts_with(content.as_str()) && content.starts_with(trimmed)) {
                    return Err(format!("line text differs (first difference at item {i})"));
                }
                if content != raw {
                    note("line text: without (all of) its trailing blanks", &mut used);
                }
                if *value != t.v.text() {
                    note("trace.value: other rendering than \\name / the character", &mut used);
                }
            }
            (Item::Invalid { c, line, col }, Obs::Invalid { c: gc, line: gl, col: gcol, .. }) => {
                if c != gc {
                    return Err(format!("invalid character differs (first difference at item {i})"));
                }
                if (line, col) != (gl, gcol) {
                    note("trace position of an invalid character", &mut used);
                }
            }
            _ => return Err(format!("item kind differs (first difference at item {i})")),
        }
    }
    if want.len() != got_t.len() {
        return Err(format!("number of items differs ({} expected, {} delivered)", want.len(), got_t.len()));
    }
    note("EndOfLine markers placed otherwise than at the start of the next line", &mut used);
    Ok(used)
}

/// Precomputed model side of one (source, table, end-line char): both report flags share it.
struct Expected {
    items: Vec<Item>,
    src: scan::Source,
    /// model with hex = false, only when a two-hex-digit form was available
    nohex: Option<(Vec<Item>, scan::Source)>,
}

fn model_side(case: &Case, low: &[u8; 128]) -> Expected {
    let (items, src) = run_model(case, low, true);
    let nohex = if src.ev.hex_form_seen { Some(run_model(case, low, false)) } else { None };
    Expected { items, src, nohex }
}

fn count_case(case: &Case, low: &[u8; 128], e: &Expected, acc: &mut Acc) {
    let ev = &e.src.ev;
    let ntok = e.items.iter().filter(|i| matches!(i, Item::Tok(_))).count();
    if ntok >= 2 || ev.state_changes >= 1 {
        acc.nontrivial();
    }
    if ev.caret_at_line_end {
        acc.count("caret_at_line_end");
    }
    if ev.caret_in_name {
        acc.count("caret_in_name");
    }
    if ev.caret_recursive {
        acc.count("caret_recursive");
    }
    if ev.trailing_blanks_trimmed {
        acc.count("trailing_blanks_trimmed");
    }
    if ev.hex_form_seen {
        acc.count("hex_form_available");
    }
    if ev.caret_before_non_ascii {
        acc.count("caret_before_non_ascii");
    }
    if let Some(ec) = case.elc {
        if !case.src.is_empty() {
            let t = Table { low: *low, over: case.over.clone() };
            match t.cat(ec) {
                scan::LETTER => acc.count("elc_letter"),
                scan::SUP_MARK => acc.count("elc_superscript"),
                scan::ESCAPE => acc.count("elc_escape"),
                _ => {}
            }
        }
    }
    // a traced token after a non-ASCII character of the source
    let mut first_na: Option<(usize, usize)> = None;
    'f: for (li, l) in e.src.lines.iter().enumerate() {
        for (ci, c) in l.chars().enumerate() {
            if !c.is_ascii() {
                first_na = Some((li + 1, ci));
                break 'f;
            }
        }
    }
    if let Some(p) = first_na {
        if e.items.iter().any(|i| matches!(i, Item::Tok(t) if (t.line, t.col) > p)) {
            acc.count("nonascii_before_token");
        }
    }
    let mut class = format!("t{}", ntok.min(7));
    if e.items.iter().any(|i| matches!(i, Item::Tok(t) if matches!(t.v, TokV::Cs(_)))) {
        class.push('c');
    }
    if ev.reductions > 0 {
        class.push('r');
    }
    if e.items.iter().any(|i| matches!(i, Item::Invalid { .. })) {
        class.push('i');
    }
    if e.items.iter().any(|i| matches!(i, Item::NewLine)) {
        class.push('n');
    }
    class.push_str(&format!("s{}", ev.state_changes.min(5)));
    acc.class(&class);
}

/// Judge one case against the precomputed model side.
fn judge(idx: u64, case: &Case, e: &Expected, acc: &mut Acc) {
    acc.eval();
    let want = expect(&e.items, &e.src, case.report);
    let got = match catch(|| run_impl(case)) {
        Ok(g) => g,
        Err(p) => {
            acc.fail(idx, case.json(), show(&want), p.describe(), "the lexer / tracer panicked");
            return;
        }
    };
    if got == want {
        return;
    }
    // not identical to the model's own conventions: is everything the statement supports still right?
    let real = match relaxed_agree(&e.items, &e.src, &got) {
        Ok(used) => {
            for u in used {
                acc.class(&format!("conforming, differs in an unspecified detail: {u}"));
            }
            acc.count("conforming_but_not_identical_to_model_conventions");
            return;
        }
        Err(what) => what,
    };
    if let Some((items0, src0)) = &e.nohex {
        // finding D4: applies = a doubled catcode-7 character followed by two of 0-9a-f was met by the
        // scanner (after earlier reductions, end-line character included); adjusted = model, hex off
        let want0 = expect(items0, src0, case.report);
        if got == want0 || relaxed_agree(items0, src0, &got).is_ok() {
            acc.known("D4", idx, || {
                let mut j = case.json();
                j["expected_tex"] = json!(show(&want));
                j["observed"] = json!(show(&got));
                j
            });
            return;
        }
    }
    acc.fail(idx, case.json(), show(&want), show(&got), real);
}

// ---------------------------------------------------------------- enumeration

const SIGMA_Q: [char; 9] = ['\\', '{', '^', ' ', '\n', 'a', 'M', '%', 'é'];
const SIGMA_T: [char; 16] = ['\\', '{', '^', ' ', '\n', 'a', 'M', '%', 'é', '\r', '\0', '\u{7f}', '~', '5', 'e', '\t'];
/// caret-centred alphabet: U+001E is `^`-64 (`^^` + U+001E = `^`), `5e` is the hex form of `^`, `M`+64.. gives CR
const SIGMA_C: [char; 9] = ['^', '\u{1e}', '\\', 'a', '5', 'e', 'M', 'é', '\n'];
const ELCS: [Option<char>; 7] = [Some('\r'), None, Some('a'), Some('^'), Some(' '), Some('%'), Some('\\')];

fn nth_src(sigma: &[char], i: u64) -> String {
    vcore::nth_string(sigma.len() as u64, i).into_iter().map(|d| sigma[d as usize]).collect()
}

/// Characters whose category code is worth reassigning for this source: the characters that occur
/// (newline excepted: it never reaches the scanner), the end-line character, and every character a
/// `^^x` reduction of the text could produce (x +- 64 for an ASCII x that follows a doubled
/// character on its line, the end-line character included).
fn candidates(src: &str, elc: Option<char>) -> Vec<char> {
    let mut v: Vec<char> = src.chars().filter(|c| *c != '\n').collect();
    if let Some(e) = elc {
        v.push(e);
    }
    for line in scan::split_lines(src) {
        let mut l: Vec<char> = line.trim_end_matches(' ').chars().collect();
        if let Some(e) = elc {
            l.push(e);
        }
        for i in 2..l.len() {
            if l[i - 1] == l[i - 2] && l[i].is_ascii() {
                let u = l[i] as u32;
                v.push(char::from_u32(if u < 64 { u + 64 } else { u - 64 }).unwrap());
            }
        }
    }
    v.retain(|c| *c != '\n');
    v.sort();
    v.dedup();
    v
}

fn plain_cat(low: &[u8; 128], c: char) -> u8 {
    if (c as u32) < 128 {
        low[c as usize]
    } else {
        12
    }
}

/// All cases of one (source, end-line char) with `ndev` reassigned characters, both report flags.
fn sweep(idx: u64, src: &str, elc: Option<char>, ndev: usize, low: &[u8; 128], acc: &mut Acc) {
    let one = |over: Vec<(char, u8)>, acc: &mut Acc| {
        let mut case = Case { src: src.to_string(), elc, over, report: true, switch: None };
        let e = model_side(&case, low);
        count_case(&case, low, &e, acc);
        judge(idx, &case, &e, acc);
        case.report = false;
        count_case(&case, low, &e, acc);
        judge(idx, &case, &e, acc);
        if idx % 40009 == 4711 && case.over.len() <= 1 {
            acc.sample(idx, || {
                let mut j = case.json();
                j["model"] = json!(show(&expect(&e.items, &e.src, false)));
                j
            });
        }
    };
    match ndev {
        0 => one(vec![], acc),
        1 => {
            for c in candidates(src, elc) {
                for k in 0u8..16 {
                    if k != plain_cat(low, c) {
                        one(vec![(c, k)], acc);
                    }
                }
            }
        }
        _ => {
            let cand = candidates(src, elc);
            for (i, &c1) in cand.iter().enumerate() {
                for &c2 in &cand[i + 1..] {
                    for k1 in 0u8..16 {
                        if k1 == plain_cat(low, c1) {
                            continue;
                        }
                        for k2 in 0u8..16 {
                            if k2 != plain_cat(low, c2) {
                                one(vec![(c1, k1), (c2, k2)], acc);
                            }
                        }
                    }
                }
            }
        }
    }
}


// ---------------------------------------------------------------- VM level: \endlinechar and \catcode through the stdlib glue

/// A program for the real VM (vtex::HState, real built-ins). Its first tokens define `\g` whose body
/// changes the configuration and ends in the harness primitive `\capture`; everything the scanner
/// delivers after the second `\g` (the call) up to `\END` is recorded token by token.
#[derive(Clone, Debug)]
struct VmCase {
    program: String,
    /// end-line character in force after `\g` (None = inactive)
    elc1: Option<char>,
    /// category codes changed by `\g`
    over1: Vec<(char, u8)>,
}
impl VmCase {
    fn json(&self) -> Value {
        json!({"kind": "vm", "program": self.program, "elc1": self.elc1.map(|c| c as u32), "over1": self.over1.iter().map(|(c, k)| json!([*c as u32, k])).collect::<Vec<_>>()})
    }
    fn from_json(v: &Value) -> VmCase {
        VmCase {
            program: v["program"].as_str().unwrap_or("").to_string(),
            elc1: v["elc1"].as_u64().and_then(|u| char::from_u32(u as u32)),
            over1: v["over1"].as_array().map(|a| a.iter().map(|p| (char::from_u32(p[0].as_u64().unwrap() as u32).unwrap(), p[1].as_u64().unwrap() as u8)).collect()).unwrap_or_default(),
        }
    }
}

struct VmExpected {
    out: String,
    /// an invalid character (or an unmatched `}` made by the end-line character) is met: an error
    error: bool,
    captured: usize,
    hex_form_seen: bool,
    driver_ok: bool,
}

/// The model side: the scanner runs over the whole program with the initial configuration until the
/// call of `\g` has been delivered, then with the new one (the change takes effect from the next token
/// on; lines loaded afterwards get the new end-line character, §360).
fn vm_expected(case: &VmCase, low: &[u8; 128], hex: bool, switch: bool) -> VmExpected {
    let cfg0 = scan::Config { table: Table::from_low(*low), end_line_char: Some('\r'), hex };
    let cfg1 = if switch { scan::Config { table: Table { low: *low, over: case.over1.clone() }, end_line_char: case.elc1, hex } } else { cfg0.clone() };
    let mut s = scan::Source::new(&case.program);
    let mut e = VmExpected { out: String::new(), error: false, captured: 0, hex_form_seen: false, driver_ok: false };
    let mut seen_g = 0;
    while seen_g < 2 {
        match s.next(&cfg0) {
            Item::End => return e,
            Item::Tok(t) if t.v == TokV::Cs("g".into()) => seen_g += 1,
            _ => {}
        }
    }
    e.driver_ok = true;
    let mut capturing = true;
    let mut depth = 0i64;
    loop {
        let t = match s.next(&cfg1) {
            Item::End => break,
            Item::NewLine => continue,
            Item::Invalid { .. } => {
                e.error = true;
                break;
            }
            Item::Tok(t) => t.v,
        };
        if capturing {
            match &t {
                TokV::Cs(n) if n == "END" => capturing = false,
                // vtex::capture prints `\name`, `c/cat`, and an active character as the bare character
                TokV::Ch(c, scan::ACTIVE_CHAR) => e.out.push_str(&format!("[{c}]")),
                t => e.out.push_str(&format!("[{}]", t.exact())),
            }
            if capturing {
                e.captured += 1;
            }
        } else {
            // after \END the VM executes what is left (only what the end-line character adds to that line)
            match t {
                TokV::Ch(_, scan::LEFT_BRACE) => depth += 1,
                TokV::Ch(_, scan::RIGHT_BRACE) => {
                    if depth == 0 {
                        e.error = true;
                        break;
                    }
                    depth -= 1;
                }
                TokV::Ch(c, scan::ACTIVE_CHAR) => e.out.push_str(&format!("<undef {c}>")),
                TokV::Ch(c, _) => e.out.push(c),
                TokV::Cs(n) => e.out.push_str(&format!("<undef \\{n}>")),
            }
        }
    }
    e.hex_form_seen = s.ev.hex_form_seen;
    e
}

fn judge_vm(idx: u64, case: &VmCase, low: &[u8; 128], acc: &mut Acc) {
    acc.eval();
    let want = vm_expected(case, low, true, true);
    if !want.driver_ok {
        acc.skipped += 1;
        return;
    }
    if want.captured >= 1 {
        acc.nontrivial();
    }
    // vacuity: does the change matter for what is delivered?
    let unchanged = vm_expected(case, low, true, false);
    if unchanged.out != want.out || unchanged.error != want.error {
        acc.count("vm_configuration_change_alters_the_tokens");
    }
    if case.elc1 == Some('\0') && !case.over1.is_empty() {
        acc.count("vm_endlinechar_zero_visible");
    }
    acc.class(&format!("vm captured{} {}", want.captured.min(8), if want.error { "error" } else { "end" }));
    let show_want = |w: &VmExpected| if w.error { format!("{} !<an error>", w.out) } else { w.out.clone() };
    let got = match vtex::run_fresh(&case.program) {
        vtex::Outcome::Done(r) => r,
        vtex::Outcome::Cutoff => {
            acc.cutoffs += 1;
            return;
        }
        vtex::Outcome::Panic(p) => {
            acc.fail(idx, case.json(), show_want(&want), p.describe(), "the VM panicked");
            return;
        }
    };
    // an invalid character is an error in TeX (§346, then it goes on) and a fatal error in the crate:
    // the tokens before it and the fact of an error are compared
    let agrees = |w: &VmExpected| got.out == w.out && got.err.is_some() == w.error;
    if agrees(&want) {
        return;
    }
    if want.hex_form_seen && agrees(&vm_expected(case, low, false, true)) {
        acc.known("D4", idx, || {
            let mut j = case.json();
            j["expected_tex"] = json!(show_want(&want));
            j["observed"] = json!(got.show());
            j
        });
        return;
    }
    acc.fail(idx, case.json(), show_want(&want), got.show(), "token value differs: tokens delivered through the VM after \\endlinechar / \\catcode changed");
}

/// (-2147483648 is not a TeX integer: scan_int §445 reports "Number too big" for the magnitude 2147483648, and so does the crate)
const VM_ELC_VALUES: [i64; 19] = [-2147483647, -2, -1, 0, 1, 9, 10, 13, 32, 37, 92, 94, 97, 126, 127, 128, 255, 256, 2147483647];
const VM_ELC_LINES: [&str; 6] = ["ab", "\\foo", "\\", "a  ", "", "a b"];
const VM_CAT_CHARS: [char; 12] = ['\0', '\u{7f}', '\u{80}', 'é', '€', '\u{10ffff}', 'a', '\\', ' ', '%', '^', '\r'];
const VM_CAT_RESTS: [&str; 7] = ["@", "b@", "@b", "b@ @b", "\\@", "\\b@ c", "@@+"];

/// `\endlinechar=N` (and, for 0 <= N < 128, `\catcode N=K`) then one or two menu lines, then `\END`.
fn vm_elc_case(n: i64, k: Option<u8>, lines: &[&str]) -> VmCase {
    let in_range = (0..128).contains(&n);
    let c = if in_range { char::from_u32(n as u32) } else { None };
    let mut body = format!("\\endlinechar={n} ");
    let mut over1 = vec![];
    if let (Some(c), Some(k)) = (c, k) {
        body.push_str(&format!("\\catcode {n}={k} "));
        over1.push((c, k));
    }
    let mut program = format!("\\def\\g{{{body}\\capture}}\\g\n");
    for l in lines {
        program.push_str(l);
        program.push('\n');
    }
    program.push_str("\\END\n");
    VmCase { program, elc1: c, over1 }
}
fn vm_cat_case(c: char, k: u8, rest: &str) -> VmCase {
    // the first line ends in a comment so that its end delivers nothing to the VM
    let program = format!("\\def\\g{{\\catcode {}={k} \\capture}}%\n\\g {}\n\\END\n", c as u32, rest.replace('@', &c.to_string()));
    VmCase { program, elc1: Some('\r'), over1: vec![(c, k)] }
}

// ---------------------------------------------------------------- model self-validation

enum E {
    C(char, u8, usize),
    S(&'static str, usize),
    NL,
}
use E::*;

/// Cases copied from the table tests of crates/texlang/src/token/lexer.rs (test name in the first
/// column); the numbers are trace keys = character offsets into the source.
#[allow(clippy::type_complexity)]
fn golden() -> Vec<(&'static str, String, Option<char>, Vec<(char, u8)>, Vec<E>)> {
    let cr = Some('\r');
    vec![
        ("empty_1", "".into(), cr, vec![], vec![]),
        ("empty_2", "\n".into(), cr, vec![], vec![S("par", 0)]),
        ("control_sequence_basic_1", r"\a{b}".into(), cr, vec![], vec![S("a", 0), C('{', 1, 2), C('b', 11, 3), C('}', 2, 4), C(' ', 10, 5)]),
        ("control_sequence_single_letter_trailing_space_2", r"\a  b".into(), cr, vec![], vec![S("a", 0), C('b', 11, 4), C(' ', 10, 5)]),
        ("control_sequence_single_letter_trailing_newline_2", "\\a\n\nb".into(), cr, vec![], vec![S("a", 0), NL, S("par", 3), NL, C('b', 11, 4), C(' ', 10, 5)]),
        ("control_sequence_multi_letter_2", "\\ABC".into(), cr, vec![], vec![S("ABC", 0)]),
        ("control_sequence_single_other_trailing_space", "\\+ A".into(), cr, vec![], vec![S("+", 0), C(' ', 10, 2), C('A', 11, 3), C(' ', 10, 4)]),
        ("control_sequence_single_space_trailing_space", "\\  A".into(), cr, vec![], vec![S(" ", 0), C('A', 11, 3), C(' ', 10, 4)]),
        ("comment_1_with_space", "A%B \nC".into(), cr, vec![], vec![C('A', 11, 0), NL, C('C', 11, 5), C(' ', 10, 6)]),
        ("comment_2", "A%B\n%C\nD".into(), cr, vec![], vec![C('A', 11, 0), NL, NL, C('D', 11, 7), C(' ', 10, 8)]),
        ("comment_5", "A%\n\n B".into(), cr, vec![], vec![C('A', 11, 0), NL, S("par", 3), NL, C('B', 11, 5), C(' ', 10, 6)]),
        ("comment_6", "\\A %\nB".into(), cr, vec![], vec![S("A", 0), NL, C('B', 11, 5), C(' ', 10, 6)]),
        ("texbook_exercise_8_2_e", "A%\n B%".into(), cr, vec![], vec![C('A', 11, 0), NL, C('B', 11, 4)]),
        (
            "texbook_exercise_8_4",
            r" $x^2$~ \Tex ^^C".into(),
            cr,
            vec![],
            vec![C('$', 3, 1), C('x', 11, 2), C('^', 7, 3), C('2', 12, 4), C('$', 3, 5), C('~', 13, 6), C(' ', 10, 7), S("Tex", 8), C('\u{3}', 12, 15), C(' ', 10, 16)],
        ),
        ("texbook_exercise_8_5", "Hi!\n\n\n".into(), cr, vec![], vec![C('H', 11, 0), C('i', 11, 1), C('!', 12, 2), C(' ', 10, 3), NL, S("par", 4), NL, S("par", 5)]),
        ("double_space_creates_one_space", "A  B".into(), cr, vec![], vec![C('A', 11, 0), C(' ', 10, 1), C('B', 11, 3), C(' ', 10, 4)]),
        ("space_and_newline_creates_space", "A \nB".into(), cr, vec![], vec![C('A', 11, 0), C(' ', 10, 1), NL, C('B', 11, 3), C(' ', 10, 4)]),
        ("par_2", "A\n \nB".into(), cr, vec![], vec![C('A', 11, 0), C(' ', 10, 1), NL, S("par", 2), NL, C('B', 11, 4), C(' ', 10, 5)]),
        ("caret_notation_1", "^^k".into(), cr, vec![], vec![C('+', 12, 2), C(' ', 10, 3)]),
        ("caret_notation_3", "^^+m".into(), cr, vec![], vec![C('k', 11, 2), C('m', 11, 3), C(' ', 10, 4)]),
        ("caret_notation_4", "^^\n".into(), cr, vec![], vec![C('M', 11, 2)]),
        ("caret_notation_5", "^^".into(), cr, vec![], vec![C('M', 11, 2)]),
        ("caret_notation_6", "^^\nA".into(), cr, vec![], vec![C('M', 11, 2), NL, C('A', 11, 3), C(' ', 10, 4)]),
        ("caret_notation_recursive_1", "^^\u{1E}^+".into(), cr, vec![], vec![C('k', 11, 4), C(' ', 10, 5)]),
        ("caret_notation_recursive_2", "\\^^\u{1E}^+".into(), cr, vec![], vec![S("k", 0)]),
        ("caret_notation_recursive_3", "\\j^^\u{1E}^+".into(), cr, vec![], vec![S("jk", 0)]),
        ("caret_notation_recursive_4", format!("\\^^{}+", "\u{1E}^".repeat(200)), cr, vec![], vec![S("k", 0)]),
        ("caret_notation_end_of_input_2", "\\^^".into(), cr, vec![], vec![S("M", 0)]),
        ("caret_notation_end_of_input_3", "\\a^^".into(), cr, vec![], vec![S("aM", 0)]),
        ("caret_notation_boundary_1", "^^\u{00}".into(), cr, vec![], vec![C('\u{40}', 12, 2), C(' ', 10, 3)]),
        ("caret_notation_boundary_3", "^^\u{40}".into(), cr, vec![], vec![S("par", 3)]),
        ("caret_notation_boundary_4", "^^\u{7F}".into(), cr, vec![], vec![C('\u{3F}', 12, 2), C(' ', 10, 3)]),
        ("caret_notation_cs_1", r"\^^m".into(), cr, vec![], vec![S("-", 0), C(' ', 10, 4)]),
        ("caret_notation_cs_2", r"\^^ma".into(), cr, vec![], vec![S("-", 0), C('a', 11, 4), C(' ', 10, 5)]),
        ("caret_notation_cs_4", r"\^^-a".into(), cr, vec![], vec![S("ma", 0)]),
        ("caret_notation_cs_5", r"\^^-^^-+".into(), cr, vec![], vec![S("mm", 0), C('+', 12, 7), C(' ', 10, 8)]),
        ("caret_notation_cs_6", r"\a^^-".into(), cr, vec![], vec![S("am", 0)]),
        ("caret_notation_cs_7", "\\^a".into(), cr, vec![], vec![S("^", 0), C('a', 11, 2), C(' ', 10, 3)]),
        ("caret_notation_cs_8", "\\a^a".into(), cr, vec![], vec![S("a", 0), C('^', 7, 2), C('a', 11, 3), C(' ', 10, 4)]),
        ("control_sequence_single_ignored", r"\Z".into(), cr, vec![('Z', 9)], vec![S("Z", 0), C(' ', 10, 2)]),
        ("ignored_character_1", "Z".into(), cr, vec![('Z', 9)], vec![S("par", 1)]),
        ("ignored_character_2", "AZB".into(), cr, vec![('Z', 9)], vec![C('A', 11, 0), C('B', 11, 2), C(' ', 10, 3)]),
        ("texbook_exercise_8_2_f", r"\AZB".into(), cr, vec![('Z', 9)], vec![S("A", 0), C('B', 11, 3), C(' ', 10, 4)]),
        ("control_sequence_single_invalid", r"\W".into(), cr, vec![('W', 15)], vec![S("W", 0), C(' ', 10, 2)]),
        ("non_standard_newline_character", "AXB".into(), cr, vec![('X', 5)], vec![C('A', 11, 0), C(' ', 10, 1)]),
        ("non_standard_newline_character_after_cs", r"\A XB".into(), cr, vec![('X', 5)], vec![S("A", 0)]),
        ("single_non_standard_newline", "X".into(), cr, vec![('X', 5)], vec![S("par", 0)]),
        ("non_standard_whitespace_1", "AYB".into(), cr, vec![('Y', 10)], vec![C('A', 11, 0), C(' ', 10, 1), C('B', 11, 2), C(' ', 10, 3)]),
        (
            "texbook_exercise_8_6",
            r"^^B^^BM^^A^^B^^C^^M^^@\M ".into(),
            cr,
            vec![('\u{01}', 0), ('\u{02}', 7), ('\u{03}', 10), ('\u{0D}', 11)],
            vec![C('\u{02}', 7, 2), C('\u{02}', 7, 5), C('M', 11, 6), S("\u{02}", 9), C(' ', 10, 15), C('\u{0D}', 11, 18), S("M\u{0D}", 22)],
        ),
        ("control_sequence_includes_end_line_char_2", r"\A  ".into(), Some('B'), vec![], vec![S("AB", 0)]),
        ("control_sequence_includes_end_line_char_4", r"\  ".into(), Some('B'), vec![], vec![S("B", 0)]),
        ("control_sequence_does_not_span_lines", "\\A\nC".into(), Some('B'), vec![], vec![S("AB", 0), NL, C('C', 11, 3), C('B', 11, 4)]),
        ("repeated_end_line_char_1", "\n\n\n".into(), Some('B'), vec![], vec![C('B', 11, 0), NL, C('B', 11, 1), NL, C('B', 11, 2)]),
        ("right_side_trimming", "A  \nA  \n".into(), Some('B'), vec![], vec![C('A', 11, 0), C('B', 11, 1), NL, C('A', 11, 4), C('B', 11, 5)]),
        ("left_side_trimming", "A\n A\n".into(), Some('B'), vec![], vec![C('A', 11, 0), C('B', 11, 1), NL, C('A', 11, 3), C('B', 11, 4)]),
        ("multiple_skipped_lines", "A\n\n\nB".into(), None, vec![], vec![C('A', 11, 0), NL, NL, NL, C('B', 11, 4)]),
        ("empty_cs_name", "\\\nB".into(), None, vec![], vec![S("", 0), NL, C('B', 11, 2)]),
    ]
}

fn self_validate(ctx: &mut Ctx, low: &[u8; 128]) {
    // the model's own plain TeX table (TeXbook p. 343) against the crate's, where the crate documents it
    let plain = Table::plain();
    let mut diff = vec![];
    for i in 0..128 {
        if plain.low[i] != low[i] {
            diff.push(i);
        }
    }
    // characters 1, 10 and 11 are the known differences of the crate's table from plain.tex (^^A, ^^J,
    // ^^K); the table is an *input* of the property, so this is recorded, not judged
    ctx.extra("plain_table_differs_from_texbook_at", json!(diff));
    for (name, src, elc, over, want) in golden() {
        let case = Case { src: src.clone(), elc, over, report: true, switch: None };
        // the goldens were recorded from an implementation without the hex form; none of them
        // contains one, so both switches must agree
        for hex in [true, false] {
            let (items, s) = run_model(&case, low, hex);
            let offset = |line: usize, col: usize| -> usize { s.lines[..line - 1].iter().map(|l| l.chars().count() + 1).sum::<usize>() + col };
            let got: Vec<String> = items
                .iter()
                .map(|i| match i {
                    Item::Tok(t) => format!("{}@{}", t.v.exact(), offset(t.line, t.col)),
                    Item::Invalid { c, .. } => format!("!{c}"),
                    Item::NewLine => "NL".into(),
                    Item::End => "END".into(),
                })
                .collect();
            let wanted: Vec<String> = want
                .iter()
                .map(|e| match e {
                    C(c, k, key) => format!("{}@{}", TokV::Ch(*c, *k).exact(), key),
                    S(n, key) => format!("{}@{}", TokV::Cs(n.to_string()).exact(), key),
                    NL => "NL".into(),
                })
                .collect();
            if got != wanted {
                ctx.machinery_error(format!("model self-validation failed on lexer.rs test {name} (hex={hex}): want {wanted:?} got {got:?}"));
            }
        }
    }
    // hex form and invalid characters: TeXbook p. 45 (^^5e = ^, ^^5e^M) and §346 (scanning goes on)
    for (src, want) in [
        ("a^^5eb", "a/11 ^/7 b/11  /10"),     // ^^5e is ^ (and does not start a further sequence here)
        ("x^^7fy", "x/11 !127 y/11  /10"),    // ^^7f is DEL, invalid: reported, scanning goes on
        ("^^5e^M", "\\par"),                  // ^^5e^M -> ^^M -> CR in state N
        ("\\a^^5fb", "\\a _/8 b/11  /10"),    // §355: the reduced non-letter ends the name and is scanned next
        ("\\a^^62 c", "\\ab c/11  /10"),      // §355: the reduced letter joins the name
        ("^^5", "u/11  /10"),                 // one hex digit only: the 64-flip
    ] {
        let c = Case { src: src.into(), elc: Some('\r'), over: vec![], report: true, switch: None };
        let (items, _) = run_model(&c, low, true);
        let got: Vec<String> = items.iter().map(|i| match i { Item::Tok(t) => t.v.exact(), Item::Invalid { c, .. } => format!("!{}", *c as u32), _ => "NL".into() }).collect();
        if got.join(" ") != want {
            ctx.machinery_error(format!("model self-validation failed on the hex-form example {src:?}: want {want:?} got {got:?}"));
        }
    }
}

// ---------------------------------------------------------------- main

fn main() {
    let mut ctx = Ctx::new("C03", Level::Exploration);
    let low = base_low();
    ctx.assume("lines are the pieces of the source between '\\n' characters, a final '\\n' does not open a further line and the empty source has no line (the crate's documented convention; TeX leaves line splitting to input_ln / the operating system)");
    ctx.assume("position convention (DESIGN C03): a control sequence is positioned at its escape character, a character made by ^^x / ^^xy at the last character of the sequence (the buffer slot rewritten in place, pinned by the crate's own tests), tokens made from the end-line character at column = length of the right-trimmed line; line text = the untrimmed text of the source line");
    ctx.assume("the category code table is an input: plain-TeX table of the crate (CatCode::PLAIN_TEX_DEFAULTS, 'other' above 127) with at most two characters reassigned; the reassigned characters range over the characters of the source, the end-line character and the characters a ^^x reduction of the source can produce");
    ctx.assume("dynamic configurations: a change takes effect at the next call of Lexer::next, the end-line character of a line is the one in force when the line is loaded (§360), which happens in the call that first needs the line");
ctx.assume("VM families: \\endlinechar=N appends character N for 0 <= N <= 127 and nothing otherwise (the crate's documented range; TeX §360 also appends for 128..255 - the statement's quantifier is ASCII); an invalid character met by the VM is an error in TeX and a fatal error in the crate: the tokens before it and the fact of an error are compared");
    ctx.assume("after an invalid character TeX reports an error and goes on scanning (§346); the lexer is driven on after Result::InvalidCharacter and must deliver the remaining tokens");
    ctx.assume("\\endlinechar ranges over {none, CR, a, ^, space, %, \\} in the string families and over every ASCII character in elc-sweep; characters produced by the two-hex-digit form are the Unicode scalar values 0..=255");

    if let Some((_fam, case)) = ctx.replay_case() {
        let mut acc = Acc::default();
        if case["kind"] == "two" {
            judge_two(0, &Case::from_json(&case["a"]), &Case::from_json(&case["b"]), case["order"].as_u64().unwrap_or(0) as u8, &low, &mut acc);
            ctx.finish_replay(acc);
        }
        if case["kind"] == "vm" {
            judge_vm(0, &VmCase::from_json(&case), &low, &mut acc);
            ctx.finish_replay(acc);
        }
        let case = Case::from_json(&case);
        let e = model_side(&case, &low);
        judge(0, &case, &e, &mut acc);
        ctx.finish_replay(acc);
    }

    self_validate(&mut ctx, &low);

    let nelc = ELCS.len() as u64;
    // (family, alphabet, max length quick, max length thorough, number of reassigned characters)
    let plan: [(&str, &[char], u32, u32, usize); 8] = [
        ("plain", &SIGMA_Q, 6, 7, 0),
        ("caret", &SIGMA_C, 6, 7, 0),
        ("caret-dev1", &SIGMA_C, 4, 5, 1),
        ("plain-wide", &SIGMA_T, 4, 6, 0),
        ("dev1", &SIGMA_Q, 4, 6, 1),
        ("dev1-wide", &SIGMA_T, 3, 4, 1),
        ("dev2", &SIGMA_Q, 3, 4, 2),
        ("dev2-wide", &SIGMA_T, 2, 3, 2),
    ];
    for (name, sigma, lq, lt, ndev) in plan {
        let len = ctx.pick(lq, lt);
        let n = vcore::strings_upto(sigma.len() as u64, len) * nelc;
        let tables = match ndev {
            0 => "the plain TeX category codes".to_string(),
            1 => "every single reassignment (each candidate character -> each of its 15 other codes)".to_string(),
            _ => "every reassignment of two candidate characters (15 x 15 codes per pair)".to_string(),
        };
        ctx.family(name, &format!("every string of length <= {len} over {sigma:?} x 7 end-line characters {ELCS:?} x report_end_of_line in {{true,false}} x {tables}"), n, |i, acc| {
            let src = nth_src(sigma, i / nelc);
            sweep(i, &src, ELCS[(i % nelc) as usize], ndev, &low, acc);
        });
    }

    // VM level: the stdlib glue (endlinechar.rs, codes.rs, vm/streams.rs) between the primitives and the lexer
    {
        // (N, K): K = None keeps the category code of character N
        let mut cfgs: Vec<(i64, Option<u8>)> = vec![];
        for n in VM_ELC_VALUES {
            cfgs.push((n, None));
            if (0..128).contains(&n) {
                cfgs.push((n, Some(11)));
                cfgs.push((n, Some(12)));
            }
        }
        let nl = VM_ELC_LINES.len() as u64;
        let per = nl + nl * nl;
        let c = &cfgs;
        ctx.family("vm-endlinechar", &format!("real VM (vtex::HState, real built-ins): \\endlinechar=N for N in {VM_ELC_VALUES:?}, character N left as it is or made a letter / other through \\catcode (0 <= N < 128), then every sequence of 1 or 2 lines from {VM_ELC_LINES:?} and a line \\END; every delivered token recorded by \\capture"), cfgs.len() as u64 * per, |i, acc| {
            let (n, k) = c[(i / per) as usize];
            let j = i % per;
            let lines: Vec<&str> = if j < nl { vec![VM_ELC_LINES[j as usize]] } else { vec![VM_ELC_LINES[((j - nl) / nl) as usize], VM_ELC_LINES[((j - nl) % nl) as usize]] };
            let case = vm_elc_case(n, k, &lines);
            judge_vm(i, &case, &low, acc);
            if i % 211 == 5 {
                acc.sample(i, || case.json());
            }
        });
        let nr = VM_CAT_RESTS.len() as u64;
        ctx.family("vm-catcode", &format!("real VM: \\catcode c=k for c in {VM_CAT_CHARS:?}, k in 0..=15, executed in the middle of a line whose rest is one of {VM_CAT_RESTS:?} (@ = the character); the change takes effect from the next token on"), VM_CAT_CHARS.len() as u64 * 16 * nr, |i, acc| {
            let d = vcore::digits(i, &[VM_CAT_CHARS.len() as u64, 16, nr]);
            let case = vm_cat_case(VM_CAT_CHARS[d[0] as usize], d[1] as u8, VM_CAT_RESTS[d[2] as usize]);
            judge_vm(i, &case, &low, acc);
        });
    }
    // boundaries of the `^^` rules: every third character 0..=0x80 and the ends of the UTF-8 length classes
    {
        let mut chars: Vec<char> = (0u32..=0x80).filter_map(char::from_u32).collect();
        for u in [0xFFu32, 0x100, 0x7FF, 0x800, 0xD7FF, 0xE000, 0xFFFF, 0x10000, 0x10FFFF] {
            chars.push(char::from_u32(u).unwrap());
        }
        let ctxs = ["^^@", "\\^^@", "\\a^^@", "^^@x", "a^^@", "^^@^^@", "^^^^@"];
        let nc = ctxs.len() as u64;
        let ch = &chars;
        ctx.family("caret-every-char", &format!("^^c for every c in 0..=0x80 and U+00FF U+0100 U+07FF U+0800 U+D7FF U+E000 U+FFFF U+10000 U+10FFFF, in the contexts {ctxs:?} x 7 end-line characters x both report flags x (plain table + every single reassignment)"), ch.len() as u64 * nc * nelc, |i, acc| {
            let d = vcore::digits(i, &[ch.len() as u64, nc, nelc]);
            let c = ch[d[0] as usize];
            let src = ctxs[d[1] as usize].replace('@', &c.to_string());
            if matches!(c as u32, 0x3F | 0x40 | 0x7F | 0x80) {
                acc.count("caret_third_character_at_a_boundary");
            }
            sweep(i, &src, ELCS[d[2] as usize], 0, &low, acc);
            sweep(i, &src, ELCS[d[2] as usize], 1, &low, acc);
        });
        // hex digits and their neighbours
        let hx: Vec<char> = "/09:`afgAF78".chars().collect();
        let nh = hx.len() as u64;
        let h = &hx;
        ctx.family("hex-boundary", "^^xy for x, y in / 0 9 : ` a f g A F 7 8 (the hex digits and their neighbours), at top level, inside a name, and with y supplied by the end-line character; both report flags", nh * nh * 3, |i, acc| {
            let d = vcore::digits(i, &[nh, nh, 3]);
            let (x, y) = (h[d[0] as usize], h[d[1] as usize]);
            let (src, elc) = match d[2] {
                0 => (format!("^^{x}{y}b"), Some('\r')),
                1 => (format!("\\b^^{x}{y}b"), Some('\r')),
                _ => (format!("a^^{x}"), Some(y)),
            };
            acc.count("hex_digit_boundary_pair");
            sweep(i, &src, elc, 0, &low, acc);
        });
    }
    // 2-, 3- and 4-byte characters
    {
        const SIGMA_M: [char; 9] = ['\\', '^', ' ', '\n', 'a', 'é', '€', '😀', '%'];
        for (name, lq, lt, ndev) in [("multibyte", 5u32, 6u32, 0usize), ("multibyte-dev1", 3, 4, 1)] {
            let len = ctx.pick(lq, lt);
            let n = vcore::strings_upto(SIGMA_M.len() as u64, len) * nelc;
            ctx.family(name, &format!("every string of length <= {len} over {SIGMA_M:?} (2-, 3- and 4-byte characters) x 7 end-line characters x both report flags x {}", if ndev == 0 { "plain table" } else { "every single reassignment" }), n, |i, acc| {
                let src = nth_src(&SIGMA_M, i / nelc);
                // a token after a 3- or 4-byte character on its line
                if src.split('\n').any(|l| l.find(['€', '😀']).map(|p| l[p..].chars().count() > 1).unwrap_or(false)) {
                    acc.count("text_after_a_3_or_4_byte_character");
                }
                sweep(i, &src, ELCS[(i % nelc) as usize], ndev, &low, acc);
            });
        }
    }
    // a second source in the same tracer
    {
        let len = 2u32;
        let ns = vcore::strings_upto(SIGMA_Q.len() as u64, len);
        ctx.family("two-sources", &format!("two sources in one tracer: every pair of strings of length <= {len} over {SIGMA_Q:?}, end-line character CR / none, lexers driven alternately or the second source first, every token traced after both were lexed"), ns * ns * 2 * 2, |i, acc| {
            let d = vcore::digits(i, &[ns, ns, 2, 2]);
            let elc = if d[2] == 0 { Some('\r') } else { None };
            let a = Case { src: nth_src(&SIGMA_Q, d[0]), elc, over: vec![], report: true, switch: None };
            let b = Case { src: nth_src(&SIGMA_Q, d[1]), elc, over: vec![], report: false, switch: None };
            judge_two(i, &a, &b, d[3] as u8, &low, acc);
        });
    }
    // long inputs (recursion depth of the name scanner, long lines, many lines)
    {
        let n = ctx.pick(3000usize, 30000usize);
        let longs: Vec<String> = vec![
            format!("\\^^{}+", "\u{1e}^".repeat(n)),
            format!("\\{}^^-{} x", "a".repeat(n), "b".repeat(n)),
            format!("a{}\n{}\n%{}é", " ".repeat(n), " ".repeat(n), "b".repeat(n)),
            "a\n\n".repeat(n),
            format!("{}x", "é€😀".repeat(n)),
            "^^M\n".repeat(n),
        ];
        let l = &longs;
        ctx.family("long-inputs", &format!("six inputs of about {n} repetitions: a chain of recursive ^^ reductions at the start of a name, a long name with a reduction, long runs of blanks and a long comment, many lines, a long run of multi-byte characters, many ^^M lines"), l.len() as u64, |i, acc| {
            acc.count("long_input");
            sweep(i, &l[i as usize], Some('\r'), 0, &low, acc);
        });
    }
    // every ASCII end-line character
    {
        let len = ctx.pick(3u32, 4u32);
        let nstr = vcore::strings_upto(SIGMA_Q.len() as u64, len);
        ctx.family("elc-sweep", &format!("every string of length <= {len} over {SIGMA_Q:?} x every end-line character 0..=127 x both report flags x (plain table + every reassignment of the end-line character's category code)"), nstr * 128, |i, acc| {
            let src = nth_src(&SIGMA_Q, i / 128);
            let e = char::from_u32((i % 128) as u32).unwrap();
            for k in 0u8..16 {
                let over = if k == plain_cat(&low, e) { vec![] } else { vec![(e, k)] };
                let mut case = Case { src: src.clone(), elc: Some(e), over, report: true, switch: None };
                let m = model_side(&case, &low);
                count_case(&case, &low, &m, acc);
                judge(i, &case, &m, acc);
                case.report = false;
                judge(i, &case, &m, acc);
            }
        });
    }

    // dynamic configuration: \catcode / \endlinechar change between two calls (just-in-time lexing)
    {
        let len = ctx.pick(4u32, 5u32);
        let nstr = vcore::strings_upto(SIGMA_Q.len() as u64, len);
        let variants: Vec<(Option<char>, Vec<(char, u8)>)> = vec![
            (None, vec![]),
            (Some('a'), vec![]),
            (Some('^'), vec![]),
            (Some('\\'), vec![]),
            (Some('\r'), vec![('a', 0)]),
            (Some('\r'), vec![('a', 9)]),
            (Some('\r'), vec![('a', 14)]),
            (Some('\r'), vec![('^', 12)]),
            (Some('\r'), vec![(' ', 11)]),
            (Some('\r'), vec![('\\', 12)]),
            (Some('\r'), vec![('%', 12)]),
            (Some('\r'), vec![('M', 5)]),
            (Some('\r'), vec![('é', 7)]),
            (Some('\r'), vec![('\r', 11)]),
            (Some('\r'), vec![('{', 10)]),
        ];
        let nv = variants.len() as u64;
        let v = &variants;
        ctx.family("dynamic", &format!("every string of length <= {len} over {SIGMA_Q:?}; the configuration changes once, after the 1st, 2nd or 3rd call of Lexer::next, between plain/CR and one of {nv} variants (end-line character none/a/^/\\, or one reassigned character), in both directions, report_end_of_line = false"), nstr * nv * 3 * 2, |i, acc| {
            let d = vcore::digits(i, &[nstr, nv, 3, 2]);
            let src = nth_src(&SIGMA_Q, d[0]);
            let (e2, o2) = v[d[1] as usize].clone();
            let k = d[2] as usize + 1;
            // only without end-of-line reporting: there one call = one token, as in TeX's get_next; with
            // reporting the alignment of calls and line loads is a convention of the API (AUDIT.md)
            for report in [false] {
                let case = if d[3] == 0 {
                    Case { src: src.clone(), elc: Some('\r'), over: vec![], report, switch: Some((k, e2, o2.clone())) }
                } else {
                    Case { src: src.clone(), elc: e2, over: o2.clone(), report, switch: Some((k, Some('\r'), vec![])) }
                };
                let m = model_side(&case, &low);
                // did the switch happen before the end of the input, on a line boundary or inside a line?
                if m.items.len() >= k {
                    acc.count("config_changed_before_end");
                }
                count_case(&case, &low, &m, acc);
                judge(i, &case, &m, acc);
            }
        });
    }

    ctx.require("caret_at_line_end", "a ^^ sequence ends at the last character of its line (end-line character included)");
    ctx.require("config_changed_before_end", "the configuration changed while input was left (dynamic family)");
    ctx.require("vm_configuration_change_alters_the_tokens", "a \\catcode / \\endlinechar assignment executed by the VM changes the tokens delivered afterwards");
    ctx.require("vm_endlinechar_zero_visible", "\\endlinechar=0 with character 0 made a letter or other");
    ctx.require("caret_third_character_at_a_boundary", "^^c with c = 0x3F, 0x40, 0x7F or 0x80");
    ctx.require("hex_digit_boundary_pair", "^^xy with x, y at the edges of the hex digits");
    ctx.require("text_after_a_3_or_4_byte_character", "a character follows a 3- or 4-byte character on its line");
    ctx.require("two_sources_both_deliver_tokens", "two sources registered in one tracer both deliver tokens");
    ctx.require("long_input", "an input of thousands of characters");
    ctx.require("caret_in_name", "a ^^ sequence is reduced inside a control sequence name");
    ctx.require("caret_recursive", "the product of a ^^ reduction starts a further ^^ sequence");
    ctx.require("nonascii_before_token", "a traced token stands after a non-ASCII character of the source");
    ctx.require("trailing_blanks_trimmed", "a line ends in spaces that are trimmed");
    ctx.require("elc_letter", "the end-line character is a letter");
    ctx.require("elc_superscript", "the end-line character has category 7");
    ctx.require("elc_escape", "the end-line character has category 0");
    ctx.require("hex_form_available", "a doubled category-7 character is followed by two lowercase hex digits (domain of finding D4)");
    ctx.require("caret_before_non_ascii", "a doubled category-7 character is followed by a character >= 128 (domain of defect D4b)");
    ctx.finish("cases = (source string, end-line character, category code table, report flag), enumerated exhaustively from the alphabets; non-trivial = the model delivers >= 2 tokens or changes its scanner state inside a line; every delivered token is compared in value, line number, column, line text and trace value with reftex::scan");
}
