//! C03 — not built yet.
fn main() {
    eprintln!("c03: check not built yet");
    std::process::exit(2);
}
