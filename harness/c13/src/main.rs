//! C13 — hyphenation positions are exactly Liang's; exceptions always win; case does not matter.
//! Engine: BEX. Subject: `hyphenate::Hyphenator::{load_patterns, insert_exception, calculate_indices}`.
//! Oracle: `reftex::liang` (patterns matched against `.word.` at every alignment, tex.web §919-931;
//! `\hyphenation` entries §934-940). DESIGN.md §3 C13.

use hyphenate::{AsciiLowerCaser, Hyphenator};
use reftex::liang::{self, ascii_lc, Liang, EDGE};

// ---------------------------------------------------------------- a lower-case map beyond ASCII

/// Letters of the mixed alphabet: 1-, 2-, 3- and 4-byte UTF-8, each with an upper-case partner.
const MIXED_LOWER: [char; 4] = ['a', 'é', 'ḁ', '𝐚'];
const MIXED_UPPER: [char; 4] = ['A', 'É', 'Ḁ', '𝐀'];

/// Letters that Unicode does not class as alphabetic: a letter is whatever the lower-case map accepts
/// (TeX: any character with a non-zero \\lccode; Italian/French patterns use the apostrophe, Indic ones
/// U+200D). ASCII apostrophe, U+2019 (3 bytes), U+200D ZERO WIDTH JOINER (3 bytes, no glyph), '@', and a
/// non-BMP symbol (4 bytes). They map to themselves.
const SYMBOL_LETTERS: [char; 5] = ['\'', '\u{2019}', '\u{200D}', '@', '\u{1F600}'];

/// The model's lower-case map: ASCII letters as `hyphenate::AsciiLowerCaser`, plus the mixed alphabet.
fn lc_all(c: char) -> Option<char> {
    if let Some(l) = ascii_lc(c) {
        return Some(l);
    }
    if MIXED_LOWER.contains(&c) || SYMBOL_LETTERS.contains(&c) {
        return Some(c);
    }
    MIXED_UPPER.iter().position(|u| *u == c).map(|i| MIXED_LOWER[i])
}
fn uc_all(c: char) -> char {
    match MIXED_LOWER.iter().position(|l| *l == c) {
        Some(i) => MIXED_UPPER[i],
        None => c.to_ascii_uppercase(),
    }
}
/// A map that is NOT the identity on ASCII lower case: a, A, b, B -> b; nothing else is a letter (so c is not).
fn lc_skew(c: char) -> Option<char> {
    match c {
        'a' | 'A' | 'b' | 'B' => Some('b'),
        _ => None,
    }
}
struct SkewLowerCaser;
impl hyphenate::LowerCaser for SkewLowerCaser {
    fn to_lower_case(&self, c: char) -> Option<char> {
        lc_skew(c)
    }
}
/// The same map as a `hyphenate::LowerCaser` (the trait is public; `AsciiLowerCaser` stops at non-ASCII).
struct HarnessLowerCaser;
impl hyphenate::LowerCaser for HarnessLowerCaser {
    fn to_lower_case(&self, c: char) -> Option<char> {
        lc_all(c)
    }
}
use serde_json::{json, Value};
use vcore::{catch, Acc, Ctx, Level};

// ---------------------------------------------------------------- one configuration, one lookup

#[derive(Clone, Debug, Default)]
struct Config {
    patterns: Vec<String>,
    exceptions: Vec<String>,
    /// `insert_exception` calls come before `load_patterns` (both orders are legal in INITEX)
    exceptions_first: bool,
    /// look words up with the harness lower-caser (letters beyond ASCII) instead of `AsciiLowerCaser`
    mixed: bool,
    /// when set, the exception list goes through `insert_exceptions` as ONE string:
    /// (leading text, separator between entries, trailing text)
    list_api: Option<(String, String, String)>,
    /// look words up with `SkewLowerCaser` (a, A, b, B -> b); patterns and entries are written with b only
    skew: bool,
}

impl Config {
    fn json(&self, word: &str) -> Value {
        json!({"kind": "lookup", "patterns": self.patterns, "exceptions": self.exceptions, "exceptions_first": self.exceptions_first, "mixed_alphabet": self.mixed, "skew_lower_caser": self.skew, "exception_list_text": self.list_text(), "list_api": self.list_api.as_ref().map(|(a, b, c)| vec![a.clone(), b.clone(), c.clone()]), "word": word,
               "reproduce": format!("let mut h = hyphenate::Hyphenator::default(); {} h.calculate_indices(&{}, {:?}).collect::<Vec<_>>()",
                    self.build_text(), if self.mixed { "L /* a LowerCaser with a/A, é/É, ḁ/Ḁ, 𝐚/𝐀 */" } else { "hyphenate::AsciiLowerCaser::default()" }, word)})
    }
    fn list_text(&self) -> Option<String> {
        self.list_api.as_ref().map(|(lead, sep, trail)| format!("{lead}{}{trail}", self.exceptions.join(sep)))
    }
    fn build_text(&self) -> String {
        let p = format!("h.load_patterns({:?});", self.patterns.join(" "));
        let e: String = match self.list_text() {
            Some(t) => format!("h.insert_exceptions({t:?});"),
            None => self.exceptions.iter().map(|e| format!("h.insert_exception({e:?});")).collect(),
        };
        if self.exceptions_first {
            format!("{e} {p}")
        } else {
            format!("{p} {e}")
        }
    }
    fn build_real(&self) -> Hyphenator {
        let mut h = Hyphenator::default();
        if self.exceptions_first {
            for e in &self.exceptions {
                h.insert_exception(e);
            }
        }
        // one call per pattern and one call with the whole set must mean the same; alternate by size
        if self.patterns.len() % 2 == 0 {
            // any white space separates patterns; leading/trailing white space and a missing final newline are harmless
            let v = self.patterns.iter().map(|p| p.len()).sum::<usize>() % 4;
            let text = match v {
                0 => self.patterns.join(" "),
                1 => format!("{}\n", self.patterns.join("\n")),
                2 => format!("  {} ", self.patterns.join(" \t ")),
                _ => format!("\n{}", self.patterns.join("\r\n")),
            };
            h.load_patterns(&text);
        } else {
            for p in &self.patterns {
                h.load_patterns(p);
            }
        }
        if let Some(t) = self.list_text() {
            h.insert_exceptions(&t);
        } else if !self.exceptions_first {
            if self.exceptions.len() == 2 && self.exceptions[0].len() % 2 == 0 {
                // the list API: one entry per line, blank lines, CR LF and surrounding blanks allowed
                h.insert_exceptions(&format!("\n {} \r\n\n{}", self.exceptions[0], self.exceptions[1]));
            } else {
                for e in &self.exceptions {
                    h.insert_exception(e);
                }
            }
        }
        h
    }
    /// The model; `None` when the configuration is outside the domain (duplicate pattern, TeX §963;
    /// or something TeX rejects as "Nonletter"/"Not a letter").
    fn build_model(&self) -> Option<Liang> {
        let mut l = Liang::new();
        for p in &self.patterns {
            l.add_pattern(p, &lc_all).ok()?;
        }
        for e in &self.exceptions {
            if !l.add_exception(e, &lc_all) {
                return None;
            }
        }
        Some(l)
    }
}

/// What the model says about one lower-cased word, computed once and shared by its case variants.
struct Expect {
    positions: Vec<usize>,
    /// D11: the adjusted expectation when the finding's predicate holds on the case
    d11_adjusted: Option<Vec<usize>>,
    /// D11b: a fully anchored pattern with the exception's letters is loaded after the exception
    d11b_adjusted: Option<Vec<usize>>,
    /// D11c: the entry that TeX would find for this word was written with an upper-case letter
    d11c_adjusted: Option<Vec<usize>>,
    nontrivial: bool,
}

fn expect(cfg: &Config, model: &Liang, wl: &[char], acc: &mut Acc) -> Expect {
    let n = wl.len();
    let hyf = model.hyf(wl);
    let positions: Vec<usize> = (1..n).filter(|j| hyf[*j] % 2 == 1).collect();
    let ps = model.pattern_scores(wl);
    let exc = model.exception_for(wl);
    let interior = |v: &[u8]| (1..n).any(|j| v[j] != 0);
    let nontrivial = interior(&ps) || exc.is_some();
    // ---- collision counters, from the case and the model only
    let mut per: Vec<Vec<u8>> = Vec::with_capacity(model.patterns.len());
    for p in &model.patterns {
        per.push(liang::pattern_scores(p, wl));
    }
    for j in 1..n {
        let nz = per.iter().filter(|v| v[j] != 0).count();
        if nz >= 2 {
            acc.count("two_patterns_score_same_slot");
        }
        if ps[j] != 0 && ps[j] % 2 == 0 && per.iter().any(|v| v[j] % 2 == 1) {
            acc.count("even_digit_inhibits_odd");
        }
    }
    let text: String = wl.iter().collect();
    if !text.is_ascii() {
        // a pattern that is not anchored at the start matches after a multi-byte letter (character
        // offset != byte offset) and puts a non-zero digit on an interior slot
        for p in &model.patterns {
            if p.key.first() == Some(&EDGE) {
                continue;
            }
            let bare: Vec<char> = p.key.iter().copied().filter(|c| *c != EDGE).collect();
            let end_anchored = p.key.last() == Some(&EDGE);
            for s0 in 1..n.saturating_sub(bare.len()) + 1 {
                if s0 + bare.len() <= n && wl[s0..s0 + bare.len()] == bare[..] && (!end_anchored || s0 + bare.len() == n) && wl[..s0].iter().any(|c| c.len_utf8() > 1) && p.digits.iter().enumerate().any(|(k, d)| *d != 0 && s0 + k >= 1 && s0 + k < n) {
                    acc.count("pattern_starts_after_a_multibyte_letter");
                }
            }
        }
    }
    for (p, v) in model.patterns.iter().zip(&per) {
        let anchored = p.key.first() == Some(&EDGE) || p.key.last() == Some(&EDGE);
        let matched = v.iter().any(|d| *d != 0) || pattern_matches(p, wl);
        if anchored && matched {
            acc.count("anchored_pattern_matches");
        }
        if anchored && !matched {
            let bare: String = p.key.iter().filter(|c| **c != EDGE).collect();
            if text.contains(&bare) {
                acc.count("anchor_rejects_inner_occurrence");
            }
        }
    }
    if model.patterns.len() >= 2 {
        for a in 0..model.patterns.len() {
            for b in 0..model.patterns.len() {
                if a != b && model.patterns[b].key.starts_with(&model.patterns[a].key) && pattern_matches(&model.patterns[a], wl) && pattern_matches(&model.patterns[b], wl) {
                    acc.count("prefix_sharing_patterns_both_match");
                }
            }
        }
    }
    let mut d11_adjusted = None;
    let mut d11b_adjusted = None;
    if let Some(e) = exc {
        // (a trie walk bounded by the longest pattern would never reach this entry)
        let longest = model.patterns.iter().map(|p| p.key.iter().filter(|c| **c != EDGE).count()).max().unwrap_or(0);
        if e.letters.len() > longest + 1 {
            acc.count("exception_longer_than_every_pattern_plus_1");
        }
        let pat_pos: Vec<usize> = (1..n).filter(|j| ps[*j] % 2 == 1).collect();
        if pat_pos != positions {
            acc.count("exception_contradicts_patterns");
        }
        // D11 predicate (DESIGN §4.1): the case-folded word is in the exception list and some pattern
        // digit > 6 (or > 7 at a listed hyphen) matches it.
        let applies = (0..=n).any(|j| if e.positions.contains(&j) { ps[j] > 7 } else { ps[j] > 6 });
        if applies {
            acc.count("exception_word_with_pattern_digit_gt6");
            let mut adj = model.clone();
            adj.exceptions_as_patterns = true;
            let h = adj.hyf(wl);
            d11_adjusted = Some((1..n).filter(|j| h[*j] % 2 == 1).collect());
        }
        // D11b predicate: patterns are loaded after the exceptions and one of them is the fully
        // anchored pattern on exactly the exception's letters (same trie node): the exception is lost.
        if cfg.exceptions_first {
            let mut key = vec![EDGE];
            key.extend(e.letters.iter().copied());
            key.push(EDGE);
            if model.patterns.iter().any(|p| p.key == key) {
                acc.count("exception_then_same_anchored_pattern");
                d11b_adjusted = Some(pat_pos);
            }
        }
    }
    // D11c predicate: the entry found for this word (TeX §937 stores lc_code) contains an upper-case
    // letter in the configuration's text. Adjusted model: entries are stored as written, so only
    // entries without upper-case letters can ever be found.
    let mut d11c_adjusted = None;
    if let Some(e) = exc {
        let written_upper = cfg.exceptions.iter().rev().find(|t| t.chars().filter(|c| *c != '-').filter_map(lc_all).collect::<Vec<char>>() == e.letters).map(|t| t.chars().any(is_upper)).unwrap_or(false);
        if written_upper {
            let mut adj = Liang::new();
            adj.patterns = model.patterns.clone();
            for t in &cfg.exceptions {
                if !t.chars().any(is_upper) {
                    adj.add_exception(t, &lc_all);
                }
            }
            let h = adj.hyf(wl);
            d11c_adjusted = Some((1..n).filter(|j| h[*j] % 2 == 1).collect());
        }
    }
    Expect { positions, d11_adjusted, d11b_adjusted, d11c_adjusted, nontrivial }
}

/// `calculate_indices` returns "the set of character indices": compared as a set; a result that is
/// not strictly ascending is an outcome class, not a failure.
fn as_set(mut got: Vec<usize>, acc: &mut Acc) -> Vec<usize> {
    if !got.windows(2).all(|w| w[0] < w[1]) {
        acc.class("note: positions not returned in strictly ascending order");
        got.sort();
        got.dedup();
    }
    got
}

fn is_upper(c: char) -> bool {
    c != '-' && lc_all(c) != Some(c)
}

fn pattern_matches(p: &liang::Pattern, wl: &[char]) -> bool {
    let mut d: Vec<char> = vec![EDGE];
    d.extend(wl.iter().copied());
    d.push(EDGE);
    d.windows(p.key.len()).any(|w| w == p.key.as_slice())
}

/// Run every word of `words` (grouped by lower-case form) through one configuration.
fn check_config(idx: u64, cfg: &Config, words: &[(Vec<char>, Vec<String>)], acc: &mut Acc) {
    let Some(model) = cfg.build_model() else {
        acc.skipped += 1;
        acc.count("skipped_duplicate_pattern");
        return;
    };
    let real = match catch(|| cfg.build_real()) {
        Ok(h) => h,
        Err(p) => {
            acc.eval();
            acc.fail(idx, cfg.json(""), "a hyphenator", p.describe(), "building the hyphenator panicked");
            return;
        }
    };
    let lc = AsciiLowerCaser::default();
    for (wl, variants) in words {
        let ex = expect(cfg, &model, wl, acc);
        let class = format!("n={} at={:?}{}", wl.len().min(8), if wl.len() <= 8 { ex.positions.clone() } else { vec![ex.positions.len()] }, if model.exception_for(wl).is_some() { " exc" } else { "" });
        for w in variants {
            acc.eval();
            if ex.nontrivial {
                acc.nontrivial();
                if w.chars().any(is_upper) {
                    acc.count("upper_case_word_nontrivial");
                }
            }
            acc.class(&class);
            match catch(|| if cfg.skew { real.calculate_indices(&SkewLowerCaser, w).collect::<Vec<usize>>() } else if cfg.mixed { real.calculate_indices(&HarnessLowerCaser, w).collect::<Vec<usize>>() } else { real.calculate_indices(&lc, w).collect::<Vec<usize>>() }) {
                Err(p) => acc.fail(idx, cfg.json(w), format!("{:?}", ex.positions), p.describe(), "calculate_indices panicked"),
                Ok(got) => {
                    // the statement speaks of a set of positions: order and repetition are recorded only
                    let got = as_set(got, acc);
                    if got == ex.positions {
                        continue;
                    }
                    if ex.d11_adjusted.as_ref() == Some(&got) {
                        acc.known("D11", idx, || json!({"case": cfg.json(w), "model": ex.positions, "observed": got, "adjusted_model": "exception = pattern .word. with digits 6/7"}));
                    } else if ex.d11b_adjusted.as_ref() == Some(&got) {
                        acc.known("D11b", idx, || json!({"case": cfg.json(w), "model": ex.positions, "observed": got, "adjusted_model": "the exception entry is overwritten by the later fully anchored pattern on the same letters"}));
                    } else if ex.d11c_adjusted.as_ref() == Some(&got) {
                        acc.known("D11c", idx, || json!({"case": cfg.json(w), "model": ex.positions, "observed": got, "adjusted_model": "exception entries are stored as written (no lc_code), so an entry with an upper-case letter is never found"}));
                    } else {
                        let note = if ex.d11_adjusted.is_some() {
                            "positions differ; the D11 predicate holds but the observation is not the D11 behaviour either"
                        } else if model.exception_for(wl).is_some() {
                            "an exception word is not hyphenated as listed"
                        } else {
                            "positions differ from Liang's definition"
                        };
                        acc.fail(idx, cfg.json(w), format!("{:?}", ex.positions), format!("{got:?}"), note);
                    }
                }
            }
        }
    }
}

// ---------------------------------------------------------------- operation histories on ONE hyphenator

/// The operation alphabet of the history family. Word "aba": P1 cuts a-ba, P2 cuts ab-a, E1 lists ab-a,
/// E2 lists a-ba, E3 lists the neighbour word "ab" without a hyphen (P1 would cut a-b).
const HIST_OPS: [&str; 9] = [
    "load_patterns(\"a1b\")",
    "load_patterns(\"b1a\")",
    "insert_exception(\"ab-a\")",
    "insert_exception(\"a-ba\")",
    "insert_exceptions(\"ab-a ab\")",
    "query(\"aba\")",
    "query(\"Aba\")",
    "query(\"ABA\")",
    "query(\"ab\")",
];
fn hist_query_word(op: u64) -> Option<&'static str> {
    match op {
        5 => Some("aba"),
        6 => Some("Aba"),
        7 => Some("ABA"),
        8 => Some("ab"),
        _ => None,
    }
}
/// Run one history on one real hyphenator; the reference state is (patterns loaded so far, exception
/// entries in order of declaration) and the model is rebuilt from scratch at the judged query. Only
/// the LAST operation is judged (every prefix is a history of its own); earlier queries are executed
/// because they are what a cache would remember.
fn check_history(idx: u64, ops: &[u64], acc: &mut Acc) {
    let Some(&last) = ops.last() else { return };
    let Some(word) = hist_query_word(last) else { return };
    acc.eval();
    let case = || json!({"kind": "history", "ops": ops, "text": ops.iter().map(|o| HIST_OPS[*o as usize]).collect::<Vec<_>>()});
    let lc = AsciiLowerCaser::default();
    let mut patterns: Vec<&str> = vec![];
    let mut exceptions: Vec<&str> = vec![];
    let r = catch(|| {
        let mut h = Hyphenator::default();
        let mut out = vec![];
        for op in ops {
            match op {
                0 => h.load_patterns("a1b"),
                1 => h.load_patterns("b1a"),
                2 => h.insert_exception("ab-a"),
                3 => h.insert_exception("a-ba"),
                4 => h.insert_exceptions("ab-a ab"),
                q => out = h.calculate_indices(&lc, hist_query_word(*q).unwrap()).collect::<Vec<usize>>(),
            }
        }
        out
    });
    for op in ops {
        match op {
            // (loading the identical pattern again stores the same digits again: idempotent)
            0 if !patterns.contains(&"a1b") => patterns.push("a1b"),
            1 if !patterns.contains(&"b1a") => patterns.push("b1a"),
            2 => exceptions.push("ab-a"),
            3 => exceptions.push("a-ba"),
            4 => {
                exceptions.push("ab-a");
                exceptions.push("ab");
            }
            _ => {}
        }
    }
    let mut model = Liang::new();
    for p in &patterns {
        let _ = model.add_pattern(p, &ascii_lc);
    }
    for e in &exceptions {
        model.add_exception(e, &ascii_lc);
    }
    let want = model.positions(&word.chars().collect::<Vec<_>>(), &ascii_lc, 1, 1).unwrap();
    if !patterns.is_empty() || !exceptions.is_empty() {
        acc.nontrivial();
    }
    // collision counters: was the same spelling asked before, with a state change for its word since?
    let wl = word.to_ascii_lowercase();
    if let Some(first) = ops[..ops.len() - 1].iter().position(|o| *o == last) {
        let between = &ops[first + 1..ops.len() - 1];
        if between.iter().any(|o| *o <= 1) {
            acc.count("query_repeated_after_load_patterns");
        }
        let touches = |o: &u64| match o {
            2 | 3 => wl == "aba",
            4 => true,
            _ => false,
        };
        if between.iter().any(touches) {
            acc.count("query_repeated_after_insert_exception_for_its_word");
            if word != wl {
                acc.count("query_repeated_after_insert_exception_for_its_word_in_other_case");
            }
        }
    }
    acc.class(&format!("history: {} -> {:?}", word, want));
    match r {
        Err(p) => acc.fail(idx, case(), format!("{want:?}"), p.describe(), "an operation of the history panicked"),
        Ok(got) => {
            let got = as_set(got, acc);
            if got != want {
                acc.fail(idx, case(), format!("{want:?}"), format!("{got:?}"), format!("the last query of the history differs from the model rebuilt from scratch (patterns {patterns:?}, exceptions in order {exceptions:?})"));
            }
        }
    }
}

// ---------------------------------------------------------------- enumerators

/// All patterns with 1..=maxlen letters over {a,b}, optional "." at either end, one digit choice from
/// `menu` in each of the len+1 slots, at least one digit. Shortest first.
fn pattern_universe(maxlen: usize, menu: &[Option<u8>]) -> Vec<String> {
    let mut out = vec![];
    for len in 1..=maxlen {
        for lm in 0..(1u32 << len) {
            for anchors in 0..4u32 {
                let radices = vec![menu.len() as u64; len + 1];
                for di in 0..vcore::product(&radices) {
                    let d = vcore::digits(di, &radices);
                    if d.iter().all(|x| menu[*x as usize].is_none()) {
                        continue;
                    }
                    let mut p = String::new();
                    if anchors & 1 == 1 {
                        p.push('.');
                    }
                    for i in 0..len {
                        if let Some(v) = menu[d[i] as usize] {
                            p.push((b'0' + v) as char);
                        }
                        p.push(if lm >> i & 1 == 1 { 'b' } else { 'a' });
                    }
                    if let Some(v) = menu[d[len] as usize] {
                        p.push((b'0' + v) as char);
                    }
                    if anchors & 2 == 2 {
                        p.push('.');
                    }
                    out.push(p);
                }
            }
        }
    }
    out
}

/// All words of length 1..=maxlen over {a,b}, each with all its case variants (2^len), shortest first.
fn words_upto(maxlen: usize, with_case: bool) -> Vec<(Vec<char>, Vec<String>)> {
    let mut out = vec![];
    for len in 1..=maxlen {
        for m in 0..(1u32 << len) {
            let wl: Vec<char> = (0..len).map(|i| if m >> i & 1 == 1 { 'b' } else { 'a' }).collect();
            out.push((wl.clone(), case_variants(&wl, with_case)));
        }
    }
    out
}
fn case_variants(wl: &[char], all: bool) -> Vec<String> {
    let len = wl.len();
    if !all || len > 10 {
        let lower: String = wl.iter().collect();
        let upper: String = wl.iter().map(|c| uc_all(*c)).collect();
        let mixed: String = wl.iter().enumerate().map(|(i, c)| if i % 2 == 0 { uc_all(*c) } else { *c }).collect();
        let mut v = vec![lower, upper, mixed];
        v.dedup();
        return v;
    }
    let mut v: Vec<String> = (0..(1u32 << len)).map(|u| wl.iter().enumerate().map(|(i, c)| if u >> i & 1 == 1 { uc_all(*c) } else { *c }).collect()).collect();
    v.sort();
    v.dedup();
    v
}

/// Every `\hyphenation` entry for the words over {a,b} of length lo..=hi: each subset of the interior
/// positions, plus (for the first word of each length) a leading and a trailing hyphen, which TeX
/// accepts and ignores.
fn exception_menu(lo: usize, hi: usize) -> Vec<String> {
    let mut out = vec![];
    for len in lo..=hi {
        for m in 0..(1u32 << len) {
            let w: Vec<char> = (0..len).map(|i| if m >> i & 1 == 1 { 'b' } else { 'a' }).collect();
            for hm in 0..(1u32 << (len - 1)) {
                let mut s = String::new();
                for (i, c) in w.iter().enumerate() {
                    if i > 0 && hm >> (i - 1) & 1 == 1 {
                        s.push('-');
                    }
                    s.push(*c);
                }
                out.push(s.clone());
                if m == 1 && hm == 0 {
                    out.push(format!("-{s}"));
                    out.push(format!("{s}-"));
                }
            }
        }
    }
    out
}

/// As `pattern_universe`, over an arbitrary letter set.
fn pattern_universe_over(letters: &[char], maxlen: usize, menu: &[Option<u8>]) -> Vec<String> {
    let k = letters.len() as u64;
    let mut out = vec![];
    for len in 1..=maxlen {
        for li in 0..k.pow(len as u32) {
            let ls = vcore::digits(li, &vec![k; len]);
            for anchors in 0..4u32 {
                let radices = vec![menu.len() as u64; len + 1];
                for di in 0..vcore::product(&radices) {
                    let d = vcore::digits(di, &radices);
                    if d.iter().all(|x| menu[*x as usize].is_none()) {
                        continue;
                    }
                    let mut p = String::new();
                    if anchors & 1 == 1 {
                        p.push('.');
                    }
                    for i in 0..len {
                        if let Some(v) = menu[d[i] as usize] {
                            p.push((b'0' + v) as char);
                        }
                        p.push(letters[ls[i] as usize]);
                    }
                    if let Some(v) = menu[d[len] as usize] {
                        p.push((b'0' + v) as char);
                    }
                    if anchors & 2 == 2 {
                        p.push('.');
                    }
                    out.push(p);
                }
            }
        }
    }
    out
}
/// All words of length 1..=maxlen over `letters` (lower case), each with all its case variants.
fn words_over(letters: &[char], maxlen: usize) -> Vec<(Vec<char>, Vec<String>)> {
    let k = letters.len() as u64;
    let mut out = vec![];
    for len in 1..=maxlen {
        for li in 0..k.pow(len as u32) {
            let wl: Vec<char> = vcore::digits(li, &vec![k; len]).iter().map(|i| letters[*i as usize]).collect();
            out.push((wl.clone(), case_variants(&wl, true)));
        }
    }
    out
}
/// Every exception entry for the words over `letters` of length lo..=hi with every hyphen placement.
fn exception_menu_over(letters: &[char], lo: usize, hi: usize) -> Vec<String> {
    let mut out = vec![];
    for (w, _) in words_over(letters, hi).into_iter().filter(|(w, _)| w.len() >= lo) {
        for hm in 0..(1u32 << (w.len() - 1)) {
            let mut s = String::new();
            for (i, c) in w.iter().enumerate() {
                if i > 0 && hm >> (i - 1) & 1 == 1 {
                    s.push('-');
                }
                s.push(*c);
            }
            out.push(s);
        }
    }
    out
}

/// The words worth looking up for an exception entry: every case variant of the word itself, and its
/// neighbours (one letter more at either end, one letter less) to see that the entry does not leak.
fn words_around(entry: &str) -> Vec<(Vec<char>, Vec<String>)> {
    let w: Vec<char> = entry.chars().filter(|c| *c != '-').filter_map(lc_all).collect();
    let mut out = vec![(w.clone(), case_variants(&w, true))];
    let extras = if w.iter().all(|c| c.is_ascii()) { ['a', 'b'] } else { ['a', 'ḁ'] };
    for extra in extras {
        let mut x = w.clone();
        x.push(extra);
        out.push((x.clone(), vec![x.iter().collect()]));
        let mut y = vec![extra];
        y.extend(w.iter().copied());
        out.push((y.clone(), vec![y.iter().collect()]));
    }
    if w.len() > 1 {
        let x = w[..w.len() - 1].to_vec();
        out.push((x.clone(), vec![x.iter().collect()]));
        let y = w[1..].to_vec();
        out.push((y.clone(), vec![y.iter().collect()]));
    }
    out
}

// ---------------------------------------------------------------- self-validation of the model

/// The repository's own TeX-derived expectations (crates/hyphenate/src/lib.rs, `hyphenation_tests!`
/// and `explanation_tests!`), replayed through the model with plain TeX's patterns and exceptions.
fn self_validate(ctx: &mut Ctx, plain: &Liang) {
    let cases = [
        ("record", "record"),
        ("hyphenation", "hy-phen-ation"),
        ("concatenation", "con-cate-na-tion"),
        ("supercalifragilisticexpialidocious", "su-per-cal-ifrag-ilis-tic-ex-pi-ali-do-cious"),
        ("bachelor", "bach-e-lor"),
        ("echelon", "ech-e-lon"),
        ("toothaches", "toothaches"),
        ("campfire", "camp-fire"),
        ("biorhythm", "biorhyth-m"),
        ("algorithm", "al-go-rith-m"),
        ("pneumonoultramicroscopicsilicovolcanoconiosis", "p-neu-monoul-tra-mi-cro-scop-ic-sil-i-co-vol-canoco-nio-sis"),
        ("project", "project"),
        ("present", "present"),
        ("table", "ta-ble"),
        ("Table", "Ta-ble"),
        ("ach", "ach"),
        ("Aaronic", "Aa-ron-ic"),
        ("Abelia", "A-beli-a"),
        ("William", "William"),
        ("chaffless", "chaf-f-less"),
    ];
    for (w, want) in cases {
        let chars: Vec<char> = w.chars().collect();
        let pos = plain.positions(&chars, &ascii_lc, 1, 1).unwrap();
        let mut got = String::new();
        for (i, c) in chars.iter().enumerate() {
            if pos.contains(&i) {
                got.push('-');
            }
            got.push(*c);
        }
        if got != want {
            ctx.machinery_error(format!("model self-validation (hyphenation_tests::{w}): model gives {got}, the repository's TeX expectation is {want}"));
        }
    }
    // explanation_tests: aggregate scores (slot 0 forced to 0, the slot after the word dropped)
    for (w, want) in [("difficult", vec![0u8, 1, 4, 1, 0, 3, 0, 4, 0]), ("cove", vec![0, 0, 4, 1]), ("antce", vec![0, 2, 4, 4, 0])] {
        let chars: Vec<char> = w.chars().collect();
        let mut s = plain.pattern_scores(&chars);
        s[0] = 0;
        s.truncate(chars.len());
        if s != want {
            ctx.machinery_error(format!("model self-validation (explanation_tests::{w}): model scores {s:?}, repository {want:?}"));
        }
    }
}

// ---------------------------------------------------------------- main

const NONE: Option<u8> = None;

fn main() {
    let mut ctx = Ctx::new("C13", Level::Exploration);
    ctx.assume("lower-case maps explored: hyphenate::AsciiLowerCaser on ASCII letters, and one harness LowerCaser that adds the letters é/É (2 bytes), ḁ/Ḁ (3 bytes), 𝐚/𝐀 (4 bytes) and, mapped to themselves, the non-alphabetic letters ', U+2019, U+200D, @ and U+1F600 (a letter is whatever the map accepts); patterns and exception entries are written in lower case (an upper-case letter in an entry is finding D11c)");
    ctx.assume("in operation histories, loading the identical pattern text a second time is taken as idempotent (TeX §963 reports \"Duplicate pattern\" and stores the same digits again)");
    ctx.assume("pattern sets with two patterns on the same (anchored) letter string are outside the domain: TeX §963 rejects the second as \"Duplicate pattern\" (skipped and counted)");
    ctx.assume("patterns are well formed in the sense of TeX §962: letters, at most one digit per slot, \".\" only at the ends, no digit outside the dots; words contain letters only (a string with a non-letter is never a word, TeX §897)");
    ctx.assume("an exception entry with a leading or trailing hyphen is legal and the hyphen has no effect (TeX §938 records position 0 / n, §923 clears them)");

    let repo = std::env::var("VERIF_REPO").unwrap_or("/repo".into());
    let plain_patterns = std::fs::read_to_string(format!("{repo}/crates/hyphenate/src/plain_tex_patterns.txt")).unwrap_or_default();
    let plain_exceptions = std::fs::read_to_string(format!("{repo}/crates/hyphenate/src/plain_tex_exceptions.txt")).unwrap_or_default();
    let mut plain = Liang::new();
    let errs = plain.add_patterns(&plain_patterns, &ascii_lc);
    for e in plain_exceptions.split_whitespace() {
        plain.add_exception(e, &ascii_lc);
    }
    if plain.patterns.len() < 4000 || !errs.is_empty() {
        ctx.machinery_error(format!("cannot load plain TeX's patterns from {repo}: {} patterns, errors {:?}", plain.patterns.len(), errs.iter().take(3).collect::<Vec<_>>()));
    }

    if let Some((_fam, case)) = ctx.replay_case() {
        let mut acc = Acc::default();
        let strs = |v: &Value| -> Vec<String> { v.as_array().map(|a| a.iter().filter_map(|x| x.as_str().map(String::from)).collect()).unwrap_or_default() };
        let case = if case["case"].is_object() { case["case"].clone() } else { case };
        let word = case["word"].as_str().unwrap_or("").to_string();
        let wl: Vec<char> = if case["skew_lower_caser"].as_bool().unwrap_or(false) { word.chars().filter_map(lc_skew).collect() } else { word.chars().filter_map(lc_all).collect() };
        if case["kind"] == "history" {
            let ops: Vec<u64> = case["ops"].as_array().map(|a| a.iter().filter_map(|x| x.as_u64()).collect()).unwrap_or_default();
            check_history(0, &ops, &mut acc);
        } else if case["kind"] == "plain" {
            check_plain(0, &plain, &plain_patterns, &plain_exceptions, &[(wl, vec![word])], &mut acc);
        } else {
            let cfg = Config { patterns: strs(&case["patterns"]), exceptions: strs(&case["exceptions"]), exceptions_first: case["exceptions_first"].as_bool().unwrap_or(false), mixed: case["mixed_alphabet"].as_bool().unwrap_or(false), list_api: case["list_api"].as_array().map(|a| (a[0].as_str().unwrap_or("").to_string(), a[1].as_str().unwrap_or("").to_string(), a[2].as_str().unwrap_or("").to_string())), skew: case["skew_lower_caser"].as_bool().unwrap_or(false) };
            check_config(0, &cfg, &[(wl, vec![word])], &mut acc);
        }
        ctx.finish_replay(acc);
    }

    self_validate(&mut ctx, &plain);

    let wide_menu = [NONE, Some(0), Some(1), Some(2), Some(3), Some(8), Some(9)];
    let design_menu = [NONE, Some(1), Some(2), Some(3), Some(8), Some(9)];
    let pair_menu = [NONE, Some(1), Some(2), Some(9)];
    let small_menu = [NONE, Some(2), Some(9)];

    // F1: every single pattern
    {
        let u = pattern_universe(3, &wide_menu);
        let words = words_upto(ctx.pick(4, 6), true);
        let nw: usize = words.iter().map(|w| w.1.len()).sum();
        let (u, words) = (&u, &words);
        ctx.family("single-pattern", &format!("each of the {} patterns with 1..3 letters over {{a,b}}, optional '.' at either end, a digit from {{none,0,1,2,3,8,9}} in every slot (>= 1 digit) x all {} words of length 1..{} over {{a,b,A,B}}", u.len(), nw, ctx.pick(4, 6)), u.len() as u64, |i, acc| {
            let cfg = Config { patterns: vec![u[i as usize].clone()], ..Default::default() };
            check_config(i, &cfg, words, acc);
            if i % 9973 == 11 {
                acc.sample(i, || json!({"patterns": cfg.patterns, "words": nw}));
            }
        });
    }
    // F2: every pair of patterns
    {
        let u = pattern_universe(2, &pair_menu);
        let words = words_upto(ctx.pick(4, 5), true);
        let nw: usize = words.iter().map(|w| w.1.len()).sum();
        let k = u.len() as u64;
        let (u, words) = (&u, &words);
        ctx.family("pattern-pairs", &format!("every unordered pair from the {} patterns with 1..2 letters over {{a,b}}, anchors, digits {{none,1,2,9}} (index space {}^2, the lower triangle is empty) x all {} words of length 1..{} over {{a,b,A,B}}", k, k, nw, ctx.pick(4, 5)), k * k, |idx, acc| {
            let (i, j) = (idx / k, idx % k);
            if j <= i {
                return;
            }
            // the later pattern comes first in every other pair: load order must not matter
            let cfg = if (i + j) % 2 == 0 { Config { patterns: vec![u[i as usize].clone(), u[j as usize].clone()], ..Default::default() } } else { Config { patterns: vec![u[j as usize].clone(), u[i as usize].clone()], ..Default::default() } };
            check_config(idx, &cfg, words, acc);
            if idx % 99991 == 17 {
                acc.sample(idx, || json!({"patterns": cfg.patterns}));
            }
        });
    }
    // F2b (thorough): a 3-letter pattern with a 1..2-letter pattern, and triples over a reduced digit set
    if !ctx.quick() {
        let u3: Vec<String> = pattern_universe(3, &small_menu).into_iter().filter(|p| p.chars().filter(|c| c.is_ascii_alphabetic()).count() == 3).collect();
        let u2 = pattern_universe(2, &pair_menu);
        let words = words_upto(4, true);
        let (k3, k2) = (u3.len() as u64, u2.len() as u64);
        let (u3, u2, words) = (&u3, &u2, &words);
        ctx.family("pattern-pairs-3x2", &format!("every pair of one of the {k3} 3-letter patterns (digits {{none,2,9}}) with one of the {k2} 1..2-letter patterns (digits {{none,1,2,9}}) x all words of length 1..4 over {{a,b,A,B}}"), k3 * k2, |idx, acc| {
            let cfg = Config { patterns: vec![u3[(idx / k2) as usize].clone(), u2[(idx % k2) as usize].clone()], ..Default::default() };
            check_config(idx, &cfg, words, acc);
        });
        let us = pattern_universe(2, &small_menu);
        let k = us.len() as u64;
        let words = words_upto(3, true);
        let (us, words) = (&us, &words);
        ctx.family("pattern-triples", &format!("every unordered triple from the {k} patterns with 1..2 letters, anchors, digits {{none,2,9}} (index space {k}^3, only i<j<l is used) x all words of length 1..3 over {{a,b,A,B}}"), k * k * k, |idx, acc| {
            let (i, j, l) = (idx / (k * k), idx / k % k, idx % k);
            if !(i < j && j < l) {
                return;
            }
            let cfg = Config { patterns: vec![us[i as usize].clone(), us[j as usize].clone(), us[l as usize].clone()], ..Default::default() };
            check_config(idx, &cfg, words, acc);
        });
    }
    // F3: one exception entry against every single pattern (D11 lives here)
    {
        let mut u = vec![String::new()];
        u.extend(pattern_universe(3, &design_menu));
        let ex = exception_menu(2, ctx.pick(3, 4));
        let around: Vec<Vec<(Vec<char>, Vec<String>)>> = ex.iter().map(|e| words_around(e)).collect();
        let (nu, ne) = (u.len() as u64, ex.len() as u64);
        let (u, ex, around) = (&u, &ex, &around);
        ctx.family("exception-vs-pattern", &format!("(no pattern or one of the {} patterns with 1..3 letters, digits {{none,1,2,3,8,9}}) x one of the {} exception entries (every word of length 2..{} over {{a,b}} with every hyphen placement, plus leading/trailing hyphen) x the entry's word in every letter case and its 6 neighbours (one letter more/less at either end)", nu - 1, ne, ctx.pick(3, 4)), nu * ne, |idx, acc| {
            let (pi, ei) = ((idx / ne) as usize, (idx % ne) as usize);
            let cfg = Config { patterns: if u[pi].is_empty() { vec![] } else { vec![u[pi].clone()] }, exceptions: vec![ex[ei].clone()], exceptions_first: false, mixed: false, list_api: None, skew: false };
            check_config(idx, &cfg, &around[ei], acc);
            if idx % 99991 == 23 {
                acc.sample(idx, || json!({"patterns": cfg.patterns, "exceptions": cfg.exceptions}));
            }
        });
    }
    // F4: one exception entry against every pair of patterns (reduced digit set)
    {
        let u = pattern_universe(2, &small_menu);
        let ex = if ctx.quick() {
            let mut e = exception_menu(2, 2);
            e.extend(["aba", "a-ba", "ab-a", "a-b-a", "b-aa"].iter().map(|s| s.to_string()));
            e
        } else {
            exception_menu(2, 4)
        };
        let around: Vec<Vec<(Vec<char>, Vec<String>)>> = ex.iter().map(|e| words_around(e)).collect();
        let (k, ne) = (u.len() as u64, ex.len() as u64);
        let (u, ex, around) = (&u, &ex, &around);
        ctx.family("exception-vs-pair", &format!("every unordered pair from the {k} patterns with 1..2 letters, digits {{none,2,9}} x one of {ne} exception entries ({}) x the entry's word in every case and its neighbours", if ctx.quick() { "all of length 2, five of length 3" } else { "all of length 2..4" }), k * k * ne, |idx, acc| {
            let (i, j, ei) = (idx / (k * ne), idx / ne % k, (idx % ne) as usize);
            if j <= i {
                return;
            }
            let cfg = Config { patterns: vec![u[i as usize].clone(), u[j as usize].clone()], exceptions: vec![ex[ei].clone()], exceptions_first: false, mixed: false, list_api: None, skew: false };
            check_config(idx, &cfg, &around[ei], acc);
        });
    }
    // F5: two exception entries (same word twice: the later entry wins, TeX §941; two words: independent)
    {
        let ex = exception_menu(2, ctx.pick(3, 4));
        let pats: Vec<String> = ["", "a1", "1b", "a2b", "a9b", ".a8", "b9.", "a1b1", "1a2a1", ".a1b."].iter().map(|s| s.to_string()).collect();
        let (ne, np) = (ex.len() as u64, pats.len() as u64);
        let (ex, pats) = (&ex, &pats);
        ctx.family("exception-lists-of-two", &format!("every ordered pair of the {ne} exception entries (length 2..{}) x {np} pattern sets of size <= 1 x both entries' words in every case and their neighbours", ctx.pick(3, 4)), ne * ne * np, |idx, acc| {
            let (a, b, pi) = ((idx / (ne * np)) as usize, (idx / np % ne) as usize, (idx % np) as usize);
            let cfg = Config { patterns: if pats[pi].is_empty() { vec![] } else { vec![pats[pi].clone()] }, exceptions: vec![ex[a].clone(), ex[b].clone()], exceptions_first: false, mixed: false, list_api: None, skew: false };
            let strip = |s: &str| s.replace('-', "");
            if strip(&ex[a]) == strip(&ex[b]) && ex[a] != ex[b] {
                acc.count("same_word_entered_twice");
                acc.count("exception_redeclared");
            }
            let mut words = words_around(&ex[a]);
            if strip(&ex[a]) != strip(&ex[b]) {
                words.extend(words_around(&ex[b]));
            }
            check_config(idx, &cfg, &words, acc);
        });
    }
    // F6: long patterns: the 16-zero run encoding of the op stream, words up to 40 letters
    {
        let mut pats: Vec<String> = vec![];
        let lens: Vec<usize> = ctx.pick(vec![14, 15, 16, 17, 18, 30, 31, 32, 33, 34, 47, 48, 49], (1..=50).chain([60, 61, 62, 63]).collect());
        for &l in &lens {
            for anchors in 0..4u32 {
                // TeX §962 counts the dots among the 63 letters of a pattern
                if l + anchors.count_ones() as usize > 63 {
                    continue;
                }
                for d in ['1', '8', '9'] {
                    // one digit in each single slot
                    for slot in 0..=l {
                        pats.push(long_pattern(l, anchors, &[(slot, d)]));
                    }
                    // a digit at both ends, and the last two slots
                    pats.push(long_pattern(l, anchors, &[(0, d), (l, '1')]));
                    pats.push(long_pattern(l, anchors, &[(l - 1, '2'), (l, d)]));
                }
                if [15, 16, 17, 31, 32, 33].contains(&l) {
                    for s1 in 0..=l {
                        for s2 in (s1 + 1)..=l {
                            pats.push(long_pattern(l, anchors, &[(s1, '1'), (s2, '3')]));
                        }
                    }
                }
            }
        }
        let maxw = ctx.pick(40usize, 64);
        let mut words: Vec<(Vec<char>, Vec<String>)> = vec![];
        // (the empty string and the lengths around TeX's 63-letter word limit are boundary members)
        for n in (0..=maxw).chain(62..=66) {
            let wl = vec!['a'; n];
            if !words.iter().any(|(w, _)| *w == wl) {
                words.push((wl.clone(), case_variants(&wl, false)));
            }
        }
        // a 'b' inside the run breaks every match that covers it
        for n in [16usize, 17, 33, 40] {
            for at in [0, n / 2, n - 1] {
                let mut wl = vec!['a'; n];
                wl[at] = 'b';
                words.push((wl.clone(), vec![wl.iter().collect()]));
            }
        }
        let (pats, words) = (&pats, &words);
        ctx.family("long-patterns", &format!("{} patterns a^L for L in {:?}: anchors x a digit from {{1,8,9}} in each single slot, at both ends, in the last two slots, and (L in 15,16,17,31,32,33) every pair of slots x words a^n, A^n, AaAa.. for n = 0..{maxw} and 62..66, and runs broken by one b", pats.len(), if lens.len() > 12 { vec![lens[0], *lens.last().unwrap()] } else { lens.clone() }), pats.len() as u64, |i, acc| {
            let cfg = Config { patterns: vec![pats[i as usize].clone()], ..Default::default() };
            let zero_run = {
                let Ok(p) = liang::parse_pattern(&cfg.patterns[0], &ascii_lc) else {
                    acc.skipped += 1;
                    return;
                };
                let mut run = 0;
                let mut best = 0;
                for d in &p.digits {
                    if *d == 0 {
                        run += 1;
                    } else {
                        best = best.max(run);
                        run = 0;
                    }
                }
                best.max(run)
            };
            if zero_run >= 16 {
                acc.count("pattern_with_16_or_more_zero_slots_in_a_row");
            }
            check_config(i, &cfg, words, acc);
            if i % 997 == 3 {
                acc.sample(i, || json!({"patterns": cfg.patterns}));
            }
        });
        // a long pattern together with a short one and an exception on a long word
        let longs: Vec<String> = [16usize, 17, 32].iter().flat_map(|l| [long_pattern(*l, 0, &[(*l, '1')]), long_pattern(*l, 1, &[(0, '9'), (*l - 1, '1')]), long_pattern(*l, 2, &[(1, '1'), (*l, '9')])]).collect();
        let shorts = pattern_universe(2, &small_menu);
        let excs: Vec<String> = vec![String::new(), format!("{}-{}", "a".repeat(16), "a"), format!("a-{}", "a".repeat(31)), "a".repeat(20)];
        let (nl, ns, ne) = (longs.len() as u64, shorts.len() as u64, excs.len() as u64);
        let (longs, shorts, excs) = (&longs, &shorts, &excs);
        ctx.family("long-with-short", &format!("{nl} long patterns (L = 16,17,32) x {ns} patterns with 1..2 letters (digits {{none,2,9}}) x {ne} exception lists (none, 17 letters, 32 letters, 20 letters without hyphen) x the long-pattern words"), nl * ns * ne, |idx, acc| {
            let (li, si, ei) = ((idx / (ns * ne)) as usize, (idx / ne % ns) as usize, (idx % ne) as usize);
            let cfg = Config { patterns: vec![longs[li].clone(), shorts[si].clone()], exceptions: if excs[ei].is_empty() { vec![] } else { vec![excs[ei].clone()] }, exceptions_first: false, mixed: false, list_api: None, skew: false };
            check_config(idx, &cfg, words, acc);
        });
    }
    // F7: plain TeX's own 4447 patterns and 14 exceptions (real prefix sharing in the trie)
    {
        let mut keys: Vec<String> = plain.patterns.iter().map(|p| p.key.iter().filter(|c| **c != EDGE).collect::<String>()).collect();
        keys.sort();
        keys.dedup();
        let mut vocab: Vec<String> = vec![];
        for k in &keys {
            vocab.push(k.clone());
            if !ctx.quick() || k.len() >= 4 {
                for (pre, suf) in [("", "s"), ("un", ""), ("", "ing"), ("re", "ed")] {
                    vocab.push(format!("{pre}{k}{suf}"));
                }
            }
        }
        for e in plain_exceptions.split_whitespace() {
            let w = e.replace('-', "");
            vocab.push(format!("{w}s"));
            vocab.push(w);
        }
        for w in ["difficult", "office", "shuffling", "waffle", "affliction", "fifty", "efficient", "contents", "hyphenation", "baffling", "stiffly", "chaff", "flyleaf", "halfback", "shelfful", "avatar", "fluffiest", "raffish", "offhand", "supercalifragilisticexpialidocious", "pneumonoultramicroscopicsilicovolcanoconiosis"] {
            vocab.push(w.to_string());
        }
        vocab.sort();
        vocab.dedup();
        let words: Vec<(Vec<char>, Vec<String>)> = vocab.iter().map(|w| (w.chars().collect::<Vec<char>>(), case_variants(&w.chars().collect::<Vec<char>>(), false))).collect();
        let n = words.len() as u64;
        let (words, plain, pp, pe) = (&words, &plain, &plain_patterns, &plain_exceptions);
        ctx.family_ranges("plain-tex-patterns", &format!("plain TeX's {} patterns and 14 exceptions x {} words (the letter string of every pattern, with affixes s/un/ing/re..ed, the exception words, a ligature vocabulary) in lower, upper and alternating case", plain.patterns.len(), n), n, |r, acc| {
            check_plain(r.start, plain, pp, pe, &words[r.start as usize..r.end as usize], acc);
        });
    }
    // F8: configurations DESIGN did not list: upper-case letters inside \hyphenation entries (TeX §937
    // stores lc_code), and exceptions entered before the patterns.
    {
        let ex = exception_menu(2, 3);
        let cased: Vec<String> = ex.iter().flat_map(|e| {
            let n = e.chars().count();
            (1..(1u32 << n)).filter_map(move |m| {
                let s: String = e.chars().enumerate().map(|(i, c)| if m >> i & 1 == 1 { c.to_ascii_uppercase() } else { c }).collect();
                if s == *e { None } else { Some(s) }
            })
        }).collect();
        let mut cased = cased;
        cased.sort();
        cased.dedup();
        let pats: Vec<String> = ["", "a1", "1b", "a1b", "b1a", "a2b", "1a1"].iter().map(|s| s.to_string()).collect();
        let (ne, np) = (cased.len() as u64, pats.len() as u64);
        let (cased, pats) = (&cased, &pats);
        ctx.family("exception-entry-case", &format!("{ne} exception entries of length 2..3 with at least one upper-case letter x {np} pattern sets of size <= 1 x the word in every case and its neighbours"), ne * np, |idx, acc| {
            let (ei, pi) = ((idx / np) as usize, (idx % np) as usize);
            let cfg = Config { patterns: if pats[pi].is_empty() { vec![] } else { vec![pats[pi].clone()] }, exceptions: vec![cased[ei].clone()], exceptions_first: false, mixed: false, list_api: None, skew: false };
            acc.count("exception_entry_with_upper_case_letter");
            check_config(idx, &cfg, &words_around(&cased[ei]), acc);
        });
        let mut u = vec![String::new()];
        u.extend(pattern_universe(ctx.pick(2, 3), &design_menu));
        let around: Vec<Vec<(Vec<char>, Vec<String>)>> = ex.iter().map(|e| words_around(e)).collect();
        let (nu, ne) = (u.len() as u64, ex.len() as u64);
        let (u, ex, around) = (&u, &ex, &around);
        ctx.family("exceptions-before-patterns", &format!("as exception-vs-pattern ({} patterns with 1..{} letters x {ne} entries of length 2..3), but insert_exception is called before load_patterns", nu - 1, ctx.pick(2, 3)), nu * ne, |idx, acc| {
            let (pi, ei) = ((idx / ne) as usize, (idx % ne) as usize);
            let cfg = Config { patterns: if u[pi].is_empty() { vec![] } else { vec![u[pi].clone()] }, exceptions: vec![ex[ei].clone()], exceptions_first: true, mixed: false, list_api: None, skew: false };
            check_config(idx, &cfg, &around[ei], acc);
        });
    }

    // F9: letters beyond ASCII (character offset != byte offset), looked up with the harness lower-caser
    {
        let u = pattern_universe_over(&MIXED_LOWER, 2, &pair_menu);
        let words = words_over(&MIXED_LOWER, ctx.pick(4, 5));
        let nw: usize = words.iter().map(|w| w.1.len()).sum();
        let (u, words) = (&u, &words);
        ctx.family("mixed-single-pattern", &format!("each of the {} patterns with 1..2 letters over {{a, é, ḁ, 𝐚}} (1-, 2-, 3- and 4-byte letters), anchors, digits {{none,1,2,9}} x all {} words of length 1..{} over these letters and their upper-case partners {{A, É, Ḁ, 𝐀}}, looked up with a harness LowerCaser", u.len(), nw, ctx.pick(4, 5)), u.len() as u64, |i, acc| {
            let cfg = Config { patterns: vec![u[i as usize].clone()], mixed: true, ..Default::default() };
            check_config(i, &cfg, words, acc);
            if i % 997 == 5 {
                acc.sample(i, || json!({"patterns": cfg.patterns}));
            }
        });
        let three = [MIXED_LOWER[0], MIXED_LOWER[2], MIXED_LOWER[3]];
        let up = pattern_universe_over(&three, 2, &ctx.pick(vec![NONE, Some(1)], vec![NONE, Some(1), Some(2)]));
        let pwords = words_over(&three, ctx.pick(3, 4));
        let k = up.len() as u64;
        let (up, pwords) = (&up, &pwords);
        ctx.family("mixed-pattern-pairs", &format!("every unordered pair from the {k} patterns with 1..2 letters over {{a, ḁ, 𝐚}}, anchors, digits {} (index space {k}^2) x all words of length 1..{} over these letters in both cases", ctx.pick("{none,1}", "{none,1,2}"), ctx.pick(3, 4)), k * k, |idx, acc| {
            let (i, j) = (idx / k, idx % k);
            if j <= i {
                return;
            }
            let cfg = Config { patterns: vec![up[i as usize].clone(), up[j as usize].clone()], mixed: true, ..Default::default() };
            check_config(idx, &cfg, pwords, acc);
        });
        let mut ue = vec![String::new()];
        ue.extend(pattern_universe_over(&three, 2, &pair_menu));
        let ex = exception_menu_over(&three, 2, 3);
        let around: Vec<Vec<(Vec<char>, Vec<String>)>> = ex.iter().map(|e| words_around(e)).collect();
        let (nu, ne) = (ue.len() as u64, ex.len() as u64);
        let (ue, ex, around) = (&ue, &ex, &around);
        ctx.family("mixed-exception-vs-pattern", &format!("(no pattern or one of the {} patterns with 1..2 letters over {{a, ḁ, 𝐚}}, digits {{none,1,2,9}}) x one of the {ne} exception entries of length 2..3 over these letters with every hyphen placement x the entry's word in every case and its neighbours", nu - 1), nu * ne, |idx, acc| {
            let (pi, ei) = ((idx / ne) as usize, (idx % ne) as usize);
            let cfg = Config { patterns: if ue[pi].is_empty() { vec![] } else { vec![ue[pi].clone()] }, exceptions: vec![ex[ei].clone()], exceptions_first: false, mixed: true, list_api: None, skew: false };
            check_config(idx, &cfg, &around[ei], acc);
        });
    }

    // F10: boundary members found by going through the numeric literals of the anchored source
    {
        // exception scores are 6/7: pattern digits on both sides of them
        let mut u = vec![String::new()];
        u.extend(pattern_universe(2, &[NONE, Some(5), Some(6), Some(7), Some(8)]));
        let ex = exception_menu(2, 3);
        let around: Vec<Vec<(Vec<char>, Vec<String>)>> = ex.iter().map(|e| words_around(e)).collect();
        let (nu, ne) = (u.len() as u64, ex.len() as u64);
        let (u, ex, around) = (&u, &ex, &around);
        ctx.family("exception-vs-digits-5-to-8", &format!("(no pattern or one of the {} patterns with 1..2 letters, digits {{none,5,6,7,8}}: both sides of the scores 6/7 under which exceptions are stored) x {ne} exception entries of length 2..3 x the entry's word in every case and its neighbours", nu - 1), nu * ne, |idx, acc| {
            let (pi, ei) = ((idx / ne) as usize, (idx % ne) as usize);
            let cfg = Config { patterns: if u[pi].is_empty() { vec![] } else { vec![u[pi].clone()] }, exceptions: vec![ex[ei].clone()], exceptions_first: false, mixed: false, list_api: None, skew: false };
            if u[pi].contains('6') || u[pi].contains('7') {
                acc.count("exception_against_pattern_digit_6_or_7");
            }
            check_config(idx, &cfg, &around[ei], acc);
        });
        // nothing loaded at all, the empty word, entries TeX ignores (fewer than two letters)
        let configs: Vec<Config> = vec![
            Config::default(),
            Config { patterns: vec!["a1".into()], ..Default::default() },
            Config { patterns: vec!["1a".into(), ".a1".into(), "a1.".into()], ..Default::default() },
            Config { exceptions: vec!["".into()], ..Default::default() },
            Config { exceptions: vec!["-".into()], ..Default::default() },
            Config { exceptions: vec!["a".into()], patterns: vec!["1a1".into()], ..Default::default() },
            Config { exceptions: vec!["a-".into(), "-a".into()], patterns: vec!["1a1".into()], ..Default::default() },
            Config { exceptions: vec!["".into()], patterns: vec!["1a1".into()], exceptions_first: true, mixed: false, list_api: None, skew: false },
            Config { patterns: vec!["é1".into()], mixed: true, ..Default::default() },
        ];
        let words: Vec<(Vec<char>, Vec<String>)> = ["", "a", "aa", "aaa", "é", "éa"].iter().map(|w| (w.chars().collect::<Vec<char>>(), case_variants(&w.chars().collect::<Vec<char>>(), true))).collect();
        let (configs, words) = (&configs, &words);
        ctx.family("degenerate", "9 configurations (nothing loaded; only anchored/unanchored one-letter patterns; exception entries with 0 or 1 letter or only a hyphen, which TeX §939 ignores) x the words '', a, aa, aaa, é, éa in every case", configs.len() as u64, |i, acc| {
            let cfg = &configs[i as usize];
            let ws: Vec<(Vec<char>, Vec<String>)> = words.iter().filter(|(w, _)| cfg.mixed || w.iter().all(|c| c.is_ascii())).cloned().collect();
            acc.count_n("empty_word_looked_up", 1);
            if cfg.patterns.is_empty() && cfg.exceptions.is_empty() {
                acc.count("lookup_with_nothing_loaded");
            }
            check_config(i, cfg, &ws, acc);
        });
        // the 16-zero run with letters of more than one byte
        let mut pats: Vec<String> = vec![];
        for l in [15usize, 16, 17, 32] {
            for letter in ['é', 'ḁ', '𝐚'] {
                for anchors in 0..4u32 {
                    for slot in [0, 1, l - 1, l] {
                        let mut p = String::new();
                        if anchors & 1 == 1 {
                            p.push('.');
                        }
                        for i in 0..=l {
                            if i == slot {
                                p.push('1');
                            }
                            if i < l {
                                p.push(letter);
                            }
                        }
                        if anchors & 2 == 2 {
                            p.push('.');
                        }
                        pats.push(p);
                    }
                }
            }
        }
        let mut words: Vec<(Vec<char>, Vec<String>)> = vec![];
        for letter in ['é', 'ḁ', '𝐚'] {
            for n in [1usize, 14, 15, 16, 17, 18, 31, 32, 33, 34, 40] {
                let wl = vec![letter; n];
                words.push((wl.clone(), case_variants(&wl, false)));
                let mut w2 = vec!['a'];
                w2.extend(wl.iter());
                words.push((w2.clone(), vec![w2.iter().collect()]));
            }
        }
        let (pats, words) = (&pats, &words);
        ctx.family("long-patterns-multibyte", &format!("{} patterns x^L for x in é, ḁ, 𝐚 and L in 15,16,17,32 with a digit in slot 0, 1, L-1 or L, anchors x words x^n and a x^n for n in 1,14..18,31..34,40 in lower, upper and alternating case", pats.len()), pats.len() as u64, |i, acc| {
            let cfg = Config { patterns: vec![pats[i as usize].clone()], mixed: true, ..Default::default() };
            acc.count("long_pattern_over_a_multibyte_letter");
            check_config(i, &cfg, words, acc);
        });
    }

    // F11: the list API: `insert_exceptions` is documented as "separate words separated by whitespace"
    {
        let seps: Vec<(&str, &str, &str)> = vec![("", " ", ""), ("", "  ", ""), ("", "\t", ""), ("", "\n", ""), ("", "\r\n", ""), ("", " \n ", ""), (" ", " ", " "), ("\n", "\n", "\n"), (" \t", "\t", "\n")];
        let two: Vec<String> = exception_menu(2, 3).into_iter().filter(|e| !e.starts_with('-') && !e.ends_with('-')).collect();
        let three: Vec<String> = exception_menu(2, 2).into_iter().filter(|e| !e.starts_with('-') && !e.ends_with('-')).collect();
        // with no pattern nothing is hyphenated, with a1 b1 every position is: every entry differs from one of them
        let psets: Vec<Vec<String>> = vec![vec![], vec!["a1".into(), "b1".into()]];
        let (n2, n3, ns, np) = (two.len() as u64, three.len() as u64, seps.len() as u64, psets.len() as u64);
        let total = (n2 * n2 + n3 * n3 * n3) * ns * np;
        let (two, three, seps, psets) = (&two, &three, &seps, &psets);
        ctx.family("exception-list-separators", &format!("every ordered pair of the {n2} exception entries of length 2..3 and every ordered triple of the {n3} entries of length 2, given to insert_exceptions as one string joined by each of {ns} separators (blank, two blanks, tab, newline, CR LF, blank-newline-blank, and blank / newline / tab with leading and trailing white space) x pattern sets {{none, a1 b1}} x every listed word in every case and its neighbours"), total, |idx, acc| {
            let d = vcore::digits(idx, &[n2 * n2 + n3 * n3 * n3, ns, np]);
            let entries: Vec<String> = if d[0] < n2 * n2 {
                vec![two[(d[0] / n2) as usize].clone(), two[(d[0] % n2) as usize].clone()]
            } else {
                let t = d[0] - n2 * n2;
                vec![three[(t / (n3 * n3)) as usize].clone(), three[(t / n3 % n3) as usize].clone(), three[(t % n3) as usize].clone()]
            };
            let (lead, sep, trail) = seps[d[1] as usize];
            if !sep.contains('\n') {
                acc.count("exception_list_separated_by_space_or_tab");
            }
            let mut words: Vec<(Vec<char>, Vec<String>)> = vec![];
            for e in &entries {
                for w in words_around(e) {
                    if !words.iter().any(|x| x.0 == w.0) {
                        words.push(w);
                    }
                }
            }
            let cfg = Config { patterns: psets[d[2] as usize].clone(), exceptions: entries, exceptions_first: false, mixed: false, list_api: Some((lead.to_string(), sep.to_string(), trail.to_string())), skew: false };
            check_config(idx, &cfg, &words, acc);
        });
    }

    // F12: letters that are not Unicode-alphabetic (a letter is whatever the LowerCaser accepts)
    {
        let nonalpha = |t: &str| t.chars().any(|c| !c.is_alphabetic() && !c.is_ascii_digit() && c != '.' && c != '-');
        let five = ['a', SYMBOL_LETTERS[0], SYMBOL_LETTERS[1], SYMBOL_LETTERS[2], SYMBOL_LETTERS[3]];
        let u = pattern_universe_over(&five, 2, &pair_menu);
        let mut wl5 = five.to_vec();
        wl5.push(SYMBOL_LETTERS[4]);
        let words = words_over(&wl5, 3);
        let nw: usize = words.iter().map(|w| w.1.len()).sum();
        let (u, words) = (&u, &words);
        ctx.family("symbol-single-pattern", &format!("each of the {} patterns with 1..2 letters over {{a, ', U+2019, U+200D, @}} (letters that are not Unicode-alphabetic, mapped to themselves by the harness LowerCaser), anchors, digits {{none,1,2,9}} x all {} words of length 1..3 over these letters, U+1F600 and A", u.len(), nw), u.len() as u64, |i, acc| {
            let cfg = Config { patterns: vec![u[i as usize].clone()], mixed: true, ..Default::default() };
            if nonalpha(&cfg.patterns[0]) {
                acc.count("pattern_with_non_alphabetic_letter");
            }
            check_config(i, &cfg, words, acc);
        });
        let three = ['a', SYMBOL_LETTERS[0], SYMBOL_LETTERS[2]];
        let up = pattern_universe_over(&three, 2, &[NONE, Some(1)]);
        let pwords = words_over(&three, 3);
        let k = up.len() as u64;
        let (up, pwords) = (&up, &pwords);
        ctx.family("symbol-pattern-pairs", &format!("every unordered pair from the {k} patterns with 1..2 letters over {{a, ', U+200D}}, anchors, digits {{none,1}} (index space {k}^2) x all words of length 1..3 over these letters"), k * k, |idx, acc| {
            let (i, j) = (idx / k, idx % k);
            if j <= i {
                return;
            }
            let cfg = Config { patterns: vec![up[i as usize].clone(), up[j as usize].clone()], mixed: true, ..Default::default() };
            if cfg.patterns.iter().any(|p| nonalpha(p)) {
                acc.count("pattern_with_non_alphabetic_letter");
            }
            check_config(idx, &cfg, pwords, acc);
        });
        let mut ue = vec![String::new()];
        ue.extend(pattern_universe_over(&['a', SYMBOL_LETTERS[0], SYMBOL_LETTERS[1]], 2, &[NONE, Some(1), Some(9)]));
        let mut ex = exception_menu_over(&five, 2, 2);
        ex.extend(exception_menu_over(&three, 3, 3));
        ex.extend(exception_menu_over(&[SYMBOL_LETTERS[4], 'a'], 2, 2));
        let around: Vec<Vec<(Vec<char>, Vec<String>)>> = ex.iter().map(|e| words_around(e)).collect();
        let (nu, ne) = (ue.len() as u64, ex.len() as u64);
        let (ue, ex, around) = (&ue, &ex, &around);
        ctx.family("symbol-exception-vs-pattern", &format!("(no pattern or one of the {} patterns with 1..2 letters over {{a, ', U+2019}}, digits {{none,1,9}}) x one of the {ne} exception entries (length 2 over {{a, ', U+2019, U+200D, @}} and {{U+1F600, a}}, length 3 over {{a, ', U+200D}}, every hyphen placement, so every such letter stands next to a hyphen) x the entry's word and its neighbours", nu - 1), nu * ne, |idx, acc| {
            let (pi, ei) = ((idx / ne) as usize, (idx % ne) as usize);
            let cfg = Config { patterns: if ue[pi].is_empty() { vec![] } else { vec![ue[pi].clone()] }, exceptions: vec![ex[ei].clone()], exceptions_first: false, mixed: true, list_api: None, skew: false };
            if nonalpha(&ue[pi]) {
                acc.count("pattern_with_non_alphabetic_letter");
            }
            if nonalpha(&ex[ei]) {
                acc.count("exception_with_non_alphabetic_letter");
            }
            check_config(idx, &cfg, &around[ei], acc);
        });
    }

    ctx.require("pattern_with_non_alphabetic_letter", "a pattern with a letter that Unicode does not class as alphabetic (apostrophe, U+2019, U+200D, @)");
    ctx.require("exception_with_non_alphabetic_letter", "an exception entry with such a letter, also directly next to a hyphen");
    // F13: state carried between operations: every short history on one hyphenator
    {
        let k = HIST_OPS.len() as u64;
        let depth = ctx.pick(5u32, 6u32);
        let n = vcore::strings_upto(k, depth);
        ctx.family("hyphenator-histories", &format!("every sequence of at most {depth} operations over {{{}}} on ONE Hyphenator; a sequence that ends in a query is judged against the model rebuilt from scratch from (patterns loaded so far, exception entries in order of declaration)", HIST_OPS.join(", ")), n, |idx, acc| {
            let ops = vcore::nth_string(k, idx);
            check_history(idx, &ops, acc);
            if idx % 9973 == 77 {
                acc.sample(idx, || json!({"history": ops.iter().map(|o| HIST_OPS[*o as usize]).collect::<Vec<_>>()}));
            }
        });
    }

    // F14: a lower-case map that is not the identity on a..z (a, A, b, B -> b; c is not a letter)
    {
        // words: every spelling of length 1..4 over {a, b, A, B}; all of them lower-case to b^n
        let mut words: Vec<(Vec<char>, Vec<String>)> = vec![];
        for len in 1..=4usize {
            let spellings: Vec<String> = (0..4u64.pow(len as u32)).map(|i| vcore::digits(i, &vec![4; len]).iter().map(|d| ['a', 'b', 'A', 'B'][*d as usize]).collect()).collect();
            words.push((vec!['b'; len], spellings));
        }
        let u = pattern_universe_over(&['b'], 3, &design_menu);
        let (u_r, words_r) = (&u, &words);
        ctx.family("skew-single-pattern", &format!("each of the {} patterns with 1..3 letters b, anchors, digits {{none,1,2,3,8,9}} x every spelling of length 1..4 over {{a, b, A, B}}, looked up with a LowerCaser that maps a, A, b, B to b and knows no other letter", u.len()), u.len() as u64, |i, acc| {
            let cfg = Config { patterns: vec![u_r[i as usize].clone()], skew: true, ..Default::default() };
            acc.count("lowercaser_not_identity_on_ascii_lowercase");
            check_config(i, &cfg, words_r, acc);
        });
        let mut ue = vec![String::new()];
        ue.extend(pattern_universe_over(&['b'], 2, &design_menu));
        let ex = exception_menu_over(&['b'], 2, 4);
        let (nu, ne) = (ue.len() as u64, ex.len() as u64);
        let (ue, ex) = (&ue, &ex);
        ctx.family("skew-exception-vs-pattern", &format!("(no pattern or one of the {} patterns with 1..2 letters b) x one of the {ne} exception entries b..b of length 2..4 with every hyphen placement x every spelling of length 1..4 over {{a, b, A, B}} under the same LowerCaser", nu - 1), nu * ne, |idx, acc| {
            let (pi, ei) = ((idx / ne) as usize, (idx % ne) as usize);
            let cfg = Config { patterns: if ue[pi].is_empty() { vec![] } else { vec![ue[pi].clone()] }, exceptions: vec![ex[ei].clone()], skew: true, ..Default::default() };
            acc.count("lowercaser_not_identity_on_ascii_lowercase");
            check_config(idx, &cfg, words_r, acc);
        });
    }

    ctx.require("lowercaser_not_identity_on_ascii_lowercase", "words are looked up with a LowerCaser that maps a to b and does not know c");
    ctx.require("query_repeated_after_insert_exception_for_its_word_in_other_case", "a spelling with upper-case letters is asked, then an exception for its lower-cased word is inserted, then the same spelling is asked again");
    ctx.require("query_repeated_after_load_patterns", "a word is asked, then patterns are loaded, then the same word is asked again");
    ctx.require("exception_redeclared", "the same word inserted twice with different positions (every ordered pair of entries, so both orders): the later one must win");
    ctx.require("exception_longer_than_every_pattern_plus_1", "an exception word with more letters than the longest loaded pattern plus one");
    ctx.require("exception_list_separated_by_space_or_tab", "an exception list whose entries are separated by blanks or tabs only goes through insert_exceptions");
    ctx.require("exception_against_pattern_digit_6_or_7", "an exception entry meets a pattern digit equal to the scores 6/7 under which exceptions are stored");
    ctx.require("empty_word_looked_up", "the empty word is looked up");
    ctx.require("lookup_with_nothing_loaded", "a hyphenator without any pattern or exception is asked");
    ctx.require("long_pattern_over_a_multibyte_letter", "the 16-zero run encoding is exercised with letters of 2, 3 and 4 bytes");
    ctx.require("hypthenate_string_route_checked", "Hyphenator::hypthenate is compared with the positions");
    ctx.require("pattern_starts_after_a_multibyte_letter", "a pattern not anchored at the start matches after a multi-byte letter and scores an interior slot");
    ctx.require("two_patterns_score_same_slot", "two patterns put a non-zero digit on the same slot of the word (the maximum decides)");
    ctx.require("even_digit_inhibits_odd", "an even maximum suppresses an odd digit of another pattern (or alignment)");
    ctx.require("anchored_pattern_matches", "a pattern anchored with '.' matches at the word edge");
    ctx.require("anchor_rejects_inner_occurrence", "the letters of an anchored pattern occur in the word but not at the anchored edge");
    ctx.require("prefix_sharing_patterns_both_match", "two patterns, one's letter string a prefix of the other's, both match the word (shared trie path)");
    ctx.require("exception_contradicts_patterns", "an exception word whose listed hyphens differ from what the patterns alone give");
    ctx.require("exception_word_with_pattern_digit_gt6", "an exception word matched by a pattern digit above 6 (the D11 class)");
    ctx.require("same_word_entered_twice", "the same word entered twice in the exception list with different hyphens");
    ctx.require("upper_case_word_nontrivial", "a word with upper-case letters that has a matching pattern or exception");
    ctx.require("pattern_with_16_or_more_zero_slots_in_a_row", "a pattern whose op stream needs the 16-zero run byte");
    ctx.require("skipped_duplicate_pattern", "pattern sets with a duplicate letter string were met and skipped");
    ctx.finish("one evaluation = one calculate_indices lookup of one word under one (patterns, exceptions) configuration, compared with matching by definition; non-trivial = some pattern puts a non-zero digit on an interior slot of the word, or the word is in the exception list");
}

fn long_pattern(l: usize, anchors: u32, digits: &[(usize, char)]) -> String {
    let mut p = String::new();
    if anchors & 1 == 1 {
        p.push('.');
    }
    for i in 0..=l {
        if let Some((_, d)) = digits.iter().find(|(s, _)| *s == i) {
            p.push(*d);
        }
        if i < l {
            p.push('a');
        }
    }
    if anchors & 2 == 2 {
        p.push('.');
    }
    p
}

thread_local! {
    static PLAIN_REAL: std::cell::RefCell<Option<Hyphenator>> = const { std::cell::RefCell::new(None) };
}

/// Lookups under plain TeX's patterns; the real hyphenator is built once per thread.
fn check_plain(idx0: u64, plain: &Liang, patterns: &str, exceptions: &str, words: &[(Vec<char>, Vec<String>)], acc: &mut Acc) {
    let lc = AsciiLowerCaser::default();
    PLAIN_REAL.with(|cell| {
        let mut slot = cell.borrow_mut();
        if slot.is_none() {
            // the crate's own constructor (its include_str! files are the files of the tree the harness is
            // built against, which the model reads from VERIF_REPO)
            let _ = (patterns, exceptions);
            *slot = Some(Hyphenator::plain_tex_en_us());
        }
        let real = slot.as_ref().unwrap();
        for (k, (wl, variants)) in words.iter().enumerate() {
            let idx = idx0 + k as u64;
            let n = wl.len();
            let hyf = plain.hyf(wl);
            let want: Vec<usize> = (1..n).filter(|j| hyf[*j] % 2 == 1).collect();
            let ps = plain.pattern_scores(wl);
            let exc = plain.exception_for(wl);
            let mut d11 = None;
            if let Some(e) = exc {
                acc.count("plain_tex_exception_word");
                if (0..=n).any(|j| if e.positions.contains(&j) { ps[j] > 7 } else { ps[j] > 6 }) {
                    let mut adj = plain.clone();
                    adj.exceptions_as_patterns = true;
                    let h = adj.hyf(wl);
                    d11 = Some((1..n).filter(|j| h[*j] % 2 == 1).collect::<Vec<usize>>());
                }
            }
            for w in variants {
                acc.eval();
                if (1..n).any(|j| ps[j] != 0) || exc.is_some() {
                    acc.nontrivial();
                }
                acc.class(&format!("plain n={} hyphens={}", n.min(12), want.len()));
                let case = || json!({"kind": "plain", "word": w, "reproduce": format!("hyphenate::Hyphenator::plain_tex_en_us().calculate_indices(&hyphenate::AsciiLowerCaser::default(), {w:?})")});
                match catch(|| real.calculate_indices(&lc, w).collect::<Vec<usize>>()) {
                    Err(p) => acc.fail(idx, case(), format!("{want:?}"), p.describe(), "calculate_indices panicked"),
                    Ok(got) => {
                        let got = as_set(got, acc);
                        if got == want {
                            // the string route of the public API: Hyphenator::hypthenate
                            let mut rendered = String::new();
                            for (i, c) in w.chars().enumerate() {
                                if want.contains(&i) {
                                    rendered.push('-');
                                }
                                rendered.push(c);
                            }
                            let out = catch(|| {
                                let mut o = String::new();
                                real.hypthenate(&lc, w, &mut o);
                                o
                            });
                            acc.count("hypthenate_string_route_checked");
                            match out {
                                Ok(o) if o == rendered => {}
                                Ok(o) => acc.fail(idx, case(), rendered, o, "Hyphenator::hypthenate does not put the hyphens at the positions of calculate_indices"),
                                Err(p) => acc.fail(idx, case(), rendered, p.describe(), "Hyphenator::hypthenate panicked"),
                            }
                        }
                        if got != want {
                            if d11.as_ref() == Some(&got) {
                                acc.known("D11", idx, || json!({"case": case(), "model": want, "observed": got}));
                            } else {
                                acc.fail(idx, case(), format!("{want:?}"), format!("{got:?}"), "positions differ from Liang's definition under plain TeX's patterns");
                            }
                        }
                    }
                }
            }
            if k == 0 {
                acc.sample(idx, || json!({"plain_word": wl.iter().collect::<String>(), "positions": want}));
            }
        }
    });
}
