//! C13 — not built yet.
fn main() {
    eprintln!("c13: check not built yet");
    std::process::exit(2);
}
