//! C02 — not built yet.
fn main() {
    eprintln!("c02: check not built yet");
    std::process::exit(2);
}
