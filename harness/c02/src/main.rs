//! C02 — macro parameters bind and substitute exactly as in TeX. DESIGN.md §3 C02.
//! Engine: BEX. Subject: `texmacro::Macro::call`, `def.rs` (parameter/replacement text parsing), the KMP
//! delimiter matcher. Oracles: `reftex::macros::macro_call` (tex.web §389-400 transliterated) and
//! `reftex::macros::spec_call` (The TeXbook ch. 20 rules, declarative); both must agree on every case.
//!
//! Observation: `\xa\capture\m <call>\relax Z\END` – one `\expandafter` step performs exactly the macro
//! call, `\capture` then records expansion + untouched rest verbatim (with category codes).

mod mini;

use mini::*;
use reftex::macros::{self as mm, MacroDef, Tok};
use serde_json::{json, Value};
use std::sync::atomic::{AtomicU64, Ordering};
use std::sync::Mutex;
use vcore::{Acc, Ctx, Level};

// ---------------------------------------------------------------- tokens

const A: Tok = Tok::Ch('a', 11);
const B: Tok = Tok::Ch('b', 11);
const Z: Tok = Tok::Ch('Z', 11);
const DOT: Tok = Tok::Ch('.', 12);
const LB: Tok = Tok::Ch('{', 1);
const RB: Tok = Tok::Ch('}', 2);
const SP: Tok = Tok::Ch(' ', 10);
const HASH: Tok = Tok::Ch('#', 6);
const X: Tok = Tok::Cs("x");
const LBR: Tok = Tok::Ch('[', 12);
const RBR: Tok = Tok::Ch(']', 12);
const RELAX: Tok = Tok::Cs("relax");
const END: Tok = Tok::Cs("END");
const CALL_ALPHA: [Tok; 7] = [A, B, DOT, LB, RB, SP, X];

// ---------------------------------------------------------------- definitions

#[derive(Clone, Copy, PartialEq, Eq, Debug)]
enum Kind {
    Def,
    Gdef,
    /// `{\gdef\m..}` – defined inside a group, called outside
    GroupGdef,
    GlobalDef,
    /// `\def\m#1#2#3{wrong}` first, then the real definition: the same name defined twice
    Redefined,
    /// the real definition, then `{\def\m{wrong}}`: a local redefinition that has ended
    GroupShadow,
    GlobalGdef,
    GlobalGlobalDef,
    LongDef,
    GlobalLongDef,
    LongGlobalDef,
    OuterLongGlobalDef,
    LongOuterGdef,
    /// the macro is the active character `~` instead of `\m`
    ActiveName,
}
const ALL_KINDS: [Kind; 14] = [Kind::Def, Kind::Gdef, Kind::GroupGdef, Kind::GlobalDef, Kind::Redefined, Kind::GroupShadow, Kind::GlobalGdef, Kind::GlobalGlobalDef, Kind::LongDef, Kind::GlobalLongDef, Kind::LongGlobalDef, Kind::OuterLongGlobalDef, Kind::LongOuterGdef, Kind::ActiveName];
impl Kind {
    fn name(self) -> &'static str {
        match self {
            Kind::Def => "def",
            Kind::Gdef => "gdef",
            Kind::GroupGdef => "group-gdef",
            Kind::GlobalDef => "global-def",
            Kind::Redefined => "redefined",
            Kind::GroupShadow => "group-shadow",
            Kind::GlobalGdef => "global-gdef",
            Kind::GlobalGlobalDef => "global-global-def",
            Kind::LongDef => "long-def",
            Kind::GlobalLongDef => "global-long-def",
            Kind::LongGlobalDef => "long-global-def",
            Kind::OuterLongGlobalDef => "outer-long-global-def",
            Kind::LongOuterGdef => "long-outer-gdef",
            Kind::ActiveName => "active-name",
        }
    }
    fn parse(s: &str) -> Kind {
        ALL_KINDS.iter().copied().find(|k| k.name() == s).unwrap_or(Kind::Def)
    }
    /// source text of the definition, given the text that follows the macro's name
    fn head(self, text: &str) -> String {
        match self {
            Kind::Def => format!("\\def\\m{text}"),
            Kind::Gdef => format!("\\gdef\\m{text}"),
            Kind::GroupGdef => format!("{{\\gdef\\m{text}}}"),
            Kind::GlobalDef => format!("\\global\\def\\m{text}"),
            Kind::Redefined => format!("\\def\\m#1#2#3{{wrong}}\\def\\m{text}"),
            Kind::GroupShadow => format!("\\def\\m{text}{{\\def\\m{{wrong}}}}"),
            Kind::GlobalGdef => format!("\\global\\gdef\\m{text}"),
            Kind::GlobalGlobalDef => format!("\\global\\global\\def\\m{text}"),
            Kind::LongDef => format!("\\long\\def\\m{text}"),
            Kind::GlobalLongDef => format!("\\global\\long\\def\\m{text}"),
            Kind::LongGlobalDef => format!("\\long\\global\\def\\m{text}"),
            Kind::OuterLongGlobalDef => format!("\\outer\\long\\global\\def\\m{text}"),
            Kind::LongOuterGdef => format!("\\long\\outer\\gdef\\m{text}"),
            Kind::ActiveName => format!("\\def~{text}"),
        }
    }
    fn macro_tok(self) -> Tok {
        if self == Kind::ActiveName {
            Tok::Ch('~', 13)
        } else {
            Tok::Cs("m")
        }
    }
}

/// How the call is made and observed.
#[derive(Clone, Copy, PartialEq, Eq, Debug)]
enum Route {
    /// `\xa\capture\m<call>\relax Z\END`: one step of `expand_once`, the result captured verbatim
    Capture,
    /// the same after a call of another macro (`\def\w#1#2.{}\w{xx}{yy}zz.`): the argument buffer is a reused one
    Warmup,
    /// the replacement text starts with `\n` (`\def\n[#1]{<#1>}`) and two expansion steps are observed
    Nested,
    /// `\m<call>\relax Z\END` executed by the main loop: the call is made by `next_expanded`, the result
    /// reaches the character handler (braces become groups and are not seen)
    MainLoop,
    /// `\xa\capture\m<call>` at the very end of the input (no sentinel)
    Eof,
    /// as Capture, with `\def\b{Y}` in force and the conditional / `\noexpand` primitives installed: the call
    /// contains expandable tokens, which must be absorbed as written
    Expandable,
}
impl Route {
    fn name(self) -> &'static str {
        match self {
            Route::Capture => "capture",
            Route::Warmup => "warmup",
            Route::Nested => "nested",
            Route::MainLoop => "main-loop",
            Route::Eof => "end-of-input",
            Route::Expandable => "expandable-tokens",
        }
    }
    fn parse(s: &str) -> Route {
        [Route::Capture, Route::Warmup, Route::Nested, Route::MainLoop, Route::Eof, Route::Expandable].into_iter().find(|r| r.name() == s).unwrap_or(Route::Capture)
    }
}
const WARMUP: &str = "\\def\\w#1#2.{}\\w{xx}{yy}zz.";
const NESTED_DEF: &str = "\\def\\n[#1]{<#1>}";

#[derive(Clone, Copy, Debug, PartialEq)]
enum Piece {
    T(Tok),
    /// `#i`
    P(u8),
    /// `##`
    HH,
}

#[derive(Clone, Debug)]
struct DefSpec {
    kind: Kind,
    prefix: Vec<Tok>,
    /// None = undelimited, Some(d) = delimited by d (without the brace of the `#{` form)
    params: Vec<Option<Vec<Tok>>>,
    /// the parameter text ends with `#{`
    hash: bool,
    body: Vec<Piece>,
}

impl DefSpec {
    /// the tokens that follow `\def\m` in the source
    fn def_tokens(&self) -> Vec<Tok> {
        let mut v = self.prefix.clone();
        for (i, p) in self.params.iter().enumerate() {
            v.push(HASH);
            v.push(Tok::Ch((b'1' + i as u8) as char, 12));
            if let Some(d) = p {
                v.extend_from_slice(d);
            }
        }
        if self.hash {
            v.push(HASH);
        }
        v.push(LB);
        for p in &self.body {
            match p {
                Piece::T(t) => v.push(*t),
                Piece::P(i) => {
                    v.push(HASH);
                    v.push(Tok::Ch((b'0' + *i) as char, 12));
                }
                Piece::HH => {
                    v.push(HASH);
                    v.push(HASH);
                }
            }
        }
        v.push(RB);
        v
    }
    /// prefix and parameter kinds as the declarative model wants them (`#{` brace folded in)
    fn effective(&self) -> (Vec<Tok>, Vec<Option<Vec<Tok>>>) {
        let mut prefix = self.prefix.clone();
        let mut params = self.params.clone();
        if self.hash {
            match params.last_mut() {
                None => prefix.push(LB),
                Some(Some(d)) => d.push(LB),
                Some(p @ None) => *p = Some(vec![LB]),
            }
        }
        (prefix, params)
    }
    fn json(&self) -> Value {
        json!({
            "kind": self.kind.name(),
            "prefix": toks_json(&self.prefix),
            "params": self.params.iter().map(|p| p.as_ref().map(|d| toks_json(d)).unwrap_or(Value::Null)).collect::<Vec<_>>(),
            "hash_brace": self.hash,
            "body": self.body.iter().map(|p| match p { Piece::T(t) => tok_json(*t), Piece::P(i) => format!("#{i}"), Piece::HH => "##".into() }).collect::<Vec<_>>(),
        })
    }
    fn from_json(v: &Value) -> DefSpec {
        DefSpec {
            kind: Kind::parse(v["kind"].as_str().unwrap_or("def")),
            prefix: toks_parse(&v["prefix"]),
            params: v["params"].as_array().map(|a| a.iter().map(|p| if p.is_null() { None } else { Some(toks_parse(p)) }).collect()).unwrap_or_default(),
            hash: v["hash_brace"].as_bool().unwrap_or(false),
            body: v["body"]
                .as_array()
                .map(|a| {
                    a.iter()
                        .map(|p| {
                            let s = p.as_str().unwrap_or("");
                            if s == "##" {
                                Piece::HH
                            } else if s.len() == 2 && s.starts_with('#') {
                                Piece::P(s.as_bytes()[1] - b'0')
                            } else {
                                Piece::T(tok_parse(s))
                            }
                        })
                        .collect()
                })
                .unwrap_or_default(),
        }
    }
}

/// `[#1][#2]..[#n]` (`[]` for n = 0): every argument is visible and delimited by tokens outside the call alphabet.
fn revealing_body(n: usize) -> Vec<Piece> {
    if n == 0 {
        return vec![Piece::T(LBR), Piece::T(RBR)];
    }
    let mut v = vec![];
    for i in 1..=n {
        v.push(Piece::T(LBR));
        v.push(Piece::P(i as u8));
        v.push(Piece::T(RBR));
    }
    v
}

/// Everything that is computed once per definition.
struct DefCtx {
    spec: DefSpec,
    model: MacroDef,
    /// source text of the definition (with `\def\m` etc.)
    head: String,
    eff_prefix: Vec<Tok>,
    eff_params: Vec<Option<Vec<Tok>>>,
    json: Value,
}

fn def_ctx(spec: DefSpec) -> Result<DefCtx, String> {
    let toks = spec.def_tokens();
    let (model, used) = mm::scan_def(&toks).map_err(|e| format!("model rejects the definition {}: {e:?}", mm::show(&toks)))?;
    if used != toks.len() {
        return Err(format!("model stops early in the definition {}", mm::show(&toks)));
    }
    let text = render(&toks, true).ok_or_else(|| format!("definition {} cannot be written as source text", mm::show(&toks)))?;
    let head = spec.kind.head(&if spec.kind == Kind::ActiveName { render(&toks, false).unwrap_or_default() } else { text });
    let (eff_prefix, eff_params) = spec.effective();
    let json = spec.json();
    Ok(DefCtx { spec, model, head, eff_prefix, eff_params, json })
}

// ---------------------------------------------------------------- one case

static MODEL_DISAGREE: AtomicU64 = AtomicU64::new(0);
/// replay mode prints what the oracle and the implementation said
static SHOW: AtomicU64 = AtomicU64::new(0);
static MODEL_DISAGREE_MSG: Mutex<Vec<String>> = Mutex::new(Vec::new());

fn model_disagreement(msg: String) {
    if MODEL_DISAGREE.fetch_add(1, Ordering::Relaxed) < 5 {
        MODEL_DISAGREE_MSG.lock().unwrap().push(msg);
    }
}

/// What the two models say about a call. `Ok((call, expected observation))` when the call is in the
/// property's domain (for the given route).
fn oracle(d: &DefCtx, call: &[Tok], route: Route) -> (Vec<Tok>, Result<(mm::Call, Vec<Tok>), String>) {
    let mut full: Vec<Tok> = Vec::with_capacity(call.len() + 3);
    full.extend_from_slice(call);
    if route == Route::Eof {
        // the end of the (only) line: TeX appends the end-of-line character, which becomes a space token
        // unless the scanner is skipping blanks (after a control word or a space) – §343-§348
        match call.last() {
            None | Some(Tok::Cs(_)) | Some(Tok::Ch(' ', 10)) => {}
            Some(_) => full.push(SP),
        }
    } else {
        full.extend_from_slice(&[RELAX, Z, END]);
    }
    let tr = mm::macro_call(&d.model, &full, false);
    let sp = mm::spec_call(&d.eff_prefix, &d.eff_params, &full);
    match (&tr, &sp) {
        (Ok(c), Some((args, used))) if c.args == *args && c.consumed == *used => {}
        (Err(_), None) => {}
        _ => model_disagreement(format!("def {} call {}: transliteration {:?} / declarative {:?}", d.head, mm::show(call), tr.as_ref().map(|c| (&c.args, c.consumed)), sp)),
    }
    let r = match tr {
        Err(e) => Err(format!("{e:?}")),
        Ok(c) => {
            if route == Route::Eof {
                let mut want = c.expansion.clone();
                want.extend_from_slice(&full[c.consumed..]);
                want.push(Tok::Cs("<eof>"));
                Ok((c, want))
            } else if c.consumed > call.len() + 2 {
                Err("MatchSwallowsEND".to_string())
            } else {
                let mut want = c.expansion.clone();
                want.extend_from_slice(&full[c.consumed..full.len() - 1]);
                match route {
                    Route::Nested => {
                        // second step: \n[#1]{<#1>} applied to what the first step left
                        let ndef = mm::scan_def(&lex("[#1]{<#1>}")).expect("nested definition").0;
                        want.push(END);
                        if want.first() != Some(&Tok::Cs("n")) {
                            Err("NestedBodyDoesNotStartWithN".into())
                        } else {
                            match mm::macro_call(&ndef, &want[1..], false) {
                                Err(e) => Err(format!("second call: {e:?}")),
                                Ok(c2) if 1 + c2.consumed >= want.len() => {
                                    let _ = c2;
                                    Err("second call swallows END".into())
                                }
                                Ok(c2) => {
                                    let mut w2 = c2.expansion.clone();
                                    w2.extend_from_slice(&want[1 + c2.consumed..want.len() - 1]);
                                    Ok((c, w2))
                                }
                            }
                        }
                    }
                    Route::MainLoop => {
                        // what reaches the handlers: everything but the braces, provided they nest
                        want.push(END);
                        let mut depth = 0i64;
                        let mut ok = true;
                        let mut seen: Vec<Tok> = vec![];
                        for t in &want {
                            if t.is_left_brace() {
                                depth += 1;
                            } else if t.is_right_brace() {
                                depth -= 1;
                                if depth < 0 {
                                    ok = false;
                                    break;
                                }
                            } else {
                                seen.push(*t);
                            }
                        }
                        if ok {
                            Ok((c, seen))
                        } else {
                            Err("ResultHasUnmatchedRightBrace".into())
                        }
                    }
                    _ => Ok((c, want)),
                }
            }
        }
    };
    (full, r)
}

/// In the end-of-input route `full` = call (+ the space token that the end of the line turns into); only the call is written.
/// The space was appended by `oracle` exactly when the call ends with a token other than a control sequence or a space.
fn eof_written_len(full: &[Tok]) -> usize {
    if full.len() >= 2 && full[full.len() - 1] == SP && !matches!(full[full.len() - 2], Tok::Cs(_) | Tok::Ch(' ', 10)) {
        full.len() - 1
    } else {
        full.len()
    }
}

fn run_case(d: &DefCtx, full: &[Tok], full_state: bool, route: Route) -> Option<(Outcome, String, &'static str)> {
    let mtok = d.spec.kind.macro_tok();
    let pre = match route {
        Route::Warmup => WARMUP,
        Route::Nested => NESTED_DEF,
        Route::Expandable => "\\def\\b{Y}",
        _ => "",
    };
    let lead: &[Tok] = match route {
        Route::Nested => &[Tok::Cs("capturetwo")],
        Route::MainLoop => &[],
        _ => &[Tok::Cs("xa"), Tok::Cs("capture")],
    };
    // what the lexer has to produce after the definition; the end-of-line space of the Eof route is not written
    let mut stream: Vec<Tok> = lead.to_vec();
    stream.push(mtok);
    let written: &[Tok] = if route == Route::Eof { &full[..eof_written_len(full)] } else { full };
    stream.extend_from_slice(written);
    // through the lexer when the token string can be written as text, through \inject otherwise
    let (src, injected, mode): (String, Vec<Tok>, &'static str) = match render(&stream, false) {
        Some(t) => (format!("{pre}{}{}", d.head, t), vec![], "text"),
        None if route == Route::Eof => return None,
        None => (format!("{pre}{}\\inject", d.head), stream.clone(), "inject"),
    };
    let out = if full_state {
        run_full(&src, &injected, false)
    } else if route == Route::Expandable {
        run_m(&src, &injected, false) // all built-ins of the minimal VM: conditionals, \\noexpand
    } else {
        run_m_macro_only(&src, &injected)
    };
    Some((out, src, mode))
}

/// `distinct`: given the model's binding, is this case to be counted among the *distinct* non-trivial
/// cases (false for re-runs and for cases another family or another index already covers).
fn check_case(idx: u64, d: &DefCtx, call: &[Tok], full_state: bool, distinct: &dyn Fn(&mm::Call) -> bool, acc: &mut Acc) {
    check_case_route(idx, d, call, full_state, Route::Capture, distinct, acc)
}
fn check_case_route(idx: u64, d: &DefCtx, call: &[Tok], full_state: bool, route: Route, distinct: &dyn Fn(&mm::Call) -> bool, acc: &mut Acc) {
    acc.eval();
    let (full, want) = oracle(d, call, route);
    let (out, src, mode) = match run_case(d, &full, full_state, route) {
        Some(x) => x,
        None => {
            acc.skipped += 1; // the end-of-input route exists only for calls that can be written as text
            return;
        }
    };
    let case = || json!({"def": d.json, "call": toks_json(call), "full_state": full_state, "route": route.name(), "mode": mode, "program": src, "call_readable": mm::show(call)});
    if SHOW.load(Ordering::Relaxed) > 0 {
        eprintln!("program : {src}\noracle  : {}\nobserved: {}", want.as_ref().map(|w| mm::show(&w.1)).unwrap_or_else(|e| format!("outside the domain ({e})")), out.show());
    }
    acc.count(if mode == "text" { "via_lexer" } else { "via_inject" });
    match want {
        Err(why) => {
            // outside the property's domain: no panic. Whether the implementation reports an error, recovers,
            // and what the error carries is recorded as an outcome class only (the statement is silent on it).
            match &out {
                Outcome::Panic(p) => acc.fail(idx, case(), "no panic (the call does not match: any located error or recovery is acceptable)", p.describe(), format!("panic on a call the oracle classifies as {why}")),
                Outcome::Cutoff => acc.cutoffs += 1,
                Outcome::Done(r) => {
                    if r.err.is_some() && !r.located {
                        acc.count("diag_error_without_position_on_a_non_matching_call");
                    }
                }
            }
            acc.class(&format!("outside domain: oracle={why} impl={}", out.class()));
        }
        Ok((c, want)) => {
            let f = &c.facts;
            if c.args.iter().any(|a| !a.is_empty()) {
                acc.count("matching_calls_with_a_nonempty_argument");
                if distinct(&c) {
                    acc.nontrivial();
                }
            }
            let flags: [(&'static str, bool); 10] = [
                ("several_groups_bound_to_delimited_parameter", f.several_groups_delimited),
                ("delimiter_partially_matched_then_abandoned", f.partial_delimiter_abandoned),
                ("delimiter_restarted_inside_abandoned_match", f.partial_delimiter_restarted),
                ("leading_spaces_skipped_before_undelimited", f.spaces_skipped),
                ("empty_group_argument", f.empty_group_argument),
                ("empty_delimited_argument", f.empty_delimited),
                ("braces_stripped_from_delimited_argument", f.stripped_delimited),
                ("braces_stripped_from_undelimited_argument", f.stripped_undelimited),
                ("brace_to_brace_argument_that_is_not_one_group", f.brace_to_brace_not_single),
                ("hash_brace_form_matched", f.hash_brace),
            ];
            let mut bits = String::with_capacity(10);
            for (name, on) in flags {
                if on {
                    acc.count(name);
                }
                bits.push(if on { '1' } else { '0' });
            }
            acc.count("matching_calls");
            if f.partial_delimiter_restarted_with_2 {
                acc.count("delimiter_restarted_keeping_two_or_more_tokens");
            }
            if call.contains(&Tok::Ch('a', 12)) {
                acc.count("matching_call_with_delimiter_character_of_other_catcode");
            }
            match &out {
                Outcome::Done(r) if r.err.is_none() && r.toks == want => {
                    acc.class(&format!("match ok np={} flags={bits}", c.args.len()));
                }
                Outcome::Cutoff => acc.cutoffs += 1,
                _ => {
                    let args: Vec<String> = c.args.iter().map(|a| mm::show(a)).collect();
                    // diagnostic (not a vacuity counter): does the failing case have the argument shape of defect D3?
                    acc.count(if f.brace_to_brace_not_single { "diag_failing_match_with_a_brace_to_brace_argument_that_is_not_one_group" } else { "diag_failing_match_of_any_other_shape" });
                    acc.class(&format!("match DIFFERS np={} flags={bits} impl={}", c.args.len(), out.class()));
                    acc.fail(idx, case(), mm::show(&want), out.show(), format!("{}: the call matches (TeX binds {args:?}, {} tokens consumed) but the captured expansion + rest differs", if f.brace_to_brace_not_single { "binding differs [an argument {..}..{..} that is not one group]" } else { "binding differs [other shape]" }, c.consumed));
                }
            }
        }
    }
}

// ---------------------------------------------------------------- enumerators

fn delims_full() -> Vec<Option<Vec<Tok>>> {
    vec![None, Some(vec![DOT]), Some(vec![A, B]), Some(vec![A, A]), Some(vec![A, DOT]), Some(vec![X]), Some(vec![SP])]
}
fn delims_small() -> Vec<Option<Vec<Tok>>> {
    vec![None, Some(vec![DOT]), Some(vec![A, B]), Some(vec![A, A])]
}

fn param_lists(kinds: &[Option<Vec<Tok>>], lens: std::ops::RangeInclusive<usize>) -> Vec<Vec<Option<Vec<Tok>>>> {
    let mut out = vec![];
    for n in lens {
        let k = kinds.len() as u64;
        for i in 0..k.pow(n as u32) {
            out.push(vcore::digits(i, &vec![k; n]).into_iter().map(|j| kinds[j as usize].clone()).collect());
        }
    }
    out
}

fn defs_for_strings(three: bool) -> Vec<DefSpec> {
    let mut v = vec![];
    let prefixes = [vec![], vec![A], vec![A, B]];
    let lists = if three { param_lists(&delims_small(), 3..=3) } else { param_lists(&delims_full(), 0..=2) };
    for prefix in &prefixes {
        for params in &lists {
            for hash in [false, true] {
                v.push(DefSpec { kind: Kind::Def, prefix: prefix.clone(), params: params.clone(), hash, body: revealing_body(params.len()) });
            }
        }
    }
    v
}

fn u_shapes() -> Vec<Vec<Tok>> {
    vec![vec![B], vec![LB, B, RB], vec![LB, RB], vec![LB, LB, B, RB, RB], vec![SP, B], vec![SP, SP, LB, B, RB], vec![X], vec![DOT], vec![LB, B, LB, RB, B, RB], vec![A]]
}
fn d_shapes(delim: &[Tok]) -> Vec<Vec<Tok>> {
    let mut hidden = vec![LB];
    hidden.extend_from_slice(delim);
    hidden.push(RB);
    vec![
        vec![],
        vec![B],
        vec![LB, B, RB],
        vec![LB, RB],
        vec![LB, B, RB, LB, B, RB],
        vec![LB, RB, LB, RB],
        vec![LB, LB, B, RB, RB],
        vec![SP, B],
        vec![SP, LB, B, RB],
        vec![LB, B, RB, SP],
        vec![B, LB, B, RB],
        vec![LB, B, RB, B],
        vec![LB, B, RB, B, LB, B, RB],
        vec![A],
        hidden,
        vec![X],
        // the characters of the delimiters with other category codes: different tokens (injected, no source text gives them)
        vec![Tok::Ch('a', 12), Tok::Ch('.', 11), Tok::Ch('b', 12)],
    ]
}

/// A definition together with the argument menus of its parameters (one call per tuple).
struct TupleDef {
    ctx: DefCtx,
    menus: Vec<Vec<Vec<Tok>>>,
    count: u64,
}
fn tuple_def(spec: DefSpec, u_menu: &[Vec<Tok>], d_menu: &dyn Fn(&[Tok]) -> Vec<Vec<Tok>>) -> Result<TupleDef, String> {
    let n = spec.params.len();
    let menus: Vec<Vec<Vec<Tok>>> = spec
        .params
        .iter()
        .enumerate()
        .map(|(i, p)| match p {
            None if spec.hash && i + 1 == n => d_menu(&[]),
            None => u_menu.to_vec(),
            Some(d) => d_menu(d),
        })
        .collect();
    let menus: Vec<Vec<Vec<Tok>>> = menus
        .into_iter()
        .map(|m| {
            let mut seen: Vec<Vec<Tok>> = vec![];
            for x in m {
                if !seen.contains(&x) {
                    seen.push(x);
                }
            }
            seen
        })
        .collect();
    let count = menus.iter().map(|m| m.len() as u64).product::<u64>().max(1);
    Ok(TupleDef { ctx: def_ctx(spec)?, menus, count })
}
fn tuple_call(t: &TupleDef, k: u64) -> (Vec<Tok>, Vec<u64>) {
    let radices: Vec<u64> = t.menus.iter().map(|m| m.len() as u64).collect();
    let digits = vcore::digits(k, &radices);
    let mut call = t.ctx.spec.prefix.clone();
    for (i, p) in t.ctx.spec.params.iter().enumerate() {
        call.extend_from_slice(&t.menus[i][digits[i] as usize]);
        if let Some(d) = p {
            call.extend_from_slice(d);
        }
    }
    if t.ctx.spec.hash {
        call.extend_from_slice(&[LB, B, RB]);
    }
    (call, digits)
}

/// The call was built from one argument shape per parameter. It is counted as a distinct case only if
/// TeX parses it back the way it was built (a token string has one parse, so two tuples that happen to
/// give the same string are counted once at most).
fn parsed_as_constructed(t: &TupleDef, digits: &[u64], c: &mm::Call) -> bool {
    let n = t.ctx.spec.params.len();
    for (i, p) in t.ctx.spec.params.iter().enumerate() {
        let shape = &t.menus[i][digits[i] as usize];
        let undelimited = p.is_none() && !(t.ctx.spec.hash && i + 1 == n);
        let mut s: &[Tok] = shape;
        if undelimited {
            while s.first().map(|x| x.is_space_token()).unwrap_or(false) {
                s = &s[1..];
            }
        }
        if s.len() >= 2 && s[0].is_left_brace() && mm::matching_brace(s, 0) == Some(s.len() - 1) {
            s = &s[1..s.len() - 1];
        }
        if c.args.get(i).map(|a| a.as_slice()) != Some(s) {
            return false;
        }
    }
    true
}

fn body_pieces(np: usize) -> Vec<Vec<Piece>> {
    let mut v = vec![vec![Piece::T(Tok::Ch('x', 11))], vec![Piece::T(X)], vec![Piece::T(SP)], vec![Piece::HH], vec![Piece::T(LB), Piece::T(RB)]];
    for i in 1..=np {
        v.push(vec![Piece::P(i as u8)]);
        v.push(vec![Piece::T(LB), Piece::P(i as u8), Piece::T(RB)]);
    }
    v
}

// ---------------------------------------------------------------- model self-validation

/// The repository's own expectations (crates/texlang-stdlib/src/def.rs, `expansion_equality_tests`),
/// replayed through both models. (test name, definition + call, expected output)
const REPO_CASES: &[(&str, &str, &str)] = &[
    ("one_undelimited_parameter_multiple_tokens", r"\def\A#1{a-#1-b}\A{123}", "a-123-b"),
    ("two_undelimited_parameters", r"\def\A#1#2{#2-#1}\A56", "6-5"),
    ("consume_prefix_correctly", r"\def\A fgh{567}\A fghi", "567i"),
    ("one_undelimited_parameter_with_prefix", r"\def\A abc#1{y#1z}\A abcdefg", "ydzefg"),
    ("one_delimited_parameter", r"\def\A #1xxx{y#1z}\A abcxxx", "yabcz"),
    ("one_delimited_parameter_empty", r"\def\A #1xxx{y#1z}\A xxx", "yz"),
    ("one_delimited_parameter_with_scope", r"\def\A #1xxx{#1}\A abc{123xxx}xxx", "abc{123xxx}"),
    ("two_delimited_parameters_with_prefix", r"\def\A a#1c#2e{x#2y#1z}\A abcdef", "xdybzf"),
    ("one_delimited_parameter_grouped_value", r"\def\A #1c{x#1y}\A {Hello}c", "xHelloy"),
    ("parameter_brace_special_case", r"\def\A #{Mint says }\A{hello}", "Mint says {hello}"),
    ("texbook_exercise_20_5_example_below", r"\def\a#1#{\hbox to #1}\a3pt{x}", r"\hbox to 3pt{x}"),
    ("space_in_undelimited_param_1", r"\def\Hello#1#2{Hello-#1-#2-World}\Hello A B C", "Hello-A-B-World C"),
    ("texbook_exercise_20_3_part_2", r"\def\row#1{(#1_1,\ldots,#1_n)}\row{{\bf x}}", r"({\bf x}_1,\ldots,{\bf x}_n)"),
];

fn self_validate() -> Result<(), String> {
    for (name, src, want) in REPO_CASES {
        let t = lex(src);
        let (def, used) = mm::scan_def(&t[2..]).map_err(|e| format!("{name}: model cannot scan the definition: {e:?}"))?;
        let rest = &t[2 + used..];
        if rest.first() != Some(&t[1]) {
            return Err(format!("{name}: the model's definition ends at the wrong token"));
        }
        let input = &rest[1..];
        let c = mm::macro_call(&def, input, false).map_err(|e| format!("{name}: model says {e:?}"))?;
        let mut got = c.expansion.clone();
        got.extend_from_slice(&input[c.consumed..]);
        if got != lex(want) {
            return Err(format!("{name}: model gives {} but the repository's test expects {}", mm::show(&got), mm::show(&lex(want))));
        }
        // same through the declarative formulation: rebuild prefix / parameters from the scanned definition
        let mut prefix = vec![];
        let mut params: Vec<Option<Vec<Tok>>> = vec![];
        for it in &def.params {
            match it {
                mm::PItem::Tok(x) => match params.last_mut() {
                    None => prefix.push(*x),
                    Some(p) => p.get_or_insert_with(Vec::new).push(*x),
                },
                mm::PItem::Match(_) => params.push(None),
                mm::PItem::EndMatch => {}
            }
        }
        match mm::spec_call(&prefix, &params, input) {
            Some((args, used)) if args == c.args && used == c.consumed => {}
            other => return Err(format!("{name}: declarative model gives {other:?}, transliteration {:?}", (&c.args, c.consumed))),
        }
    }
    // the render/lex pair used to write cases as source text
    for s in ["a b\\x .{}", "\\x a", "#1 #2{[#1]}"] {
        if render(&lex(s), false).map(|r| lex(&r)) != Some(lex(s)) {
            return Err(format!("render/lex round trip fails on {s:?}"));
        }
    }
    Ok(())
}

// ---------------------------------------------------------------- main

fn after_family(ctx: &mut Ctx) {
    let n = MODEL_DISAGREE.swap(0, Ordering::Relaxed);
    if n > 0 {
        let msgs = std::mem::take(&mut *MODEL_DISAGREE_MSG.lock().unwrap());
        ctx.machinery_error(format!("the two reference formulations (§389-400 transliteration / TeXbook ch. 20 rules) disagree on {n} case(s); first: {}", msgs.join(" || ")));
    }
}

fn build_ctxs(specs: Vec<DefSpec>, ctx: &mut Ctx) -> Vec<DefCtx> {
    let mut out = vec![];
    for s in specs {
        match def_ctx(s) {
            Ok(c) => out.push(c),
            Err(e) => ctx.machinery_error(e),
        }
    }
    out
}

fn main() {
    let mut ctx = Ctx::new("C02", Level::Exploration);
    ctx.assume("domain: calls that the oracle says match the definition AND whose match ends before the sentinel `\\relax Z\\END` is exhausted; on every other token string (mismatch, extra }, input ends inside an argument) only 'no panic' is required; what the implementation does instead (error, recovery) is recorded as an outcome class");
    ctx.assume("category codes are plain TeX's; no \\par in arguments, no \\long/\\outer (DESIGN C02 X); the space token is (10,' ')");
    ctx.assume("trusted: reftex::macros (scan_def §473-479, macro_call §389-400) cross-checked on every case against the declarative rules of The TeXbook ch. 20 (spec_call) and validated on 13 expectations copied from the repository's def.rs tests");
    ctx.assume("token strings that no source text can produce (a space token after a space token or after a control word) are put on the input by a harness primitive (\\inject); all others go through the real lexer");
    if let Err(e) = self_validate() {
        ctx.machinery_error(format!("model self-validation failed: {e}"));
        ctx.finish("not run");
    }

    if let Some((_fam, case)) = ctx.replay_case() {
        let mut acc = Acc::default();
        SHOW.store(1, Ordering::Relaxed);
        if case["kind"] == "truncation" {
            acc.eval();
            if let Outcome::Panic(p) = run_m_macro_only(case["program"].as_str().unwrap_or(""), &[]) {
                acc.fail(0, case.clone(), "no panic", p.describe(), "panic on a truncated program");
            }
            ctx.finish_replay(acc);
        }
        match def_ctx(DefSpec::from_json(&case["def"])) {
            Ok(d) => check_case_route(0, &d, &toks_parse(&case["call"]), case["full_state"].as_bool().unwrap_or(false), Route::parse(case["route"].as_str().unwrap_or("capture")), &|_| true, &mut acc),
            Err(e) => {
                eprintln!("replay: {e}");
                std::process::exit(2);
            }
        }
        after_family(&mut ctx);
        ctx.finish_replay(acc);
    }
    let f1_maxlen: usize = ctx.pick(5, 7);

    // F1: every call string over the 7-token alphabet against every parameter text
    for three in [false, true] {
        let specs = defs_for_strings(three);
        let defs = build_ctxs(specs, &mut ctx);
        let maxlen = if three { ctx.pick(5u32, 6u32) } else { f1_maxlen as u32 };
        let ncalls = vcore::strings_upto(7, maxlen);
        let n = defs.len() as u64 * ncalls;
        let dref = &defs;
        ctx.family(
            if three { "calls-all-strings-3-parameters" } else { "calls-all-strings" },
            &format!(
                "{} definitions (prefix in {{-, a, ab}} x {} x with/without the trailing #{{ form; body [#1][#2]..) x every token string of length <= {maxlen} over {{a b . {{ }} space \\x}} ({ncalls} strings, unbalanced ones included), followed by \\relax Z",
                defs.len(),
                if three { "3 parameters each undelimited or delimited by . / ab / aa" } else { "0-2 parameters each undelimited or delimited by . / ab / aa / a. / \\x / space" }
            ),
            n,
            |i, acc| {
                let d = &dref[(i / ncalls) as usize];
                let call: Vec<Tok> = vcore::nth_string(7, i % ncalls).into_iter().map(|j| CALL_ALPHA[j as usize]).collect();
                check_case(i, d, &call, false, &|_| true, acc);
                if i % 1_000_003 == 77 {
                    acc.sample(i, || json!({"program": format!("{}\\xa\\capture\\m<{}>\\relax Z\\END", d.head, mm::show(&call))}));
                }
            },
        );
        after_family(&mut ctx);
    }

    // F1c: long delimiters (borders of length >= 2: the part of the KMP prefix function that 1-2 token delimiters never use)
    {
        let syms = [A, B, DOT];
        let (dmax, cmax) = ctx.pick((4u32, 8u32), (5u32, 10u32));
        let mut specs = vec![];
        for len in 3..=dmax {
            for i in 0..3u64.pow(len) {
                let delim: Vec<Tok> = vcore::digits(i, &vec![3; len as usize]).into_iter().map(|j| syms[j as usize]).collect();
                specs.push(DefSpec { kind: Kind::Def, prefix: vec![], params: vec![Some(delim.clone())], hash: false, body: revealing_body(1) });
                specs.push(DefSpec { kind: Kind::Def, prefix: vec![], params: vec![Some(delim), None], hash: false, body: revealing_body(2) });
            }
        }
        let defs = build_ctxs(specs, &mut ctx);
        let ncalls = vcore::strings_upto(3, cmax);
        let n = defs.len() as u64 * ncalls;
        let dref = &defs;
        ctx.family(
            "long-delimiters",
            &format!("{} definitions (one parameter delimited by every string of length 3..{dmax} over {{a b .}}, alone and followed by an undelimited parameter) x every call string of length <= {cmax} over {{a b .}} ({ncalls} strings), followed by \\relax Z", defs.len()),
            n,
            |i, acc| {
                let d = &dref[(i / ncalls) as usize];
                let call: Vec<Tok> = vcore::nth_string(3, i % ncalls).into_iter().map(|j| syms[j as usize]).collect();
                check_case(i, d, &call, false, &|_| true, acc);
                acc.count("long_delimiter_cases");
                if i % 300_007 == 19 {
                    acc.sample(i, || json!({"program": format!("{}\\xa\\capture\\m<{}>\\relax Z\\END", d.head, mm::show(&call))}));
                }
            },
        );
        after_family(&mut ctx);
    }

    // F1d: other routes to and from the call
    {
        let specs = defs_for_strings(false);
        let mut defs = build_ctxs(specs.clone(), &mut ctx);
        // for the nested route the replacement text starts with \\n
        let nested_specs: Vec<DefSpec> = specs
            .into_iter()
            .map(|mut sp| {
                sp.body.insert(0, Piece::T(Tok::Cs("n")));
                sp
            })
            .collect();
        let ndefs = build_ctxs(nested_specs, &mut ctx);
        let nd = defs.len();
        defs.extend(ndefs);
        let maxlen = ctx.pick(4u32, 5u32);
        let ncalls = vcore::strings_upto(7, maxlen);
        let routes = [Route::Warmup, Route::Nested, Route::MainLoop, Route::Eof];
        let n = nd as u64 * ncalls * routes.len() as u64;
        let dref = &defs;
        ctx.family(
            "call-routes",
            &format!("the {nd} definitions of calls-all-strings x every call string of length <= {maxlen} x 4 routes: after a call of another macro (reused argument buffer); replacement text starting with a second macro, two expansion steps observed; the call made by the main loop (next_expanded) and its result delivered to the character handler; the call at the very end of the input (no sentinel, the end of the line supplies a space token)"),
            n,
            |i, acc| {
                let dg = vcore::digits(i, &[routes.len() as u64, nd as u64, ncalls]);
                let route = routes[dg[0] as usize];
                let d = &dref[dg[1] as usize + if route == Route::Nested { nd } else { 0 }];
                let call: Vec<Tok> = vcore::nth_string(7, dg[2]).into_iter().map(|j| CALL_ALPHA[j as usize]).collect();
                let before = acc.counters.get("matching_calls").copied().unwrap_or(0);
                check_case_route(i, d, &call, false, route, &|_| false, acc);
                if acc.counters.get("matching_calls").copied().unwrap_or(0) > before {
                    acc.count(match route {
                        Route::Warmup => "route_matching_call_after_another_call",
                        Route::Nested => "route_matching_call_inside_an_expansion",
                        Route::MainLoop => "route_matching_call_made_by_the_main_loop",
                        _ => "route_matching_call_at_end_of_input",
                    });
                }
                if i % 400_009 == 21 {
                    acc.sample(i, || json!({"route": route.name(), "definition": d.head, "call": mm::show(&call)}));
                }
            },
        );
        after_family(&mut ctx);
    }

    // F1g: expandable tokens inside arguments: they must be absorbed as written (no expansion while scanning)
    {
        let defs = build_ctxs(defs_for_strings(false), &mut ctx);
        let xs = [Tok::Cs("b"), Tok::Cs("iftrue"), Tok::Cs("noexpand")];
        let alpha = [Tok::Cs("b"), Tok::Cs("iftrue"), Tok::Cs("noexpand"), LB, RB, DOT, A];
        let maxlen = ctx.pick(5u32, 6u32);
        let ncalls = vcore::strings_upto(7, maxlen);
        let n = defs.len() as u64 * ncalls;
        let dref = &defs;
        ctx.family(
            "expandable-tokens-in-arguments",
            &format!("the {} definitions of calls-all-strings x every call string of length <= {maxlen} over {{\\b (a macro, \\def\\b{{Y}}), \\iftrue, \\noexpand, {{, }}, ., a}}: the captured expansion must contain the arguments exactly as written", defs.len()),
            n,
            |i, acc| {
                let d = &dref[(i / ncalls) as usize];
                let call: Vec<Tok> = vcore::nth_string(7, i % ncalls).into_iter().map(|j| alpha[j as usize]).collect();
                let seen = std::cell::Cell::new((false, false, false));
                check_case_route(i, d, &call, false, Route::Expandable, &|c| {
                    let (mut bu, mut de, mut ne) = (false, false, false);
                    let np = d.spec.params.len();
                    for (k, a) in c.args.iter().enumerate() {
                        if a.iter().any(|t| xs.contains(t)) {
                            let undelimited = d.spec.params[k].is_none() && !(d.spec.hash && k + 1 == np);
                            if undelimited && c.arg_braced[k] {
                                bu = true;
                            }
                            if !undelimited {
                                de = true;
                            }
                            // an expandable token below the top level of the argument
                            let mut depth = 0;
                            for t in a {
                                if t.is_left_brace() {
                                    depth += 1;
                                } else if t.is_right_brace() {
                                    depth -= 1;
                                } else if depth > 0 && xs.contains(t) {
                                    ne = true;
                                }
                            }
                        }
                    }
                    seen.set((bu, de, ne));
                    true
                }, acc);
                let (bu, de, ne) = seen.get();
                if bu {
                    acc.count("argument_contains_expandable_token_in_braced_undelimited_argument");
                }
                if de {
                    acc.count("argument_contains_expandable_token_in_delimited_argument");
                }
                if ne {
                    acc.count("argument_contains_expandable_token_in_nested_group");
                }
                if i % 200_003 == 31 {
                    acc.sample(i, || json!({"definition": d.head, "call": mm::show(&call)}));
                }
            },
        );
        after_family(&mut ctx);
    }

    // F1e: characters outside ASCII (2-, 3- and 4-byte) in prefix, delimiters, arguments
    {
        let (e2, e3, e4) = (Tok::Ch('\u{e9}', 12), Tok::Ch('\u{20ac}', 12), Tok::Ch('\u{1d4b3}', 12));
        let mut specs = vec![];
        let plists: Vec<(Vec<Tok>, Vec<Option<Vec<Tok>>>)> = vec![
            (vec![], vec![Some(vec![e2])]),
            (vec![], vec![Some(vec![e3, e4])]),
            (vec![], vec![Some(vec![e2, e3, e2])]),
            (vec![], vec![None, Some(vec![e4])]),
            (vec![e2], vec![None]),
            (vec![e4, e3], vec![Some(vec![e3]), None]),
        ];
        for (prefix, params) in plists {
            for hash in [false, true] {
                let mut body = revealing_body(params.len());
                body.push(Piece::T(e4));
                specs.push(DefSpec { kind: Kind::Def, prefix: prefix.clone(), params: params.clone(), hash, body });
            }
        }
        let defs = build_ctxs(specs, &mut ctx);
        let alpha = [e2, e3, e4, LB, RB, B];
        let maxlen = ctx.pick(5u32, 7u32);
        let ncalls = vcore::strings_upto(6, maxlen);
        let n = defs.len() as u64 * ncalls;
        let dref = &defs;
        ctx.family("non-ascii", &format!("{} definitions whose prefix / delimiters / replacement text contain U+00E9, U+20AC, U+1D4B3 (2, 3, 4 bytes in UTF-8) x every call string of length <= {maxlen} over those three characters, {{, }}, b", defs.len()), n, |i, acc| {
            let d = &dref[(i / ncalls) as usize];
            let call: Vec<Tok> = vcore::nth_string(6, i % ncalls).into_iter().map(|j| alpha[j as usize]).collect();
            let before = acc.counters.get("matching_calls").copied().unwrap_or(0);
            check_case(i, d, &call, false, &|_| true, acc);
            if acc.counters.get("matching_calls").copied().unwrap_or(0) > before {
                acc.count("matching_call_with_non_ascii_tokens");
            }
        });
        after_family(&mut ctx);
    }

    // F1f: the program cut off at every position (end of input inside the parameter text, the replacement
    // text, the prefix, a delimited / undelimited argument, a group): no panic
    {
        let specs = defs_for_strings(false);
        let defs = build_ctxs(specs, &mut ctx);
        let calls: Vec<Vec<Tok>> = vec![vec![A, B, LB, B, RB, DOT, A, A, X, SP, DOT], vec![LB, LB, B, RB, RB, A, B, A, A, DOT, A, DOT]];
        let mut progs: Vec<String> = vec![];
        for d in &defs {
            for c in &calls {
                let mut stream = vec![Tok::Cs("xa"), Tok::Cs("capture"), Tok::Cs("m")];
                stream.extend_from_slice(&d.spec.prefix);
                stream.extend_from_slice(c);
                stream.extend_from_slice(&[RELAX, Z, END]);
                if let Some(t) = render(&stream, false) {
                    progs.push(format!("{}{}", d.head, t));
                }
            }
        }
        let mut offs = vec![];
        let mut n = 0u64;
        for p in &progs {
            offs.push(n);
            n += p.len() as u64; // ASCII: every byte position is a cut
        }
        let (pref, oref) = (&progs, &offs);
        ctx.family("truncations", &format!("{} programs (every definition of calls-all-strings with 2 calls) cut off after every character", progs.len()), n, |i, acc| {
            let k = oref.partition_point(|o| *o <= i) - 1;
            let cut = (i - oref[k]) as usize;
            let src = &pref[k][..cut];
            acc.eval();
            acc.count("truncated_programs");
            match run_m_macro_only(src, &[]) {
                Outcome::Panic(p) => acc.fail(i, json!({"kind": "truncation", "program": src}), "no panic", p.describe(), "panic on a truncated program"),
                Outcome::Cutoff => acc.cutoffs += 1,
                o => acc.class(&format!("truncated: {}", o.class())),
            }
        });
        after_family(&mut ctx);
    }

    // F2: argument tuples by shape
    {
        let kinds: Vec<Option<Vec<Tok>>> = vec![None, Some(vec![DOT]), Some(vec![A, B]), Some(vec![A, A]), Some(vec![X]), Some(vec![SP])];
        let maxp = ctx.pick(3usize, 4usize);
        let mut tds: Vec<TupleDef> = vec![];
        for prefix in [vec![], vec![A]] {
            for params in param_lists(&kinds, 1..=maxp) {
                for hash in [false, true] {
                    let spec = DefSpec { kind: Kind::Def, prefix: prefix.clone(), params: params.clone(), hash, body: revealing_body(params.len()) };
                    match tuple_def(spec, &u_shapes(), &|d| d_shapes(d)) {
                        Ok(t) => tds.push(t),
                        Err(e) => ctx.machinery_error(e),
                    }
                }
            }
        }
        let mut offs = Vec::with_capacity(tds.len() + 1);
        let mut n = 0u64;
        for t in &tds {
            offs.push(n);
            n += t.count;
        }
        let (tref, oref) = (&tds, &offs);
        ctx.family(
            "argument-tuples",
            &format!(
                "{} definitions (prefix in {{-, a}} x 1-{maxp} parameters each undelimited or delimited by . / ab / aa / \\x / space x with/without #{{) x every tuple of argument shapes: 10 shapes for an undelimited parameter (token, group, {{}}, nested group, 1-2 leading spaces, \\x, ...), 17 for a delimited one (empty, token, one group, {{}}, two groups, {{}}{{}}, nested, leading/trailing space around a group, token+group, group+token, group+token+group, partial delimiter, delimiter hidden in a group, \\x, the delimiter's characters with other category codes)",
                tds.len()
            ),
            n,
            |i, acc| {
                let di = oref.partition_point(|o| *o <= i) - 1;
                let t = &tref[di];
                let (call, digits) = tuple_call(t, i - oref[di]);
                check_case(i, &t.ctx, &call, false, &|c| call.len() > f1_maxlen && parsed_as_constructed(t, &digits, c), acc);
                if i % 500_009 == 11 {
                    acc.sample(i, || json!({"definition": t.ctx.head, "shape_indices": digits, "call": mm::show(&call)}));
                }
            },
        );
        after_family(&mut ctx);
    }

    // F3: nine parameters
    {
        let dot = Some(vec![DOT]);
        let ab = Some(vec![A, B]);
        let patterns: Vec<(&str, Vec<Option<Vec<Tok>>>)> = vec![
            ("all undelimited", vec![None; 9]),
            ("all delimited by .", vec![dot.clone(); 9]),
            ("undelimited/. alternating", (0..9).map(|i| if i % 2 == 0 { None } else { dot.clone() }).collect()),
            ("./undelimited alternating", (0..9).map(|i| if i % 2 == 1 { None } else { dot.clone() }).collect()),
            ("all delimited by ab", vec![ab.clone(); 9]),
            ("8 undelimited then .", (0..9).map(|i| if i < 8 { None } else { dot.clone() }).collect()),
            ("eight undelimited", vec![None; 8]),
            ("eight delimited by .", vec![dot.clone(); 8]),
        ];
        let u_menu: Vec<Vec<Tok>> = ctx.pick(vec![vec![B], vec![LB, B, RB], vec![SP, LB, RB]], vec![vec![B], vec![LB, B, RB], vec![SP, LB, RB], vec![LB, LB, B, RB, RB], vec![X]]);
        let d_menu: Vec<Vec<Tok>> = ctx.pick(vec![vec![], vec![LB, B, RB], vec![LB, B, RB, LB, RB]], vec![vec![], vec![LB, B, RB], vec![LB, B, RB, LB, RB], vec![A], vec![SP, LB, B, RB]]);
        let mut tds: Vec<TupleDef> = vec![];
        for (_, params) in &patterns {
            let reversed: Vec<Piece> = (1..=params.len() as u8).rev().map(Piece::P).collect();
            for hash in [false, true] {
                for body in [revealing_body(params.len()), reversed.clone()] {
                    let spec = DefSpec { kind: Kind::Def, prefix: vec![], params: params.clone(), hash, body };
                    match tuple_def(spec, &u_menu, &|_| d_menu.clone()) {
                        Ok(t) => tds.push(t),
                        Err(e) => ctx.machinery_error(e),
                    }
                }
            }
        }
        let mut offs = Vec::with_capacity(tds.len() + 1);
        let mut n = 0u64;
        for t in &tds {
            offs.push(n);
            n += t.count;
        }
        let (tref, oref) = (&tds, &offs);
        ctx.family(
            "nine-parameters",
            &format!(
                "{} definitions with nine (and, one below the limit, eight) parameters ({}; each with/without #{{; bodies [#1]..[#n] and #n..#1) x every 9-tuple over {} argument shapes per parameter",
                tds.len(),
                patterns.iter().map(|p| p.0).collect::<Vec<_>>().join(", "),
                u_menu.len()
            ),
            n,
            |i, acc| {
                let di = oref.partition_point(|o| *o <= i) - 1;
                let t = &tref[di];
                let (call, digits) = tuple_call(t, i - oref[di]);
                check_case(i, &t.ctx, &call, false, &|c| call.len() > f1_maxlen && parsed_as_constructed(t, &digits, c), acc);
                acc.count(if t.ctx.spec.params.len() == 9 { "nine_parameter_calls" } else { "eight_parameter_calls" });
                if i % 300_007 == 5 {
                    acc.sample(i, || json!({"definition": t.ctx.head, "shape_indices": digits, "call": mm::show(&call)}));
                }
            },
        );
        after_family(&mut ctx);
    }

    // F4: replacement texts
    {
        let maxpieces = ctx.pick(3u32, 4u32);
        let dot = Some(vec![DOT]);
        let ab = Some(vec![A, B]);
        let ptexts: Vec<(Vec<Tok>, Vec<Option<Vec<Tok>>>, bool)> = vec![
            (vec![], vec![], false),
            (vec![A], vec![], true),
            (vec![], vec![None], false),
            (vec![], vec![dot.clone()], false),
            (vec![], vec![None], true),
            (vec![], vec![None, None], false),
            (vec![], vec![dot.clone(), None], false),
            (vec![A], vec![None, ab.clone()], true),
        ];
        // three argument tuples per parameter text, by position: (for undelimited, for delimited)
        let arg_sets: [(Vec<Tok>, Vec<Tok>); 3] = [(vec![B], vec![B]), (vec![LB, B, RB], vec![LB, B, RB, LB, RB]), (vec![SP, LB, RB], vec![])];
        let kinds = ALL_KINDS;
        // index space: ptext x kind x body x argset
        let mut items: Vec<(usize, Vec<Vec<Piece>>)> = vec![];
        for (pi, (_, params, _)) in ptexts.iter().enumerate() {
            items.push((pi, body_pieces(params.len())));
        }
        let mut offs = vec![];
        let mut n = 0u64;
        for (_, pieces) in &items {
            offs.push(n);
            n += vcore::strings_upto(pieces.len() as u64, maxpieces) * kinds.len() as u64 * arg_sets.len() as u64;
        }
        let (iref, oref, pref, aref) = (&items, &offs, &ptexts, &arg_sets);
        ctx.family(
            "replacement-texts",
            &format!("8 parameter texts (0-2 parameters, prefix, #{{) x 14 ways of defining (\\def, \\gdef, {{\\gdef}} called outside the group, \\global\\def, \\global\\gdef, \\global\\global\\def, \\long / \\outer / \\global prefixes in several orders, a redefinition of the same name, a local redefinition that has ended, the active character ~ as the macro) x every replacement text of <= {maxpieces} pieces over {{x, \\x, space, ##, {{}}, #i, {{#i}}}} x 3 argument tuples"),
            n,
            |i, acc| {
                let ii = oref.partition_point(|o| *o <= i) - 1;
                let (pi, pieces) = &iref[ii];
                let (prefix, params, hash) = &pref[*pi];
                let d = vcore::digits(i - oref[ii], &[vcore::strings_upto(pieces.len() as u64, maxpieces), kinds.len() as u64, aref.len() as u64]);
                let body: Vec<Piece> = vcore::nth_string(pieces.len() as u64, d[0]).into_iter().flat_map(|j| pieces[j as usize].clone()).collect();
                let spec = DefSpec { kind: kinds[d[1] as usize], prefix: prefix.clone(), params: params.clone(), hash: *hash, body };
                if render(&spec.def_tokens(), true).is_none() {
                    // two space tokens in a row, or a space token after \x, cannot be written in a definition's source text
                    acc.skipped += 1;
                    return;
                }
                let dc = match def_ctx(spec) {
                    Ok(c) => c,
                    Err(e) => {
                        model_disagreement(e);
                        return;
                    }
                };
                let (ua, da) = &aref[d[2] as usize];
                let mut call = prefix.clone();
                for p in params {
                    match p {
                        None => call.extend_from_slice(ua),
                        Some(dl) => {
                            call.extend_from_slice(da);
                            call.extend_from_slice(dl);
                        }
                    }
                }
                if *hash {
                    call.extend_from_slice(&[LB, B, RB]);
                }
                if dc.spec.body.iter().any(|p| *p == Piece::HH) {
                    acc.count("double_hash_in_replacement_text");
                }
                if dc.spec.kind != Kind::Def {
                    acc.count("gdef_or_global_def");
                }
                check_case(i, &dc, &call, false, &|_| true, acc);
                if i % 40_009 == 3 {
                    acc.sample(i, || json!({"definition": dc.head, "call": mm::show(&call)}));
                }
            },
        );
        after_family(&mut ctx);
    }

    // F5: wiring conformance – a slice of F1 on the full harness state (all stdlib components and built-ins)
    {
        let specs = defs_for_strings(false);
        let defs = build_ctxs(specs, &mut ctx);
        let maxlen = ctx.pick(2u32, 4u32);
        let ncalls = vcore::strings_upto(7, maxlen);
        let n = defs.len() as u64 * ncalls;
        let dref = &defs;
        ctx.family("full-state-slice", &format!("the {} definitions of calls-all-strings (<= 2 parameters) x every call string of length <= {maxlen}, on vtex::HState (full stdlib state and built-ins, ~250 us per VM) instead of the minimal state", defs.len()), n, |i, acc| {
            let d = &dref[(i / ncalls) as usize];
            let call: Vec<Tok> = vcore::nth_string(7, i % ncalls).into_iter().map(|j| CALL_ALPHA[j as usize]).collect();
            check_case(i, d, &call, true, &|_| false, acc);
            acc.count("full_state_runs");
        });
        after_family(&mut ctx);
    }

    ctx.require("several_groups_bound_to_delimited_parameter", "a delimited parameter received an argument made of two or more groups");
    ctx.require("brace_to_brace_argument_that_is_not_one_group", "an argument starts with { and ends with } without being a single group (the D3 shape)");
    ctx.require("delimiter_partially_matched_then_abandoned", "a proper prefix of the delimiter matched at depth 0 and was then contributed to the argument (§397)");
    ctx.require("delimiter_restarted_inside_abandoned_match", "a self-overlapping delimiter re-started inside the abandoned tokens (the KMP fallback path)");
    ctx.require("delimiter_restarted_keeping_two_or_more_tokens", "after a failed partial match the delimiter re-started with >= 2 tokens already matched (needs a delimiter with a border of length >= 2, e.g. aaab, ababb)");
    ctx.require("long_delimiter_cases", "calls of macros whose delimiter has 3 or more tokens");
    ctx.require("leading_spaces_skipped_before_undelimited", "space tokens were skipped before an undelimited argument (§393)");
    ctx.require("empty_group_argument", "an argument written {} (empty after brace stripping)");
    ctx.require("empty_delimited_argument", "a delimited argument that is empty because the delimiter follows at once");
    ctx.require("braces_stripped_from_delimited_argument", "outer braces removed from a delimited argument");
    ctx.require("braces_stripped_from_undelimited_argument", "outer braces removed from an undelimited argument");
    ctx.require("hash_brace_form_matched", "a call of a macro whose parameter text ends with #{");
    ctx.require("matching_call_with_delimiter_character_of_other_catcode", "a matching call whose argument contains the delimiter's character with another category code (must not end the argument)");
    ctx.require("nine_parameter_calls", "calls of nine-parameter macros");
    ctx.require("eight_parameter_calls", "calls of eight-parameter macros (one below the limit)");
    ctx.require("route_matching_call_after_another_call", "a matching call made after another macro call in the same run");
    ctx.require("route_matching_call_inside_an_expansion", "a matching call of a second macro whose tokens come from the first macro's expansion");
    ctx.require("route_matching_call_made_by_the_main_loop", "a matching call made by the main loop, observed through the character handler");
    ctx.require("route_matching_call_at_end_of_input", "a matching call that ends with the input");
    ctx.require("matching_call_with_non_ascii_tokens", "a matching call with 2/3/4-byte characters in delimiter or argument");
    ctx.require("truncated_programs", "programs cut off at every position");
    ctx.require("argument_contains_expandable_token_in_braced_undelimited_argument", "a macro / conditional / \\noexpand inside an undelimited argument written as a group");
    ctx.require("argument_contains_expandable_token_in_delimited_argument", "... inside a delimited argument");
    ctx.require("argument_contains_expandable_token_in_nested_group", "... inside a group inside an argument");
    ctx.require("double_hash_in_replacement_text", "## in a replacement text");
    ctx.require("gdef_or_global_def", "definitions made with \\gdef / \\global\\def");
    ctx.require("via_lexer", "calls written as source text");
    ctx.require("via_inject", "calls that only exist as token lists");
    ctx.require("full_state_runs", "cases re-run on the full vtex::HState");
    ctx.finish("every (definition, call) pair of the families is run on a fresh VM; non-trivial = the oracle says the call matches, the match ends before the sentinel is used up, and at least one argument is non-empty (counter matching_calls_with_a_nonempty_argument); distinct_nontrivial counts such a case once: cases of the full-state slice are re-runs and are not counted, a tuple-built call is counted only if it is longer than every string of calls-all-strings and TeX parses it back into the shapes it was built from. All matching calls are compared token by token; all other strings are only checked for 'no panic'");
}
