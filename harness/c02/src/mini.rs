//! Minimal-state VM + token-exact observation, shared by the C02 and C07 checks (c07 includes this file
//! with `#[path]`).
//!
//! * `M`       – a VM state with only the `prefix` and `conditional` components (VM creation ~2 us
//!               instead of ~250 us for the full state) and a step budget in the expansion hooks.
//! * `capture` – `\capture ... \END`: records every token up to `\END` verbatim (unexpanded, with
//!               category codes). Braces never reach a `Handlers` callback, so this is how an exact
//!               token stream is observed.
//! * `inject`  – `\inject`: pushes a harness-supplied token list on the input. Used for token strings
//!               that no source text can produce (two space tokens in a row, a space token after a
//!               control word).
//! * `Rec`     – handlers that record every delivered token.
//! All primitives are generic over the state and keep their data in thread-locals, so the same ones are
//! installed on the full `vtex::HState` for the wiring-conformance slice.
#![allow(dead_code)]

use reftex::macros::Tok;
use std::cell::{Cell, RefCell};
use std::collections::HashMap;
use texlang::traits::*;
use texlang::*;
use texlang_stdlib::*;

// ------------------------------------------------------------------ names

const KNOWN: &[&str] = &["relax", "END", "x", "m", "a", "b", "c", "xa", "xb", "nx", "q", "t", "sp", "e", "noexpand", "iftrue", "iffalse", "else", "fi", "or", "ifnum", "ifodd", "ifcase", "ifeof", "ifht", "ifhf", "myif", "myfi", "myelse", "myor", "hidfi", "capture", "capturetwo", "inject", "w", "n", "long", "outer", "def", "gdef", "let", "global", "par", "<eof>"];

thread_local! {
    static EXTRA: RefCell<HashMap<String, &'static str>> = RefCell::new(HashMap::new());
    static OUT: RefCell<Vec<Tok>> = const { RefCell::new(Vec::new()) };
    static INJECT: RefCell<Vec<Tok>> = const { RefCell::new(Vec::new()) };
    static STEPS: Cell<u64> = const { Cell::new(0) };
}
pub const STEP_BUDGET: u64 = 20_000;

/// `&'static str` for a control sequence name (fixed table first, leaked once per new name otherwise).
pub fn sname(s: &str) -> &'static str {
    for k in KNOWN {
        if *k == s {
            return k;
        }
    }
    EXTRA.with(|e| {
        let mut e = e.borrow_mut();
        if let Some(k) = e.get(s) {
            return *k;
        }
        let k: &'static str = Box::leak(s.to_string().into_boxed_str());
        e.insert(s.to_string(), k);
        k
    })
}

// ------------------------------------------------------------------ token conversion

pub fn tok_of<S>(vm: &vm::VM<S>, t: token::Token) -> Tok {
    match t.value() {
        token::Value::CommandRef(token::CommandRef::ControlSequence(n)) => Tok::Cs(sname(vm.cs_name_interner().resolve(n).unwrap_or("?"))),
        token::Value::CommandRef(token::CommandRef::ActiveCharacter(c)) => Tok::Ch(c, 13),
        v => {
            let (c, cat) = v.char_and_cat_code().unwrap();
            Tok::Ch(c, cat as u8)
        }
    }
}
fn mk_token(t: Tok, interner: &mut token::CsNameInterner, key: token::trace::Key) -> token::Token {
    match t {
        Tok::Cs(n) => token::Token::new_control_sequence(interner.get_or_intern(n), key),
        Tok::Ch(c, cat) => token::Token::new_from_value(token::Value::new(c, types::CatCode::try_from(cat).unwrap()), key),
    }
}

// ------------------------------------------------------------------ primitives and handlers

pub fn capture<S: TexlangState>(_t: token::Token, input: &mut vm::ExecutionInput<S>) -> prelude::Result<()> {
    loop {
        let t = match input.unexpanded().next()? {
            None => {
                OUT.with(|o| o.borrow_mut().push(Tok::Cs("<eof>")));
                break;
            }
            Some(t) => t,
        };
        let tk = tok_of(input.vm(), t);
        if tk == Tok::Cs("END") {
            break;
        }
        OUT.with(|o| o.borrow_mut().push(tk));
    }
    Ok(())
}
pub fn inject<S: TexlangState>(t: token::Token, input: &mut vm::ExecutionInput<S>) -> prelude::Result<()> {
    let key = t.trace_key();
    let toks: Vec<Tok> = INJECT.with(|c| c.borrow().clone());
    let mut v = Vec::with_capacity(toks.len());
    {
        let parts = input.vm_parts();
        for tk in &toks {
            v.push(mk_token(*tk, parts.cs_name_interner, key));
        }
    }
    for t in v.into_iter().rev() {
        input.back(t);
    }
    Ok(())
}
/// `\capturetwo`: performs two single expansion steps on the input that follows, then behaves as `\capture`
/// (observes a macro call made while the tokens of an earlier call are still on the input).
pub fn capture_two<S: TexlangState>(t: token::Token, input: &mut vm::ExecutionInput<S>) -> prelude::Result<()> {
    let x: &mut vm::ExpandedStream<S> = input.as_mut();
    x.expand_once()?;
    x.expand_once()?;
    capture(t, input)
}
/// An unexpandable primitive that does nothing but leave its own token in the observation log
/// (installed as `\relax` and as the end marker `\END`).
pub fn relax_recorded<S: TexlangState>(t: token::Token, input: &mut vm::ExecutionInput<S>) -> prelude::Result<()> {
    let tk = tok_of(input.vm(), t);
    OUT.with(|o| o.borrow_mut().push(tk));
    Ok(())
}

pub struct Rec;
impl<S: TexlangState> vm::Handlers<S> for Rec {
    fn character_handler(input: &mut vm::ExecutionInput<S>, t: token::Token, _c: char) -> prelude::Result<()> {
        let tk = tok_of(input.vm(), t);
        OUT.with(|o| o.borrow_mut().push(tk));
        Ok(())
    }
    fn undefined_command_handler(input: &mut vm::ExecutionInput<S>, t: token::Token) -> prelude::Result<()> {
        let tk = tok_of(input.vm(), t);
        OUT.with(|o| o.borrow_mut().push(tk));
        Ok(())
    }
    fn unexpanded_expansion_command(input: &mut vm::ExecutionInput<S>, t: token::Token) -> prelude::Result<()> {
        let tk = tok_of(input.vm(), t);
        OUT.with(|o| o.borrow_mut().push(tk));
        Ok(())
    }
}

// ------------------------------------------------------------------ minimal state

#[derive(Default)]
pub struct M {
    pub prefix: prefix::Component,
    pub conditional: conditional::Component,
    /// only for \ifeof (no stream is ever opened)
    pub input: input::Component<16>,
}

/// Conditionals implemented in the harness through the public `Condition` trait, deliberately without a DOC string.
pub struct IfHarnessTrue;
impl<S: HasComponent<conditional::Component>> conditional::Condition<S> for IfHarnessTrue {
    fn evaluate(_: &mut vm::ExpansionInput<S>) -> prelude::Result<bool> {
        Ok(true)
    }
}
pub struct IfHarnessFalse;
impl<S: HasComponent<conditional::Component>> conditional::Condition<S> for IfHarnessFalse {
    fn evaluate(_: &mut vm::ExpansionInput<S>) -> prelude::Result<bool> {
        Ok(false)
    }
}
#[inline]
fn step() {
    STEPS.with(|s| {
        let n = s.get() + 1;
        s.set(n);
        if n > STEP_BUDGET {
            std::panic::panic_any(vcore::pan::Cutoff);
        }
    })
}
impl TexlangState for M {
    fn variable_assignment_scope_hook(state: &mut Self) -> texcraft_stdext::collections::groupingmap::Scope {
        prefix::variable_assignment_scope_hook(state)
    }
    fn expansion_override_hook(token: token::Token, input: &mut vm::ExpansionInput<Self>, tag: Option<command::Tag>) -> prelude::Result<Option<token::Token>> {
        step();
        expansion::noexpand_hook(token, input, tag)
    }
    fn post_macro_expansion_hook(_token: token::Token, _input: &vm::ExpansionInput<Self>, _m: &texmacro::Macro, _a: &[&[token::Token]], _r: &[token::Token]) {
        step();
    }
}
vm::implement_has_component![M {
    prefix: prefix::Component,
    conditional: conditional::Component,
    input: input::Component<16>,
}];

pub fn builtins_m(optimized_xa: bool) -> HashMap<&'static str, command::BuiltIn<M>> {
    HashMap::from([
        ("def", def::get_def()),
        ("gdef", def::get_gdef()),
        ("global", prefix::get_global()),
        ("let", alias::get_let()),
        ("capture", command::BuiltIn::new_execution(capture::<M>)),
        ("inject", command::BuiltIn::new_execution(inject::<M>)),
        ("relax", command::BuiltIn::new_execution(relax_recorded::<M>)),
        ("END", command::BuiltIn::new_execution(relax_recorded::<M>)),
        ("xa", if optimized_xa { expansion::get_expandafter_optimized() } else { expansion::get_expandafter_simple() }),
        ("noexpand", expansion::get_noexpand()),
        ("iftrue", conditional::get_iftrue()),
        ("iffalse", conditional::get_iffalse()),
        ("ifnum", conditional::get_ifnum()),
        ("ifodd", conditional::get_ifodd()),
        ("ifcase", conditional::get_ifcase()),
        ("ifeof", input::get_ifeof()),
        ("ifht", <IfHarnessTrue as conditional::Condition<M>>::build_if_command()),
        ("ifhf", <IfHarnessFalse as conditional::Condition<M>>::build_if_command()),
        ("or", conditional::get_or()),
        ("else", conditional::get_else()),
        ("fi", conditional::get_fi()),
    ])
}

/// The built-ins that the macro check needs (a VM with 8 commands is created faster than one with 18).
pub fn builtins_macro_only() -> HashMap<&'static str, command::BuiltIn<M>> {
    HashMap::from([
        ("def", def::get_def()),
        ("gdef", def::get_gdef()),
        ("global", prefix::get_global()),
        ("capture", command::BuiltIn::new_execution(capture::<M>)),
        ("capturetwo", command::BuiltIn::new_execution(capture_two::<M>)),
        ("inject", command::BuiltIn::new_execution(inject::<M>)),
        ("relax", command::BuiltIn::new_execution(relax_recorded::<M>)),
        ("END", command::BuiltIn::new_execution(relax_recorded::<M>)),
        ("xa", expansion::get_expandafter_simple()),
        ("long", prefix::get_long()),
        ("outer", prefix::get_outer()),
    ])
}

// ------------------------------------------------------------------ running

#[derive(Clone, Debug, PartialEq, Eq)]
pub struct RunOut {
    /// everything recorded by `\capture` and by the handlers, in order
    pub toks: Vec<Tok>,
    /// title of the fatal error, if the run ended with one
    pub err: Option<String>,
    /// the error carries a position (a token trace or an end-of-input trace)
    pub located: bool,
}
#[derive(Clone, Debug, PartialEq, Eq)]
pub enum Outcome {
    Done(RunOut),
    Cutoff,
    Panic(vcore::Panic),
}
impl Outcome {
    pub fn show(&self) -> String {
        match self {
            Outcome::Done(r) => match &r.err {
                None => reftex::macros::show(&r.toks),
                Some(e) => format!("{} !error: {}", reftex::macros::show(&r.toks), e),
            },
            Outcome::Cutoff => "<step budget cut-off>".into(),
            Outcome::Panic(p) => p.describe(),
        }
    }
    pub fn class(&self) -> String {
        match self {
            Outcome::Done(r) => match &r.err {
                None => "ok".into(),
                Some(e) => format!("error: {}", vcore::clip(e, 60)),
            },
            Outcome::Cutoff => "cutoff".into(),
            Outcome::Panic(p) => format!("panic {}", p.site()),
        }
    }
}

/// Run `src` on the given fresh VM with `injected` available to `\inject`.
pub fn run_on<S: TexlangState>(vm: &mut vm::VM<S>, src: &str, injected: &[Tok]) -> RunOut {
    OUT.with(|o| o.borrow_mut().clear());
    STEPS.with(|s| s.set(0));
    INJECT.with(|c| {
        let mut c = c.borrow_mut();
        c.clear();
        c.extend_from_slice(injected);
    });
    let _ = vm.push_source("t.tex", src);
    let r = vm.run::<Rec>();
    let toks = OUT.with(|o| o.borrow().clone());
    match r {
        Ok(()) => RunOut { toks, err: None, located: true },
        Err(e) => {
            let located = !e.token_traces.is_empty() || e.end_of_input_trace.is_some() || matches!(e.error.kind(), error::Kind::FailedPrecondition);
            RunOut { toks, err: Some(e.error.title()), located }
        }
    }
}

/// One program on a fresh minimal-state VM, under catch_unwind.
pub fn run_m(src: &str, injected: &[Tok], optimized_xa: bool) -> Outcome {
    match vcore::catch(|| {
        let mut vm = vm::VM::<M>::new_with_built_in_commands(builtins_m(optimized_xa));
        run_on(&mut vm, src, injected)
    }) {
        Ok(r) => Outcome::Done(r),
        Err(p) if p.cutoff => Outcome::Cutoff,
        Err(p) => Outcome::Panic(p),
    }
}

/// As `run_m`, with only the built-ins of `builtins_macro_only`.
pub fn run_m_macro_only(src: &str, injected: &[Tok]) -> Outcome {
    match vcore::catch(|| {
        let mut vm = vm::VM::<M>::new_with_built_in_commands(builtins_macro_only());
        run_on(&mut vm, src, injected)
    }) {
        Ok(r) => Outcome::Done(r),
        Err(p) if p.cutoff => Outcome::Cutoff,
        Err(p) => Outcome::Panic(p),
    }
}

/// The same program on the full harness state `vtex::HState` (all stdlib built-ins, real components).
pub fn run_full(src: &str, injected: &[Tok], optimized_xa: bool) -> Outcome {
    use vtex::HState;
    match vcore::catch(|| {
        let mut b = vtex::builtins();
        b.insert("capture", command::BuiltIn::new_execution(capture::<HState>));
        b.insert("inject", command::BuiltIn::new_execution(inject::<HState>));
        b.insert("capturetwo", command::BuiltIn::new_execution(capture_two::<HState>));
        b.insert("ifht", <IfHarnessTrue as conditional::Condition<HState>>::build_if_command());
        b.insert("ifhf", <IfHarnessFalse as conditional::Condition<HState>>::build_if_command());
        b.insert("relax", command::BuiltIn::new_execution(relax_recorded::<HState>));
        b.insert("END", command::BuiltIn::new_execution(relax_recorded::<HState>));
        b.insert("xa", if optimized_xa { expansion::get_expandafter_optimized() } else { expansion::get_expandafter_simple() });
        let mut vm = Box::new(vm::VM::<HState>::new_with_built_in_commands(b));
        vtex::prepare(&mut vm);
        run_on(&mut vm, src, injected)
    }) {
        Ok(r) => Outcome::Done(r),
        Err(p) if p.cutoff => Outcome::Cutoff,
        Err(p) => Outcome::Panic(p),
    }
}

// ------------------------------------------------------------------ rendering token lists as source text

fn plain_cat(c: char) -> u8 {
    match c {
        '\\' => 0,
        '{' => 1,
        '}' => 2,
        '$' => 3,
        '&' => 4,
        '\r' | '\n' => 5,
        '#' => 6,
        '^' => 7,
        '_' => 8,
        ' ' => 10,
        '~' => 13,
        '%' => 14,
        c if c.is_ascii_alphabetic() => 11,
        _ => 12,
    }
}

/// Source text that the plain-TeX lexer turns into exactly `toks` (None if no such text exists:
/// a space token after a space token or after a control word, or a non-default category code).
/// `after_cw` says that the text will be appended directly after a control word.
pub fn render(toks: &[Tok], after_cw: bool) -> Option<String> {
    let mut s = String::new();
    let mut prev_cw = after_cw;
    let mut prev_space = false;
    for t in toks {
        match *t {
            Tok::Cs(n) => {
                if n.is_empty() || !n.chars().all(|c| c.is_ascii_alphabetic()) {
                    return None;
                }
                s.push('\\');
                s.push_str(n);
                prev_cw = true;
                prev_space = false;
            }
            Tok::Ch(' ', 10) => {
                if prev_cw || prev_space {
                    return None;
                }
                s.push(' ');
                prev_space = true;
            }
            Tok::Ch(c, cat) => {
                if plain_cat(c) != cat || !(1..=13).contains(&cat) || cat == 5 || cat == 9 || cat == 10 {
                    return None;
                }
                if prev_cw && cat == 11 {
                    s.push(' ');
                }
                s.push(c);
                prev_cw = false;
                prev_space = false;
            }
        }
    }
    Some(s)
}

/// The plain-TeX tokens of a one-line source text (used to feed the repository's own recorded
/// expectations to the models): control words/symbols, spaces collapsed and skipped after control
/// words, no `^^`, no comments, no end-of-line handling.
pub fn lex(s: &str) -> Vec<Tok> {
    let b: Vec<char> = s.chars().collect();
    let mut i = 0;
    let mut out = vec![];
    let mut skip_blanks = true;
    while i < b.len() {
        let c = b[i];
        i += 1;
        match plain_cat(c) {
            0 => {
                let st = i;
                if i < b.len() && b[i].is_ascii_alphabetic() {
                    while i < b.len() && b[i].is_ascii_alphabetic() {
                        i += 1;
                    }
                    skip_blanks = true;
                } else {
                    i += 1;
                    skip_blanks = b.get(st) == Some(&' ');
                }
                let n: String = b[st..i.min(b.len())].iter().collect();
                out.push(Tok::Cs(sname(&n)));
            }
            10 => {
                if !skip_blanks {
                    out.push(Tok::Ch(' ', 10));
                    skip_blanks = true;
                }
            }
            cat => {
                out.push(Tok::Ch(c, cat));
                skip_blanks = false;
            }
        }
    }
    out
}

// ------------------------------------------------------------------ JSON forms of tokens (replay files)

pub fn tok_json(t: Tok) -> String {
    match t {
        Tok::Cs(n) => format!("\\{n}"),
        Tok::Ch(c, cat) => format!("{c}/{cat}"),
    }
}
pub fn toks_json(ts: &[Tok]) -> serde_json::Value {
    serde_json::Value::Array(ts.iter().map(|t| serde_json::Value::String(tok_json(*t))).collect())
}
pub fn tok_parse(s: &str) -> Tok {
    if let Some(p) = s.rfind('/') {
        let cat: u8 = s[p + 1..].parse().expect("category code");
        let c = s[..p].chars().next().expect("character");
        Tok::Ch(c, cat)
    } else {
        Tok::Cs(sname(s.strip_prefix('\\').expect("control sequence")))
    }
}
pub fn toks_parse(v: &serde_json::Value) -> Vec<Tok> {
    v.as_array().map(|a| a.iter().map(|x| tok_parse(x.as_str().unwrap_or(""))).collect()).unwrap_or_default()
}
