//! Running constants / arithmetic through the real VM (harness state `vtex::HState`), and the tiny
//! source -> model-token translation for the restricted source alphabet the enumerators use.

use reftex::scanum::{Glue, ScanError, Tok};

/// Values of the scratch registers `\count1`, `\dimen1`, `\skip1` that a constant may refer to.
#[derive(Clone, Copy, Debug, Default)]
pub struct Regs {
    pub count1: i64,
    pub dimen1: i64,
    pub skip1: Glue,
}

pub const MAXD: i64 = (1 << 30) - 1;
pub const MAXI: i64 = (1 << 31) - 1;
pub const MINI: i64 = -(1 << 31);

/// TeX source that leaves `\count<r>` = v (any 32-bit value; -2^31 cannot be written and is made by wrap-around).
pub fn set_count(r: u32, v: i64) -> String {
    if v == MINI {
        format!("\\count{r}=-2147483647 \\advance\\count{r} by -1 ")
    } else {
        format!("\\count{r}={v} ")
    }
}
/// TeX source that leaves `\dimen<r>` = v sp (any 32-bit value; beyond 2^30-1 by `\advance`, which wraps silently).
pub fn set_dimen(r: u32, v: i64) -> String {
    if v.abs() <= MAXD {
        format!("\\dimen{r}={v}sp ")
    } else {
        let s = if v < 0 { -1 } else { 1 };
        let mut out = format!("\\dimen{r}={}sp ", s * MAXD);
        let mut rest = v - s * MAXD;
        while rest != 0 {
            let step = if rest.abs() > MAXD { s * MAXD } else { rest };
            out.push_str(&format!("\\advance\\dimen{r} by {step}sp "));
            rest -= step;
        }
        out
    }
}
/// TeX source that leaves `\skip<r>` = g. Finite components are written in sp; infinite components
/// as `<decimal>fil..` using the exact decimal expansion of v/65536 (16 fraction digits are exact
/// for a 16-bit binary fraction). Width beyond 2^30-1 by `\advance`.
pub fn set_skip(r: u32, g: &Glue) -> String {
    let fil = |o: u8| -> &'static str {
        match o {
            1 => "fil",
            2 => "fill",
            _ => "filll",
        }
    };
    let exact = |v: i64| -> String {
        // exact decimal of v/65536
        let neg = v < 0;
        let a = v.abs();
        let mut s = format!("{}{}.", if neg { "-" } else { "" }, a / 65536);
        let mut f = a % 65536;
        for _ in 0..16 {
            f *= 10;
            s.push((b'0' + (f / 65536) as u8) as char);
            f %= 65536;
        }
        s
    };
    let comp = |v: i64, o: u8| -> String {
        if o == 0 {
            format!("{v}sp")
        } else {
            format!("{}{}", exact(v), fil(o))
        }
    };
    let w = if g.width.abs() <= MAXD { g.width } else { 0 };
    let mut out = format!("\\skip{r}={w}sp");
    if g.stretch != 0 || g.stretch_order != 0 {
        out.push_str(&format!(" plus {}", comp(g.stretch, g.stretch_order)));
    }
    if g.shrink != 0 || g.shrink_order != 0 {
        out.push_str(&format!(" minus {}", comp(g.shrink, g.shrink_order)));
    }
    out.push(' ');
    if w != g.width {
        // \advance\skip by a pure width keeps stretch and shrink (§1239: the scanned glue has zero
        // stretch of normal order, so the old components survive)
        let s = if g.width < 0 { -1 } else { 1 };
        let mut rest = g.width;
        while rest != 0 {
            let step = if rest.abs() > MAXD { s * MAXD } else { rest };
            out.push_str(&format!("\\advance\\skip{r} by {step}sp "));
            rest -= step;
        }
    }
    out
}

/// Translate the source of a constant into model tokens. The source alphabet is: ASCII letters,
/// digits, punctuation of category 12, the space, and the control words listed here. Lexing starts in
/// state M (the constant follows `=`), TeX §343-354 for one line.
pub fn lex(src: &str, regs: &Regs) -> Result<Vec<Tok>, String> {
    let cs: Vec<char> = src.chars().collect();
    let mut out = vec![];
    let mut i = 0;
    let mut skip_blanks = false;
    while i < cs.len() {
        let c = cs[i];
        if c == '\\' {
            let mut j = i + 1;
            while j < cs.len() && cs[j].is_ascii_alphabetic() {
                j += 1;
            }
            if j == i + 1 {
                // control symbol: only `\<non-ASCII character>` is in the alphabet (an undefined single-character name)
                match cs.get(j) {
                    Some(c) if !c.is_ascii() => {
                        out.push(Tok::Cs(Some(*c)));
                        i = j + 1;
                        skip_blanks = false;
                        continue;
                    }
                    _ => return Err(format!("control symbol at {i} not in the alphabet")),
                }
            }
            let name: String = cs[i + 1..j].iter().collect();
            i = j;
            // state S: skip blanks
            while i < cs.len() && cs[i] == ' ' {
                i += 1;
            }
            skip_blanks = true;
            match name.as_str() {
                "relax" => out.push(Tok::Cs(None)),
                "q" => out.push(Tok::Cs(Some('q'))), // undefined, single-letter
                "s" => out.push(Tok::Macro(Some('s'), vec![Tok::Space])),
                "b" => out.push(Tok::Macro(Some('b'), vec![Tok::Letter('c')])),
                "d" => out.push(Tok::Macro(Some('d'), vec![Tok::Other('7')])),
                "count" | "dimen" | "skip" => {
                    // register number 1 followed by one optional space (index scanning, §443)
                    if i < cs.len() && cs[i] == '1' {
                        i += 1;
                        if i < cs.len() && cs[i] == ' ' {
                            i += 1;
                            while i < cs.len() && cs[i] == ' ' {
                                i += 1; // further source spaces: state S after the space token
                            }
                        } else {
                            skip_blanks = false;
                            if i < cs.len() && (cs[i].is_ascii_digit() || cs[i] == '\\') {
                                return Err("register index must be followed by a space or a non-digit character".into());
                            }
                        }
                        out.push(match name.as_str() {
                            "count" => Tok::Int(regs.count1),
                            "dimen" => Tok::Dimen(regs.dimen1),
                            _ => Tok::Glue(regs.skip1),
                        });
                    } else {
                        return Err("only register 1 is in the alphabet".into());
                    }
                }
                _ => return Err(format!("\\{name} is not in the alphabet")),
            }
            continue;
        }
        i += 1;
        if c == ' ' {
            if !skip_blanks {
                out.push(Tok::Space);
                skip_blanks = true;
            }
            continue;
        }
        if c == '\n' || c == '%' {
            // end of line (§348): a space token in state M, nothing in state S; a comment ends the line
            // without one. The next line starts in state N (blanks skipped); an empty line is not in the alphabet.
            if c == '%' {
                while i < cs.len() && cs[i] != '\n' {
                    i += 1;
                }
                if i == cs.len() {
                    return Err("comment without an end of line".into());
                }
                i += 1;
            } else if !skip_blanks {
                out.push(Tok::Space);
            }
            while i < cs.len() && cs[i] == ' ' {
                i += 1;
            }
            if i < cs.len() && cs[i] == '\n' {
                return Err("empty line (\\par) is not in the alphabet".into());
            }
            skip_blanks = true;
            continue;
        }
        skip_blanks = false;
        if c.is_ascii_alphabetic() {
            out.push(Tok::Letter(c));
        } else if c.is_ascii_digit() || "+-.,'\"`=<>:;!?()[]*/@|".contains(c) {
            out.push(Tok::Other(c));
        } else if !c.is_ascii() {
            out.push(Tok::Other(c)); // category 12 by default
        } else {
            return Err(format!("character {c:?} is not in the alphabet"));
        }
    }
    Ok(out)
}

/// Preamble shared by all VM programs: batch mode (every error is recovered and recorded), the
/// three macros of the alphabet.
pub const PREAMBLE: &str = "\\batchmode \\def\\s{ }\\def\\b{c}\\def\\d{7}";

pub struct Obs {
    pub out: String,
    pub fatal: Option<String>,
    /// titles of the recovered errors, in order
    pub errors: Vec<String>,
}

/// Run a whole program on a fresh VM. The titles of the recovered errors are obtained by re-running
/// the program with an error budget of k = 0, 1, ..: the harness state turns error k+1 into the fatal
/// error of the run (errormode::Component keeps the errors, but has no accessor).
pub fn run_program(src: &str) -> Result<Obs, vcore::Panic> {
    vcore::catch(|| {
        let mut vm = vtex::new_vm();
        let r = vtex::run(&mut vm, src);
        let n = vm.state.env.errs.get();
        // the run ends with the end-of-line character of the only line: a space token
        let out = r.out.strip_suffix(' ').map(|s| s.to_string()).unwrap_or(r.out);
        let mut errors = vec![];
        for k in 0..n.min(8) {
            let mut vm = vtex::new_vm();
            vm.state.env.err_budget.set(k);
            let r = vtex::run(&mut vm, src);
            errors.push(r.err.unwrap_or_else(|| "?".into()));
        }
        while (errors.len() as u64) < n {
            errors.push("?".into());
        }
        Obs { out, fatal: r.err, errors }
    })
}

/// Map the title of a texlang error to the TeX error it stands for.
pub fn error_kind(title: &str) -> Option<ScanError> {
    if title.starts_with("expected a number in the range") {
        Some(ScanError::NumberTooBig)
    } else if title.starts_with("expected the beginning of a number") || title.starts_with("expected an octal digit") || title.starts_with("expected a hexadecimal digit") {
        Some(ScanError::MissingNumber)
    } else if title.starts_with("expected a character,") {
        Some(ScanError::ImproperAlpha)
    } else if title.starts_with("expected a dimension in the range") {
        Some(ScanError::DimensionTooLarge)
    } else if title.starts_with("? (TODO") {
        Some(ScanError::IllegalUnit)
    } else if title.starts_with("expected an infinite glue stretch or shrink order") {
        Some(ScanError::IllegalFil)
    } else {
        None
    }
}
