//! C06 — integers, dimensions, glue: scan, print and compute exactly as TeX. DESIGN.md §3 C06.
//! Engine: BEX. (a) print/scan of every scaled value through `common::Scaled` directly,
//! (b) constants through the VM against `reftex::scanum` (tex.web §440-462),
//! (c) `\advance`/`\multiply`/`\divide` on an operand lattice through the VM + sweeps of the pure kernels
//! against `reftex::arith` (tex.web §100-107).

mod vmrun;

use common::{Scaled, ScaledUnit};
use reftex::arith;
use reftex::scanum::{self, Glue, ScanError, Scanner, Tok};
use serde_json::{json, Value};
use vcore::{catch, Acc, Ctx, Level};
use vmrun::*;

/// Debug aid (C06_CLASSES=1): every disagreement class with its count and first witness, on stderr.
static CLASSES: std::sync::Mutex<std::collections::BTreeMap<String, (u64, String)>> = std::sync::Mutex::new(std::collections::BTreeMap::new());
fn dbgc(class: &str, case: &Value) {
    if std::env::var_os("C06_CLASSES").is_none() {
        return;
    }
    let mut g = CLASSES.lock().unwrap();
    let e = g.entry(class.to_string()).or_insert((0, String::new()));
    e.0 += 1;
    let w = case.get("constant").or(case.get("program")).map(|v| v.to_string()).unwrap_or_else(|| case.to_string());
    if e.1.is_empty() || w.len() < e.1.len() {
        e.1 = w;
    }
}
fn dump_classes() {
    for (k, (n, w)) in CLASSES.lock().unwrap().iter() {
        eprintln!("CLASS {n:8} {k}\n         shortest: {}", vcore::clip(w, 400));
    }
}

// ------------------------------------------------------------------ (a) print / scan

/// Half-open ranges of magnitudes |s| enumerated by part (a); every magnitude is checked with both signs,
/// in increasing order of magnitude (so the first reported case is the smallest one).
fn value_ranges(quick: bool) -> Vec<(i64, i64)> {
    if !quick {
        return vec![(0, MAXI + 2)];
    }
    let mut r: Vec<(i64, i64)> = vec![(0, 1 << 24)];
    for k in 24..=31u32 {
        let p = 1i64 << k;
        r.push((p - 65536, p + 65536));
    }
    // the carry region around every integer number of points
    for k in 0i64..=32768 {
        r.push((k * 65536 - 64, k * 65536 + 64));
    }
    merge_ranges(r, 0, MAXI + 2)
}
fn merge_ranges(r: Vec<(i64, i64)>, lo: i64, hi: i64) -> Vec<(i64, i64)> {
    let mut r: Vec<(i64, i64)> = r.into_iter().map(|(a, b)| (a.max(lo), b.min(hi))).filter(|(a, b)| a < b).collect();
    r.sort();
    let mut out: Vec<(i64, i64)> = vec![];
    for (a, b) in r {
        if let Some(l) = out.last_mut() {
            if a <= l.1 {
                l.1 = l.1.max(b);
                continue;
            }
        }
        out.push((a, b));
    }
    out
}
fn nth_in_ranges(ranges: &[(i64, i64)], cum: &[u64], idx: u64) -> i64 {
    // cum[i] = number of values before range i
    let i = match cum.binary_search(&idx) {
        Ok(i) => i,
        Err(i) => i - 1,
    };
    ranges[i].0 + (idx - cum[i]) as i64
}
fn cumulate(ranges: &[(i64, i64)]) -> (Vec<u64>, u64) {
    let mut cum = vec![];
    let mut n = 0u64;
    for (a, b) in ranges {
        cum.push(n);
        n += (b - a) as u64;
    }
    (cum, n)
}

/// `acc.fail` without building the case when it could not be kept anyway (mass failures).
fn would_keep(acc: &Acc, idx: u64) -> bool {
    acc.fails.len() < 6 || acc.fails.last().map(|f| idx < f.idx).unwrap_or(true)
}

fn check_print_scan(idx: u64, s: i64, acc: &mut Acc) {
    acc.eval();
    let legal = s.abs() <= MAXD;
    if s != 0 {
        acc.nontrivial();
    }
    let want = arith::print_scaled(s);
    let case = || json!({"kind": "print-scan", "s": s});
    let r = catch(|| {
        let sc = Scaled(s as i32);
        let a = sc.to_string();
        let b = format!("{}", sc.display_no_units());
        let (c, d) = if legal { (Some(Scaled::parse_no_units(&b).map(|x| x.0 as i64).map_err(|_| ())), Some(Scaled::parse_from_string(&a).map(|x| x.0 as i64))) } else { (None, None) };
        (a, b, c, d)
    });
    match r {
        Err(p) => {
            acc.class("DISAGREE print/scan panics");
            dbgc("DISAGREE print/scan panics", &case());
            acc.fail(idx, case(), format!("{want}pt, scanning back to {s}"), p.describe(), "print or scan panicked")
        }
        Ok((a, b, c, d)) => {
            if b != want || a != format!("{want}pt") {
                acc.class("DISAGREE printed decimal differs from print_scaled");
                dbgc("DISAGREE printed decimal differs from print_scaled", &case());
                acc.fail(idx, case(), format!("{want}pt"), a, "Display differs from print_scaled (tex.web §103)");
                return;
            }
            if !legal {
                acc.count("printed_beyond_max_dimen");
                return;
            }
            let frac = s.abs() % 65536;
            if want.len() - want.find('.').unwrap() - 1 == 5 {
                acc.count("five_fraction_digits_needed");
            }
            if frac == 65535 || frac == 1 {
                acc.count("fraction_adjacent_to_an_integer");
            }
            if c != Some(Ok(s)) {
                acc.class("DISAGREE parse_no_units(print(s)) != s");
                dbgc("DISAGREE parse_no_units(print(s)) != s", &case());
                acc.fail(idx, case(), format!("parse_no_units({b:?}) = {s}"), format!("{c:?}"), "round trip through parse_no_units");
            }
            if d != Some(Ok(s)) {
                acc.class(if s < 0 { "DISAGREE parse_from_string(print(s)) != s for negative s" } else { "DISAGREE parse_from_string(print(s)) != s" });
                if would_keep(acc, idx) {
                    acc.fail(idx, case(), format!("parse_from_string({a:?}) = {s}"), format!("{d:?}"), "round trip through parse_from_string");
                } else {
                    acc.fail_count += 1;
                }
            }
        }
    }
}

// ------------------------------------------------------------------ VM cases

#[derive(Clone, Copy, Debug, PartialEq, Eq)]
enum Kind {
    Count,
    Dimen,
    Skip,
}
impl Kind {
    fn name(self) -> &'static str {
        match self {
            Kind::Count => "count",
            Kind::Dimen => "dimen",
            Kind::Skip => "skip",
        }
    }
    fn from(s: &str) -> Kind {
        match s {
            "count" => Kind::Count,
            "dimen" => Kind::Dimen,
            _ => Kind::Skip,
        }
    }
}

fn regs_json(r: &Regs) -> Value {
    json!({"count1": r.count1, "dimen1": r.dimen1, "skip1": [r.skip1.width, r.skip1.stretch, r.skip1.stretch_order, r.skip1.shrink, r.skip1.shrink_order]})
}
fn regs_from(v: &Value) -> Regs {
    let g = &v["skip1"];
    Regs {
        count1: v["count1"].as_i64().unwrap_or(0),
        dimen1: v["dimen1"].as_i64().unwrap_or(0),
        skip1: Glue { width: g[0].as_i64().unwrap_or(0), stretch: g[1].as_i64().unwrap_or(0), stretch_order: g[2].as_u64().unwrap_or(0) as u8, shrink: g[3].as_i64().unwrap_or(0), shrink_order: g[4].as_u64().unwrap_or(0) as u8 },
    }
}
fn regs_src(r: &Regs) -> String {
    format!("{}{}{}", set_count(1, r.count1), set_dimen(1, r.dimen1), set_skip(1, &r.skip1))
}

fn err_names(e: &[ScanError]) -> String {
    format!("{e:?}")
}

#[derive(Clone, Debug, PartialEq, Eq)]
struct ModelOut {
    value: String,
    rest: Option<String>,
    errors: Vec<ScanError>,
    undefined: bool,
}
/// Known deviations that stay (pinned by the repository's own tests), as switches of the model.
#[derive(Clone, Copy, Debug, PartialEq, Eq)]
enum Switch {
    Tex,
    /// D22b: an `l` after `fil` must follow immediately (TeX: each l is a keyword, spaces may precede)
    FilL,
    /// D33: the clamped value takes the sign of a negative internal unit (TeX: +max_dimen)
    ClampSign,
}
const KNOWN_SWITCHES: [(Switch, &str); 2] = [(Switch::FilL, "D22b"), (Switch::ClampSign, "D33")];
fn model_const(kind: Kind, toks: &[Tok], sw: Switch) -> ModelOut {
    let mut sc = Scanner::new(toks.to_vec());
    sc.em = 12 * 65536;
    sc.ex = 12 * 65536;
    sc.fil_l_skips_spaces = sw != Switch::FilL;
    sc.clamp_sign_follows_unit = sw == Switch::ClampSign;
    let value = match kind {
        Kind::Count => sc.scan_int().to_string(),
        Kind::Dimen => format!("{}pt", arith::print_scaled(sc.scan_dimen(false, None).0)),
        Kind::Skip => scanum::print_spec(&sc.scan_glue()),
    };
    let rest = sc.rest_text();
    ModelOut { value, rest, errors: sc.errors, undefined: sc.undefined }
}

/// The token list contains a non-decimal constant (`'` + octal digits, `"` + hex digits, `` ` `` + a
/// character or single-character control sequence) directly followed by `.` or `,` and a decimal digit.
fn nondecimal_fraction(toks: &[Tok]) -> bool {
    let digit = |t: &Tok, radix: u32| match t {
        Tok::Other(c) if c.is_ascii_digit() => (*c as u32 - '0' as u32) < radix,
        Tok::Other(c) | Tok::Letter(c) => radix == 16 && ('A'..='F').contains(c),
        _ => false,
    };
    for i in 0..toks.len() {
        let end = match &toks[i] {
            Tok::Other('\'') | Tok::Other('"') => {
                let radix = if toks[i] == Tok::Other('"') { 16 } else { 8 };
                let mut j = i + 1;
                while j < toks.len() && digit(&toks[j], radix) {
                    j += 1;
                }
                if j == i + 1 {
                    continue;
                }
                j
            }
            Tok::Other('`') => match toks.get(i + 1) {
                Some(Tok::Letter(_) | Tok::Other(_) | Tok::Cs(Some(_)) | Tok::Macro(Some(_), _)) => i + 2,
                _ => continue,
            },
            _ => continue,
        };
        if matches!(toks.get(end), Some(Tok::Other('.' | ','))) && matches!(toks.get(end + 1), Some(Tok::Other(c)) if c.is_ascii_digit()) {
            return true;
        }
    }
    false
}

/// `\<kind>0=<csrc>\relax|\the\<kind>0|` against the scanner model.
fn check_const(idx: u64, kind: Kind, regs: &Regs, csrc: &str, acc: &mut Acc) {
    acc.eval();
    let case = || json!({"kind": "const", "target": kind.name(), "regs": regs_json(regs), "constant": csrc, "program": program(kind, regs, csrc)});
    let mut toks = match lex(csrc, regs) {
        Ok(t) => t,
        Err(e) => {
            // a defect of the enumerator, not of the subject: surfaces through the vacuity of this counter's complement
            acc.class(&format!("HARNESS: source outside the lexer alphabet ({e})"));
            acc.count("harness_source_outside_alphabet");
            acc.skipped += 1;
            return;
        }
    };
    toks.push(Tok::Cs(None));
    let m = model_const(kind, &toks, Switch::Tex);
    let Some(rest) = m.rest.clone() else {
        acc.skipped += 1;
        return;
    };
    // counters and non-triviality from the model
    if !m.errors.is_empty() || (m.value != "0" && m.value != "0.0pt") {
        acc.nontrivial();
    }
    for e in &m.errors {
        acc.count(match e {
            ScanError::DimensionTooLarge => "err_dimension_too_large",
            ScanError::NumberTooBig => "err_number_too_big",
            ScanError::MissingNumber => "err_missing_number",
            ScanError::IllegalUnit => "err_illegal_unit",
            ScanError::IllegalFil => "err_illegal_fil",
            ScanError::ImproperAlpha => "err_improper_alpha",
        });
    }
    if m.errors.is_empty() && (m.value == "16383.99998pt" || m.value == "-16383.99998pt") {
        acc.count("dimen_exactly_max_without_error");
    }
    if m.errors.is_empty() && (m.value == "2147483647" || m.value == "-2147483647") {
        acc.count("int_exactly_max_without_error");
    }
    if csrc.contains('`') && !csrc.is_ascii() {
        acc.count("alphabetic_constant_non_ascii");
    }
    if csrc.contains('\n') {
        acc.count("constant_spans_an_end_of_line");
    }
    let lower = csrc.to_ascii_lowercase();
    for (u, c) in [("pt", "unit_pt"), ("pc", "unit_pc"), ("in", "unit_in"), ("bp", "unit_bp"), ("cm", "unit_cm"), ("mm", "unit_mm"), ("dd", "unit_dd"), ("cc", "unit_cc"), ("sp", "unit_sp"), ("em", "unit_em"), ("ex", "unit_ex"), ("true", "unit_true"), ("fil", "unit_fil")] {
        if lower.contains(u) {
            acc.count(c);
        }
    }
    let outs = |m: &ModelOut| format!("{}|{}|", m.rest.clone().unwrap_or_default(), m.value);
    let want_out = format!("{rest}|{}|", m.value);
    let want = format!("{want_out:?} errors={}", err_names(&m.errors));
    let prog = program(kind, regs, csrc);
    match run_program(&prog) {
        Err(p) => {
            if m.undefined {
                acc.class("DISAGREE panic on an operand of -2^31 (outside TeX's integer range)");
                dbgc(&format!("panic on an operand of -2^31 at {}", p.source_line()), &case());
            } else {
                acc.class(&format!("DISAGREE panic at {}", p.source_line()));
                dbgc(&format!("DISAGREE panic at {}", p.source_line()), &case());
            }
            acc.fail(idx, case(), want, p.describe(), "the VM panicked while scanning a constant");
        }
        Ok(obs) => {
            if m.undefined {
                // tex.web negates -2^31 here (Pascal range violation): only "no panic" is required
                acc.class("operand -2^31: not defined by tex.web, no panic");
                acc.count("undefined_by_texweb_no_panic");
                return;
            }
            // Sub-domain judged precisely although TeX calls it malformed: an octal / hexadecimal / alphabetic
            // integer part directly followed by `.` or `,` and a digit. tex.web §448 scans a fraction only when
            // radix = 10, so the point is an illegal unit: "pt inserted", the integer is stored, `.5pt` is typeset.
            let nondecimal_fraction = nondecimal_fraction(&toks) && m.errors.iter().all(|e| matches!(e, ScanError::IllegalUnit | ScanError::DimensionTooLarge | ScanError::NumberTooBig | ScanError::IllegalFil));
            if nondecimal_fraction {
                acc.count("nondecimal_constant_followed_by_fraction");
            }
            if !nondecimal_fraction && m.errors.iter().any(|e| matches!(e, ScanError::MissingNumber | ScanError::ImproperAlpha | ScanError::IllegalUnit)) {
                // TeX itself finds no well-formed constant here (no digits, no unit): the crate makes some
                // of these fatal by design and is lenient for others (`1 .5pt`); the property quantifies over
                // constants and over values beyond the limits, so only "no panic" is required
                let lenient = obs.fatal.is_none() && obs.errors.is_empty();
                acc.class(if lenient { "malformed constant (TeX: Missing number / Illegal unit / Improper alphabetic constant), crate accepts it silently: no panic" } else { "malformed constant (TeX: Missing number / Illegal unit / Improper alphabetic constant), crate reports an error: no panic" });
                acc.count("malformed_constant_no_panic");
                if lenient && std::env::var_os("C06_CLASSES").is_some() {
                    dbgc("(not judged) malformed in TeX, accepted silently by the crate", &case());
                }
                return;
            }
            let kinds: Vec<Option<ScanError>> = obs.errors.iter().map(|t| error_kind(t)).collect();
            // Judged: the typeset left-over text and the stored value (clause "scan ... exactly as TeX": the
            // extent of the constant and its value), and WHETHER an error is raised (clauses "values beyond TeX's
            // limits produce the documented error and clamped value" / a well-formed constant in range raises
            // none). Which error type or title the crate uses and how many errors it raises for one constant
            // are the crate's choice: recorded as outcome classes only.
            let agrees = |m: &ModelOut| obs.fatal.is_none() && obs.out == outs(m) && kinds.is_empty() == m.errors.is_empty();
            if agrees(&m) {
                let same_kinds = kinds.len() == m.errors.len() && kinds.iter().zip(m.errors.iter()).all(|(a, b)| *a == Some(*b));
                acc.class(&format!("agree errors={}{}", err_names(&m.errors), if same_kinds { "" } else { " (crate's error kinds/count differ: recorded, not judged)" }));
                return;
            }
            // known deviations: the predicate is on the case (the switched model differs from TeX on it),
            // and the observation must equal the switched model exactly
            for (sw, id) in KNOWN_SWITCHES {
                let adj = model_const(kind, &toks, sw);
                if adj != m && adj.rest.is_none() {
                    // under the known deviation the text left over contains a register (it starts another
                    // assignment): outside the model's domain, exactly as when TeX's own rest does
                    acc.class(&format!("known deviation {id} leaves the domain (stray register): not judged"));
                    acc.skipped += 1;
                    return;
                }
                if adj != m && agrees(&adj) {
                    acc.class(&format!("known deviation {id}"));
                    acc.known(id, idx, || json!({"constant": csrc, "program": prog, "tex": want, "crate": format!("{:?} errors={}", outs(&adj), err_names(&adj.errors))}));
                    return;
                }
            }
            let kinds_ok = kinds.len() == m.errors.len() && kinds.iter().zip(m.errors.iter()).all(|(a, b)| *a == Some(*b));
            let got = format!("{:?} errors={:?}{}", obs.out, obs.errors, obs.fatal.as_ref().map(|f| format!(" FATAL {f}")).unwrap_or_default());
            let class = if obs.fatal.is_some() {
                "run ends with a fatal error".to_string()
            } else if obs.out != want_out && kinds_ok {
                "value or leftover text differs, same errors".to_string()
            } else if obs.out == want_out {
                format!("same value, errors differ: TeX {} / crate {:?}", err_names(&m.errors), kinds)
            } else {
                format!("value and errors differ: TeX {} / crate {:?}", err_names(&m.errors), kinds)
            };
            acc.class(&format!("DISAGREE {class}"));
            dbgc(&format!("DISAGREE {class}"), &case());
            acc.fail(idx, case(), want, got, class);
        }
    }
}
/// The constant is the last thing of the input: `\<kind>0=<csrc>` <end of input>, then a second source
/// prints the register. Judged (value, left-over text, error raised) when the model never asks for a token
/// beyond the end-of-line space of the last line; otherwise what TeX does depends on input that does not
/// exist, and only "no panic" is required.
fn check_const_eof(idx: u64, kind: Kind, csrc: &str, acc: &mut Acc) {
    acc.eval();
    let regs = default_regs();
    let k = kind.name();
    let first = format!("{PREAMBLE}{}\\{k}0={csrc}", regs_src(&regs));
    let second = format!("\\relax|\\the\\{k}0|");
    let case = || json!({"kind": "const-eof", "target": k, "constant": csrc, "program": first, "second": second});
    // the last line ends with its end-of-line character (a space token unless the lexer is skipping blanks)
    let Ok(toks) = lex(&format!("{csrc}\n"), &regs) else {
        acc.skipped += 1;
        return;
    };
    let mut sc = Scanner::new(toks);
    sc.em = 12 * 65536;
    sc.ex = 12 * 65536;
    let value = match kind {
        Kind::Count => sc.scan_int().to_string(),
        Kind::Dimen => format!("{}pt", arith::print_scaled(sc.scan_dimen(false, None).0)),
        Kind::Skip => scanum::print_spec(&sc.scan_glue()),
    };
    let decided = !sc.hit_end && !sc.undefined && !sc.errors.iter().any(|e| matches!(e, ScanError::MissingNumber | ScanError::ImproperAlpha | ScanError::IllegalUnit));
    let rest = if decided { sc.rest_text() } else { None };
    acc.nontrivial();
    acc.count(if decided { "constant_complete_at_end_of_input" } else { "constant_cut_off_by_end_of_input" });
    let r = catch(|| {
        let mut vm = vtex::new_vm();
        let a = vtex::run(&mut vm, &first);
        let errs = vm.state.env.errs.get();
        let b = vtex::run(&mut vm, &second);
        (a, errs, b)
    });
    match r {
        Err(p) => {
            acc.class(&format!("DISAGREE panic at {}", p.source_line()));
            acc.fail(idx, case(), "no panic", p.describe(), "the VM panicked on a constant at the end of the input");
        }
        Ok((a, errs, b)) => {
            let (Some(rest), true) = (rest, decided) else {
                acc.class("constant cut off by the end of the input: no panic");
                return;
            };
            let want = format!("{rest:?} then {:?} errors>0: {}", format!("|{value}|"), !sc.errors.is_empty());
            let got_rest = a.out.strip_suffix(' ').unwrap_or(&a.out).to_string();
            // the end-of-line space of the last line is typeset unless the scanner consumed it
            let rest_trim = rest.strip_suffix(' ').unwrap_or(&rest).to_string();
            let got_val = b.out.strip_suffix(' ').unwrap_or(&b.out).to_string();
            if a.err.is_none() && b.err.is_none() && got_rest == rest_trim && got_val == format!("|{value}|") && ((errs > 0) == !sc.errors.is_empty()) {
                acc.class("agree (constant at the end of the input)");
            } else {
                acc.class("DISAGREE constant at the end of the input");
                acc.fail(idx, case(), want, format!("{:?} then {:?} errors={errs} fatal={:?}/{:?}", a.out, b.out, a.err, b.err), "value / left-over text / error presence differ for a constant that ends the input");
            }
        }
    }
}
fn program(kind: Kind, regs: &Regs, csrc: &str) -> String {
    let k = kind.name();
    format!("{PREAMBLE}{}\\{k}0={csrc}\\relax|\\the\\{k}0|", regs_src(regs))
}

// ------------------------------------------------------------------ (b) menus

fn fractions(maxlen: u32) -> Vec<String> {
    let mut v: Vec<String> = vec!["".into(), ",".into(), ",5".into(), ",99999".into()];
    for l in 0..=maxlen {
        for i in 0..10u64.pow(l) {
            v.push(if l == 0 { ".".into() } else { format!(".{:0w$}", i, w = l as usize) });
        }
    }
    for l in (maxlen + 1).max(4)..=20 {
        let l = l as usize;
        v.push(format!(".{}", "9".repeat(l)));
        v.push(format!(".{}1", "0".repeat(l - 1)));
        v.push(format!(".4{}", "9".repeat(l - 1)));
        v.push(format!(".5{}", "0".repeat(l - 1)));
    }
    // exact binary fractions and their neighbours: 2^-17 is the rounding tie of the last bit
    for s in [".00000762939453125", ".0000076293945312", ".0000076293945313", ".00001525878906250", ".99999237060546875", ".999992370605468749", ".99998474121093750"] {
        v.push(s.into());
    }
    v
}
const BASE_UNITS: [&str; 11] = ["pt", "pc", "in", "bp", "cm", "mm", "dd", "cc", "sp", "em", "ex"];
fn all_units() -> Vec<&'static str> {
    let mut v: Vec<&'static str> = BASE_UNITS.to_vec();
    v.extend([
        " pt", "\\s\\s pt", "\\s cm", "PT", "Pt", "truept", "true pt", "true\\s\\s mm", " true cm", "TRUE in", "truesp", "trueem", "true", "xy", "", " ", "p t", "pt ", "pt  ", "pt\\s\\s ", "em ", "\\dimen1 ", " \\dimen1 ", "\\count1 ", "\\skip1 ", "fil", "mu", "\\b c", "\\s\\b m", "pt→", "pt\n", "pt%\n", "pt \n ", "\npt", "%\n pt",
    ]);
    v
}
const SIGNS: [&str; 6] = ["", "-", "+", "--", "- +-", " -"];
fn int_parts() -> Vec<&'static str> {
    vec![
        "", "0", "1", "7", "00019", "16383", "16384", "1073741823", "1073741824", "2147483647", "2147483648", "99999999999999999999", "\\d ", "1\\d ",
        "'0", "'7", "'37777", "'40000", "'7777777777", "'10000000000", "'17777777777", "'20000000000", "'8", "'",
        "\"FG", "'78", "\"0", "\"7", "\"3FFF", "\"4000", "\"3FFFFFFF", "\"40000000", "\"7FFFFFFF", "\"80000000", "\"a", "\"A", "\"",
        "`a", "`1", "`\\q ", "`\\b ", "`\\relax ", "`é", "`→", "`𝔸", "`\\→", "`\u{10FFFF}", "16385", "1073741825",
        "\\count1 ", "\\dimen1 ", "\\skip1 ",
    ]
}
fn boundary_fractions() -> Vec<&'static str> {
    vec!["", ".", ".5", ".99999", ".999999", ".0000076", ".00000762939453125", ".99999999999999999999", ",5", " .5"]
}
fn default_regs() -> Regs {
    Regs { count1: 7, dimen1: 98304, skip1: Glue { width: 131072, stretch: 65536, stretch_order: 1, shrink: 3, shrink_order: 0 } }
}

fn lattice() -> Vec<i64> {
    let mut v: Vec<i64> = vec![0, 1, 2, 3, 7, 10, 1000, 46340, 46341, MAXI - 1, MAXI];
    for k in [8u32, 14, 15, 16, 29, 30] {
        let p = 1i64 << k;
        v.extend([p - 1, p, p + 1]);
    }
    let mut l: Vec<i64> = v.iter().flat_map(|x| [*x, -*x]).collect();
    l.push(MINI);
    l.sort();
    l.dedup();
    l
}
fn glue_lattice() -> Vec<Glue> {
    let g = |width, stretch, stretch_order, shrink, shrink_order| Glue { width, stretch, stretch_order, shrink, shrink_order };
    vec![
        g(0, 0, 0, 0, 0),
        g(65536, 0, 0, 0, 0),
        g(-98304, 32768, 0, 3, 0),
        g(65536, 65536, 1, 0, 0),
        g(65536, 65536, 2, 65536, 1),
        g(0, -65536, 3, 65536, 3),
        g(7, 0, 1, 0, 2),  // zero stretch/shrink that nevertheless carry an order
        g(0, 0, 3, 65536, 0),
        g(MAXD, MAXD, 0, MAXD, 0),
        g(-MAXD, MAXD, 1, -MAXD, 2),
        g(MAXD + 1, 1, 0, 1, 0),
        g(MAXI, 65536, 2, 65536, 2),
        g(MINI, 0, 0, 0, 0),
        g(3, 1 << 29, 1, (1 << 29) + 1, 0),
    ]
}

// ------------------------------------------------------------------ (c) arithmetic through the VM

#[derive(Clone, Copy, Debug, PartialEq, Eq)]
enum Op {
    Advance,
    Multiply,
    Divide,
}
const OPS: [Op; 3] = [Op::Advance, Op::Multiply, Op::Divide];
impl Op {
    fn name(self) -> &'static str {
        match self {
            Op::Advance => "advance",
            Op::Multiply => "multiply",
            Op::Divide => "divide",
        }
    }
    fn from(s: &str) -> Op {
        match s {
            "advance" => Op::Advance,
            "multiply" => Op::Multiply,
            _ => Op::Divide,
        }
    }
}
const VARIANTS: [&str; 3] = ["plain", "global", "group"];

/// Model of §1236-1240 on a count or dimen register. Err(()) = "Arithmetic overflow", value unchanged.
/// None = tex.web is undefined (an operand of -2^31 is negated).
fn model_arith(kind: Kind, op: Op, a: i64, b: i64) -> Option<Result<i64, ()>> {
    match op {
        Op::Advance => {
            if kind == Kind::Dimen && b.abs() > MAXD {
                // the operand comes from a register that \advance pushed beyond the legal range: tex.web §448
                // (attach_sign) reports "Dimension too large" and continues with +max_dimen
                if b == MINI {
                    return None;
                }
                return Some(Ok(scanum::wrap32(a + MAXD)));
            }
            Some(Ok(scanum::wrap32(a + b)))
        }
        Op::Multiply => {
            if a == MINI || b == MINI {
                return None;
            }
            Some(if kind == Kind::Count { arith::mult_integers(a, b) } else { arith::nx_plus_y(a, b, 0) })
        }
        Op::Divide => {
            if b == 0 {
                return Some(Err(()));
            }
            if a == MINI || b == MINI {
                return None;
            }
            Some(arith::x_over_n(a, b).map(|x| x.0))
        }
    }
}

fn show(kind: Kind, v: i64) -> String {
    if kind == Kind::Count {
        v.to_string()
    } else {
        format!("{}pt", arith::print_scaled(v))
    }
}

fn arith_program(kind: Kind, op: Op, a: i64, b: i64, variant: &str) -> String {
    let k = kind.name();
    let mut p = String::from(PREAMBLE);
    p.push_str(&if kind == Kind::Count { set_count(1, a) } else { set_dimen(1, a) });
    let rhs = if op == Op::Advance && kind == Kind::Dimen {
        if b.abs() <= MAXD {
            format!("{b}sp")
        } else {
            p.push_str(&set_dimen(2, b));
            "\\dimen2 ".to_string()
        }
    } else if b == MINI {
        p.push_str(&set_count(2, b));
        "\\count2 ".to_string()
    } else {
        format!("{b}")
    };
    let core = format!("\\{} \\{k}1 by {rhs}\\relax|\\the\\{k}1|", op.name());
    match variant {
        "plain" => p.push_str(&core),
        "global" => p.push_str(&format!("{{\\global{core}}}\\the\\{k}1|")),
        _ => p.push_str(&format!("{{{core}}}\\the\\{k}1|")),
    }
    p
}

fn check_arith(idx: u64, kind: Kind, op: Op, a: i64, b: i64, variant: &str, acc: &mut Acc) {
    acc.eval();
    let prog = arith_program(kind, op, a, b, variant);
    let case = || json!({"kind": "arith", "target": kind.name(), "op": op.name(), "a": a, "b": b, "variant": variant, "program": prog});
    let m = model_arith(kind, op, a, b);
    let limit = if kind == Kind::Count || op != Op::Multiply { MAXI } else { MAXD };
    if let Some(r) = &m {
        match r {
            Ok(v) if *v != a => acc.nontrivial(),
            Err(()) => acc.nontrivial(),
            _ => {}
        }
        match (op, r) {
            (Op::Multiply, Ok(v)) if v.abs() == limit => acc.count("product_exactly_at_limit"),
            (Op::Multiply, Err(())) if (a * b).abs() == limit + 1 => acc.count("product_one_beyond_limit"),
            (Op::Advance, Ok(v)) if *v != a + b && b.abs() <= MAXD => acc.count("advance_wraps"),
            (Op::Divide, Ok(v)) if b != 0 && a % b != 0 && (a < 0) != (b < 0) && *v * b != a => acc.count("division_truncates_toward_zero_negative"),
            (Op::Divide, Err(())) => acc.count("division_by_zero"),
            _ => {}
        }
    }
    let (want_out, want_errs): (Option<String>, usize) = match &m {
        None => (None, 0),
        Some(r) => {
            let (new, errs) = match r {
                Ok(v) => (*v, if op == Op::Advance && kind == Kind::Dimen && b.abs() > MAXD { 1 } else { 0 }),
                Err(()) => (a, 1),
            };
            let o = match variant {
                "plain" => format!("|{}|", show(kind, new)),
                "global" => format!("|{}|{}|", show(kind, new), show(kind, new)),
                _ => format!("|{}|{}|", show(kind, new), show(kind, a)),
            };
            (Some(o), errs)
        }
    };
    match run_program(&prog) {
        Err(p) => {
            acc.class(&format!("DISAGREE panic at {}", p.source_line()));
            dbgc(&format!("DISAGREE panic at {}", p.source_line()), &case());
            acc.fail(idx, case(), format!("{want_out:?} errors={want_errs}"), p.describe(), if m.is_none() { "panic (operand -2^31 is outside TeX's range; the requirement is: no panic)" } else { "panic" });
        }
        Ok(obs) => {
            let Some(want_out) = want_out else {
                acc.class("operand -2^31: not defined by tex.web, no panic");
                acc.count("undefined_by_texweb_no_panic");
                return;
            };
            // Judged: the value printed right after the operation, and WHETHER an error is raised ("error and
            // no change on \\multiply overflow or division by zero", "silent wrap-around on \\advance"). The
            // value after the group ends (variants global / group) is C01's subject, error titles and the
            // number of errors are the crate's choice: recorded as classes only.
            let first = |s: &str| s.split('|').nth(1).unwrap_or("").to_string();
            let titles_ok = obs.errors.iter().all(|t| t.starts_with("overflow in checked") || t == "division by zero" || t.starts_with("expected a dimension in the range"));
            if obs.fatal.is_none() && first(&obs.out) == first(&want_out) && (obs.errors.is_empty() == (want_errs == 0)) {
                let mut note = String::new();
                if obs.out != want_out {
                    note.push_str(" (value after the group differs: C01, not judged here)");
                }
                if obs.errors.len() != want_errs || !titles_ok {
                    note.push_str(" (error titles/count differ: not judged)");
                }
                acc.class(&format!("agree {} {} errors={want_errs}{note}", op.name(), kind.name()));
            } else {
                let class = if obs.out != want_out && obs.errors.len() == want_errs {
                    "value differs"
                } else if obs.errors.len() < want_errs && op == Op::Advance {
                    "TeX reports 'Dimension too large' for an operand register beyond +-(2^30-1) and adds max_dimen, crate adds the raw value silently"
                } else if obs.errors.len() < want_errs {
                    "TeX reports arithmetic overflow, crate accepts"
                } else if obs.errors.len() > want_errs {
                    "crate reports an error, TeX accepts"
                } else {
                    "other"
                };
                acc.class(&format!("DISAGREE \\{} \\{}: {class}", op.name(), kind.name()));
                dbgc(&format!("DISAGREE \\{} \\{}: {class}", op.name(), kind.name()), &case());
                acc.fail(idx, case(), format!("{want_out:?} errors={want_errs}"), format!("{:?} errors={:?} fatal={:?}", obs.out, obs.errors, obs.fatal), class);
            }
        }
    }
}

/// Glue: `\skip1=<g> \op\skip1 by <rhs>`; rhs is a glue (advance, given by `\skip2`) or an integer.
fn model_glue(op: Op, g: &Glue, rhs_g: &Glue, n: i64) -> Option<Result<Glue, ()>> {
    match op {
        Op::Advance => {
            let mut q = scanum::add_glue(rhs_g, g);
            q.width = scanum::wrap32(q.width);
            q.stretch = scanum::wrap32(q.stretch);
            q.shrink = scanum::wrap32(q.shrink);
            Some(Ok(q))
        }
        Op::Multiply => {
            if n == MINI || g.width == MINI || g.stretch == MINI || g.shrink == MINI {
                return None;
            }
            // §1240: nx_plus_y(width(s), cur_val, 0) for each component; arith_error is sticky
            let w = arith::nx_plus_y(g.width, n, 0);
            let st = arith::nx_plus_y(g.stretch, n, 0);
            let sh = arith::nx_plus_y(g.shrink, n, 0);
            Some(match (w, st, sh) {
                (Ok(w), Ok(st), Ok(sh)) => Ok(Glue { width: w, stretch: st, shrink: sh, ..*g }),
                _ => Err(()),
            })
        }
        Op::Divide => {
            if n == 0 {
                return Some(Err(()));
            }
            if n == MINI || g.width == MINI || g.stretch == MINI || g.shrink == MINI {
                return None;
            }
            Some(Ok(Glue { width: arith::x_over_n(g.width, n).unwrap().0, stretch: arith::x_over_n(g.stretch, n).unwrap().0, shrink: arith::x_over_n(g.shrink, n).unwrap().0, ..*g }))
        }
    }
}
fn glue_program(op: Op, g: &Glue, rhs_g: &Glue, n: i64, followup: bool) -> String {
    let mut p = String::from(PREAMBLE);
    p.push_str(&set_skip(1, g));
    let rhs = if op == Op::Advance {
        p.push_str(&set_skip(2, rhs_g));
        "\\skip2 ".to_string()
    } else if n == MINI {
        p.push_str(&set_count(2, n));
        "\\count2 ".to_string()
    } else {
        format!("{n}")
    };
    p.push_str(&format!("\\{} \\skip1 by {rhs}\\relax|\\the\\skip1|", op.name()));
    if followup {
        // make orders that are hidden behind a zero stretch/shrink visible
        p.push_str("\\advance\\skip1 by 0pt plus 1pt minus 1pt\\relax\\the\\skip1|");
    }
    p
}
fn check_glue_arith(idx: u64, op: Op, gi: usize, ri: usize, n: i64, acc: &mut Acc) {
    acc.eval();
    let gl = glue_lattice();
    let (g, rhs_g) = (gl[gi], gl[ri]);
    let prog = glue_program(op, &g, &rhs_g, n, true);
    let case = || json!({"kind": "glue-arith", "op": op.name(), "g": gi, "rhs": ri, "n": n, "program": prog});
    let m = model_glue(op, &g, &rhs_g, n);
    let probe = Glue { width: 0, stretch: 65536, stretch_order: 0, shrink: 65536, shrink_order: 0 };
    let followup = |x: &Glue| {
        let mut q = scanum::add_glue(&probe, x);
        q.width = scanum::wrap32(q.width);
        q.stretch = scanum::wrap32(q.stretch);
        q.shrink = scanum::wrap32(q.shrink);
        scanum::print_spec(&q)
    };
    if let Some(r) = &m {
        match r {
            Ok(v) if *v != g => acc.nontrivial(),
            Err(()) => acc.nontrivial(),
            _ => {}
        }
        if op == Op::Advance {
            if rhs_g.stretch == 0 && rhs_g.stretch_order > 0 || rhs_g.shrink == 0 && rhs_g.shrink_order > 0 {
                acc.count("glue_sum_zero_component_with_order_scanned");
            }
            if g.stretch == 0 && g.stretch_order > rhs_g.stretch_order || g.shrink == 0 && g.shrink_order > rhs_g.shrink_order {
                acc.count("glue_sum_zero_component_with_higher_order_in_register");
            }
            if g.stretch_order != rhs_g.stretch_order {
                acc.count("glue_sum_orders_differ");
            }
        }
    }
    let want: Option<(String, usize)> = m.map(|r| match r {
        Ok(v) => (format!("|{}|{}|", scanum::print_spec(&v), followup(&v)), 0),
        Err(()) => (format!("|{}|{}|", scanum::print_spec(&g), followup(&g)), 1),
    });
    match run_program(&prog) {
        Err(p) => {
            acc.class(&format!("DISAGREE panic at {}", p.source_line()));
            dbgc(&format!("DISAGREE panic at {}", p.source_line()), &case());
            acc.fail(idx, case(), format!("{want:?}"), p.describe(), if m.is_none() { "panic (operand -2^31 is outside TeX's range; the requirement is: no panic)" } else { "panic" });
        }
        Ok(obs) => {
            let Some((want_out, want_errs)) = want else {
                acc.class("operand -2^31: not defined by tex.web, no panic");
                acc.count("undefined_by_texweb_no_panic");
                return;
            };
            if obs.fatal.is_none() && obs.out == want_out && (obs.errors.is_empty() == (want_errs == 0)) {
                acc.class(&format!("agree {} skip errors={want_errs}", op.name()));
            } else {
                let first = |s: &str| s.split('|').nth(1).unwrap_or("").to_string();
                let class = if obs.errors.len() < want_errs {
                    "TeX reports arithmetic overflow, crate accepts"
                } else if obs.errors.len() > want_errs {
                    "crate reports an error, TeX accepts"
                } else if first(&obs.out) != first(&want_out) {
                    "value differs"
                } else {
                    "same printed value, but a later \\advance shows that a zero stretch/shrink kept its order (tex.web §1239)"
                };
                acc.class(&format!("DISAGREE \\{} \\skip: {class}", op.name()));
                dbgc(&format!("DISAGREE \\{} \\skip: {class}", op.name()), &case());
                acc.fail(idx, case(), format!("{want_out:?} errors={want_errs}"), format!("{:?} errors={:?} fatal={:?}", obs.out, obs.errors, obs.fatal), class);
            }
        }
    }
}

/// Print -> scan through the VM: `\dimen0=<s>sp \dimen2=\the\dimen0 \the\dimen2`, 8 values per program.
fn check_vm_roundtrip(idx: u64, vals: &[i64], acc: &mut Acc) {
    acc.eval();
    acc.nontrivial();
    let mut prog = String::from(PREAMBLE);
    let mut want = String::new();
    for s in vals {
        prog.push_str(&set_dimen(0, *s));
        prog.push_str("\\dimen2=\\the\\dimen0 \\relax\\the\\dimen0,\\the\\dimen2;");
        let p = arith::print_scaled(*s);
        if s.abs() <= MAXD {
            want.push_str(&format!("{p}pt,{p}pt;"));
        } else {
            // printable but not scannable: "Dimension too large", clamped
            want.push_str(&format!("{p}pt,{}16383.99998pt;", if *s < 0 { "-" } else { "" }));
        }
    }
    let nerr = vals.iter().filter(|s| s.abs() > MAXD).count();
    let case = || json!({"kind": "vm-roundtrip", "values": vals, "program": prog});
    match run_program(&prog) {
        Err(p) => acc.fail(idx, case(), want, p.describe(), "panic"),
        Ok(obs) => {
            // an error must be raised iff some value is beyond the limit; how many is not judged
            if obs.out != want || obs.fatal.is_some() || (obs.errors.is_empty() != (nerr == 0)) {
                acc.class("DISAGREE \\the\\dimen does not scan back");
                dbgc("DISAGREE \\the\\dimen does not scan back", &case());
                acc.fail(idx, case(), format!("{want} errors={nerr}"), format!("{} errors={:?} fatal={:?}", obs.out, obs.errors, obs.fatal), "\\dimen2=\\the\\dimen0 does not reproduce the value");
            }
        }
    }
}

// ------------------------------------------------------------------ (c) kernels

fn kernel_ranges(quick: bool) -> Vec<(i64, i64)> {
    if !quick {
        return vec![(MINI, MAXI + 1)];
    }
    let mut r: Vec<(i64, i64)> = vec![(-(1 << 20), 1 << 20)];
    for k in 20..=31u32 {
        let p = 1i64 << k;
        r.push((p - 4096, p + 4096));
        r.push((-p - 4096, -p + 4096));
    }
    merge_ranges(r, MINI, MAXI + 1)
}
/// Multipliers / divisors of the sweeps. -2^31 is not here: it is outside TeX's range for every x, and is
/// exercised by the `kernel-extremes` family on the lattice instead.
const KM: [i64; 23] = [-MAXI, -(MAXD + 1), -MAXD, -65537, -65536, -65535, -255, -7, -3, -2, -1, 0, 1, 2, 3, 7, 255, 65535, 65536, 65537, MAXD, MAXD + 1, MAXI];
fn kernel_multipliers() -> &'static [i64; 23] {
    &KM
}
const XN_PAIRS: [(i64, i64); 14] = [(1, 1), (12, 1), (7227, 100), (7227, 7200), (7227, 254), (7227, 2540), (1238, 1157), (14856, 1157), (0, 65536), (1, 65536), (32768, 65536), (65535, 65536), (65536, 65536), (1000, 2000)];
const NXY_Y: [i64; 5] = [0, 1, -1, MAXD, -MAXD];
/// (n, y) pairs of the nx_plus_y sweep: every multiplier with y = 0, the small multipliers with every y.
fn nxy_pairs() -> &'static Vec<(i64, i64)> {
    static P: std::sync::OnceLock<Vec<(i64, i64)>> = std::sync::OnceLock::new();
    P.get_or_init(|| {
        let mut v: Vec<(i64, i64)> = KM.iter().map(|n| (*n, 0)).collect();
        for n in [-7i64, -3, -2, -1, 1, 2, 3, 7] {
            for y in &NXY_Y[1..] {
                v.push((n, *y));
            }
        }
        for n in [65536i64, -65536, MAXD] {
            v.push((n, 1));
            v.push((n, -1));
        }
        v
    })
}

#[derive(Clone, Copy, Debug, PartialEq, Eq)]
enum Kernel {
    NxPlusY,
    XnOverD,
    Div,
}
type KOut = Result<(i64, i64), ()>;
fn kernel_impl(k: Kernel, x: i64, p: usize) -> KOut {
    let sx = Scaled(x as i32);
    match k {
        Kernel::NxPlusY => {
            let (n, y) = nxy_pairs()[p];
            sx.nx_plus_y(n as i32, Scaled(y as i32)).map(|s| (s.0 as i64, 0)).map_err(|_| ())
        }
        Kernel::XnOverD => {
            let (n, d) = XN_PAIRS[p];
            sx.xn_over_d(n as i32, d as i32).map(|(q, r)| (q.0 as i64, r.0 as i64)).map_err(|_| ())
        }
        Kernel::Div => {
            let n = kernel_multipliers()[p];
            sx.checked_div(n as i32).map(|s| (s.0 as i64, 0)).ok_or(())
        }
    }
}
/// None: tex.web undefined for these operands (an operand is -2^31).
fn kernel_model(k: Kernel, x: i64, p: usize) -> Option<KOut> {
    match k {
        Kernel::NxPlusY => {
            let (n, y) = nxy_pairs()[p];
            if x == MINI || n == MINI {
                return None;
            }
            Some(arith::nx_plus_y(n, x, y).map(|v| (v, 0)))
        }
        Kernel::XnOverD => {
            let (n, d) = XN_PAIRS[p];
            if x == MINI {
                return None;
            }
            Some(arith::xn_over_d(x, n, d))
        }
        Kernel::Div => {
            let n = kernel_multipliers()[p];
            if n == 0 {
                return Some(Err(()));
            }
            if x == MINI || n == MINI {
                return None;
            }
            Some(arith::x_over_n(x, n).map(|v| (v.0, 0)))
        }
    }
}
fn kernel_params(k: Kernel) -> usize {
    match k {
        Kernel::NxPlusY => nxy_pairs().len(),
        Kernel::XnOverD => XN_PAIRS.len(),
        Kernel::Div => kernel_multipliers().len(),
    }
}
fn kernel_name(k: Kernel) -> &'static str {
    match k {
        Kernel::NxPlusY => "nx_plus_y",
        Kernel::XnOverD => "xn_over_d",
        Kernel::Div => "checked_div",
    }
}
fn kernel_from(s: &str) -> Kernel {
    match s {
        "nx_plus_y" => Kernel::NxPlusY,
        "xn_over_d" => Kernel::XnOverD,
        _ => Kernel::Div,
    }
}
fn kernel_param_json(k: Kernel, p: usize) -> Value {
    match k {
        Kernel::NxPlusY => json!({"n": nxy_pairs()[p].0, "y": nxy_pairs()[p].1}),
        Kernel::XnOverD => json!({"n": XN_PAIRS[p].0, "d": XN_PAIRS[p].1}),
        Kernel::Div => json!({"n": kernel_multipliers()[p]}),
    }
}
fn check_kernel_one(idx: u64, k: Kernel, x: i64, p: usize, acc: &mut Acc) {
    let m = kernel_model(k, x, p);
    let case = || json!({"kind": "kernel", "kernel": kernel_name(k), "x": x, "p": p, "param": kernel_param_json(k, p)});
    match catch(|| kernel_impl(k, x, p)) {
        Err(pn) => {
            acc.class(&format!("DISAGREE {} panics at {}", kernel_name(k), pn.source_line()));
            dbgc(&format!("DISAGREE {} panics at {}", kernel_name(k), pn.source_line()), &case());
            acc.fail(idx, case(), format!("{m:?}"), pn.describe(), if m.is_none() { "panic (operand -2^31 is outside TeX's range; the requirement is: no panic)" } else { "panic" })
        }
        Ok(got) => {
            if let Some(want) = m {
                if got != want {
                    acc.class(&format!("DISAGREE {} value", kernel_name(k)));
                    dbgc(&format!("DISAGREE {} value", kernel_name(k)), &case());
                    acc.fail(idx, case(), format!("{want:?}"), format!("{got:?}"), "kernel differs from tex.web §105-107");
                }
            }
        }
    }
}
/// All parameters for the values of one index range; the common path runs under one `catch`.
fn check_kernel_range(k: Kernel, ranges: &[(i64, i64)], cum: &[u64], r: std::ops::Range<u64>, acc: &mut Acc) {
    let np = kernel_params(k);
    // fast path: 4096 values under one catch; fall back to per-case on any disagreement or panic
    let mut lo = r.start;
    while lo < r.end {
        let hi = (lo + 4096).min(r.end);
        let batch_ok = catch(|| {
            let mut counts = (0u64, 0u64, 0u64); // (evals, nontrivial, overflow)
            for idx in lo..hi {
                let x = nth_in_ranges(ranges, cum, idx);
                for p in 0..np {
                    let m = kernel_model(k, x, p);
                    let got = kernel_impl(k, x, p);
                    counts.0 += 1;
                    if let Some(w) = m {
                        if w != got {
                            return (false, counts);
                        }
                        if w.is_err() {
                            counts.2 += 1;
                        }
                        counts.1 += 1;
                    }
                }
            }
            (true, counts)
        });
        match batch_ok {
            Ok((true, c)) => {
                acc.evals += c.0;
                acc.nontrivial += c.1;
                acc.count_n("kernel_overflow_or_div0_cases", c.2);
            }
            _ => {
                for idx in lo..hi {
                    let x = nth_in_ranges(ranges, cum, idx);
                    for p in 0..np {
                        acc.eval();
                        match kernel_model(k, x, p) {
                            Some(Err(())) => {
                                acc.count("kernel_overflow_or_div0_cases");
                                acc.nontrivial();
                            }
                            Some(Ok(_)) => acc.nontrivial(),
                            None => {}
                        }
                        check_kernel_one(idx, k, x, p, acc);
                    }
                }
            }
        }
        lo = hi;
    }
}

fn check_extreme(idx: u64, which: usize, x: i64, n: i64, y: i64, acc: &mut Acc) {
    acc.eval();
    let undefined = x == MINI || n == MINI;
    let case = || json!({"kind": "extreme", "which": which, "x": x, "n": n, "y": y});
    let sx = Scaled(x as i32);
    let (name, want, got): (&str, Option<Result<i64, ()>>, Result<Result<i64, ()>, vcore::Panic>) = match which {
        0 => ("nx_plus_y", if undefined { None } else { Some(arith::nx_plus_y(n, x, y)) }, catch(|| sx.nx_plus_y(n as i32, Scaled(y as i32)).map(|s| s.0 as i64).map_err(|_| ()))),
        1 => ("checked_mul", if undefined { None } else { Some(arith::nx_plus_y(n, x, 0)) }, catch(|| sx.checked_mul(n as i32).map(|s| s.0 as i64).ok_or(()))),
        _ => ("checked_div", if n == 0 { Some(Err(())) } else if undefined { None } else { Some(arith::x_over_n(x, n).map(|v| v.0)) }, catch(|| sx.checked_div(n as i32).map(|s| s.0 as i64).ok_or(()))),
    };
    if want.is_some() {
        acc.nontrivial();
    } else {
        acc.count("undefined_by_texweb_no_panic");
    }
    match got {
        Err(p) => {
            acc.class(&format!("DISAGREE {name} panics at {}", p.source_line()));
            acc.fail(idx, case(), format!("{want:?}"), p.describe(), if want.is_none() { "panic (operand -2^31 is outside TeX's range; the requirement is: no panic)" } else { "panic" })
        }
        Ok(g) => {
            if let Some(w) = want {
                if w != g {
                    acc.class(&format!("DISAGREE {name} value"));
                    acc.fail(idx, case(), format!("{w:?}"), format!("{g:?}"), "kernel differs from tex.web §105-106");
                }
            }
        }
    }
}

fn check_decimal_digits(idx: u64, digits: &[u8], acc: &mut Acc) {
    acc.eval();
    let want = arith::round_decimals(digits);
    if want != 0 {
        acc.nontrivial();
    }
    if want == 65536 {
        acc.count("fraction_rounds_up_to_one");
    }
    let case = || json!({"kind": "digits", "digits": digits});
    match catch(|| Scaled::from_decimal_digits(digits).0 as i64) {
        Err(p) => acc.fail(idx, case(), want.to_string(), p.describe(), "panic"),
        Ok(got) => {
            if got != want {
                acc.class("DISAGREE from_decimal_digits");
                dbgc("DISAGREE from_decimal_digits", &case());
                acc.fail(idx, case(), want.to_string(), got.to_string(), "from_decimal_digits differs from round_decimals (tex.web §102)");
            }
        }
    }
}

const UNITS9: [(ScaledUnit, &str); 9] = [
    (ScaledUnit::Point, "pt"),
    (ScaledUnit::Pica, "pc"),
    (ScaledUnit::Inch, "in"),
    (ScaledUnit::BigPoint, "bp"),
    (ScaledUnit::Centimeter, "cm"),
    (ScaledUnit::Millimeter, "mm"),
    (ScaledUnit::DidotPoint, "dd"),
    (ScaledUnit::Cicero, "cc"),
    (ScaledUnit::ScaledPoint, "sp"),
];
/// `Scaled::new(int, frac, unit)` against §453-458 run on "<int><unit>" with the fraction injected.
fn model_new(int: i64, frac: i64, unit: &str) -> Result<i64, ()> {
    // the same arithmetic as Scanner::scan_dimen after the constant was scanned
    let (mut cur_val, mut f) = (int, frac);
    let conv = match unit {
        "pt" => None,
        "pc" => Some((12, 1)),
        "in" => Some((7227, 100)),
        "bp" => Some((7227, 7200)),
        "cm" => Some((7227, 254)),
        "mm" => Some((7227, 2540)),
        "dd" => Some((1238, 1157)),
        "cc" => Some((14856, 1157)),
        _ => {
            return if cur_val >= 1 << 30 { Err(()) } else { Ok(cur_val) };
        }
    };
    if let Some((num, denom)) = conv {
        let (q, rem) = arith::xn_over_d(cur_val, num, denom)?;
        cur_val = q;
        f = (num * f + 65536 * rem) / denom;
        cur_val += f / 65536;
        f %= 65536;
    }
    if cur_val >= 0o40000 {
        return Err(());
    }
    let v = cur_val * 65536 + f;
    if v >= 1 << 30 {
        Err(())
    } else {
        Ok(v)
    }
}
fn check_new(idx: u64, int: i64, frac: i64, u: usize, acc: &mut Acc) {
    acc.eval();
    let (unit, name) = UNITS9[u];
    let want = model_new(int, frac, name);
    if want != Ok(0) {
        acc.nontrivial();
    }
    if want.is_err() {
        acc.count("scaled_new_overflow");
    } else if want == Ok(MAXD) {
        acc.count("scaled_new_exactly_max");
    }
    let case = || json!({"kind": "new", "int": int, "frac": frac, "unit": u});
    match catch(|| Scaled::new(int as i32, Scaled(frac as i32), unit).map(|s| s.0 as i64).map_err(|_| ())) {
        Err(p) => {
            acc.class(&format!("DISAGREE Scaled::new panics at {}", p.source_line()));
            dbgc(&format!("DISAGREE Scaled::new panics at {}", p.source_line()), &case());
            acc.fail(idx, case(), format!("{want:?}"), p.describe(), "panic")
        }
        Ok(got) => {
            if got != want {
                acc.class(&format!("DISAGREE Scaled::new {name}"));
                dbgc(&format!("DISAGREE Scaled::new {name}"), &case());
                acc.fail(idx, case(), format!("{want:?}"), format!("{got:?}"), "Scaled::new differs from tex.web §453-458");
            }
        }
    }
}

// ------------------------------------------------------------------ main

fn self_validate(ctx: &mut Ctx) {
    let lexd = |s: &str| {
        let mut t = lex(s, &default_regs()).unwrap();
        t.push(Tok::Cs(None));
        let mut sc = Scanner::new(t);
        sc.em = 12 << 16;
        sc.ex = 12 << 16;
        sc
    };
    let mut bad = vec![];
    // crates/texlang/src/parse/dimen.rs: parse_success_tests / parse_failure_tests
    for (s, v, nerr) in [
        ("0.075in", 355207i64, 0usize), // units_in_3
        ("1 in", 65536 * 7227 / 100, 0), // units_in_2
        ("1cm", 65536 * 7227 / 254, 0), // units_cm
        ("1mm", 65536 * 7227 / 2540, 0), // units_mm
        ("1bp", 65536 * 7227 / 7200, 0), // units_bp
        ("1dd", 65536 * 1238 / 1157, 0), // units_dd
        ("1cc", 65536 * 14856 / 1157, 0), // units_cc
        ("1.999999sp", 1, 0), // units_sp_2
        ("16383.99998pt", MAXD, 0), // nearly_overflow_pt
        ("1073741823.99999999sp", MAXD, 0), // nearly_overflow_sp_2
        ("16384pt", MAXD, 1), // overflow_pt
        ("-300000000in", -MAXD, 1), // overflow_in_4
        ("-1073741824sp", -MAXD, 1), // overflow_sp_neg
        ("1xy", 65536, 1), // invalid_unit
    ] {
        let mut sc = lexd(s);
        let got = sc.scan_dimen(false, None).0;
        if got != v || sc.errors.len() != nerr {
            bad.push(format!("scan_dimen({s}) = {got} errors {:?}, repository test expects {v} with {nerr} error(s)", sc.errors));
        }
    }
    // crates/texlang/src/parse/integer.rs: parse_success_tests / parse_failure_tests
    for (s, v, nerr) in [("'17777777777", MAXI, 0usize), ("-\"7FFFFFFF", -MAXI, 0), ("`A", 65, 0), ("  -  - 4", 4, 0), ("00019", 19, 0), ("2147483648", MAXI, 1), ("-5000000000000", -MAXI, 1), ("'177777777770", MAXI, 1), ("\"", 0, 1), ("A", 0, 1)] {
        let mut sc = lexd(s);
        let got = sc.scan_int();
        if got != v || sc.errors.len() != nerr {
            bad.push(format!("scan_int({s}) = {got} errors {:?}, repository test expects {v} with {nerr} error(s)", sc.errors));
        }
    }
    // crates/texlang/src/parse/glue.rs: stretch_filll, stretch_overflow_2, stretch_fillll
    for (s, want, nerr) in [("1pt plus 1filll", "1.0pt plus 1.0filll", 0usize), ("1pt plus -30000000fil", "1.0pt plus -16383.99998fil", 1), ("1pt plus 2fillll", "1.0pt plus 2.0filll", 1)] {
        let mut sc = lexd(s);
        let g = sc.scan_glue();
        if scanum::print_spec(&g) != want || sc.errors.len() != nerr {
            bad.push(format!("scan_glue({s}) = {} errors {:?}, repository test expects {want}", scanum::print_spec(&g), sc.errors));
        }
    }
    // crates/common/src/lib.rs: print_smallest_scaled, parse_no_units_tests
    if arith::print_scaled(MINI) != "-32768.0" || arith::print_scaled(18205) != "0.27779" {
        bad.push("print_scaled differs from the repository's recorded values".into());
    }
    // crates/texlang-stdlib/src/math.rs tests: \divide truncation, \multiply overflow
    if model_arith(Kind::Count, Op::Divide, -7, 2) != Some(Ok(-3)) || model_arith(Kind::Count, Op::Multiply, 100000, 100000) != Some(Err(())) {
        bad.push("arithmetic model differs from the repository's math tests".into());
    }
    for b in bad {
        ctx.machinery_error(format!("model self-validation: {b}"));
    }
}

fn main() {
    let mut ctx = Ctx::new("C06", Level::Exploration);
    ctx.assume("\\mag is 1000 (the crate has no \\mag): `true` is scanned and changes nothing, as tex.web §457 does for mag=1000");
    ctx.assume("em and ex are 12pt (TexlangState defaults of the harness state); the model takes them as parameters");
    ctx.assume("operands equal to -2^31 are outside TeX's integer range (tex.web negates them, a Pascal range violation): for them only 'no panic' is required, except for \\advance where the property states wrap-around");
    ctx.assume("unit and glue keywords are written with category-11 letters; character codes above 255 are legal in alphabetic constants (Unicode engine)");
    ctx.assume("texts in which TeX itself finds no well-formed constant (no digit: 'Missing number'; no unit: 'Illegal unit of measure'; 'Improper alphabetic constant') are outside the property's quantifier (the crate deliberately makes some of these fatal and is lenient for others): only 'no panic' is required for them; error recovery is C09's subject. Exception, judged precisely (value, errors, left-over text): a non-decimal integer part directly followed by `.`/`,` and digits, where tex.web §448 scans no fraction");
    ctx.assume("mu units and \\fontdimen-dependent em/ex are outside the crate's surface");
    self_validate(&mut ctx);

    if let Some((_fam, case)) = ctx.replay_case() {
        let mut acc = Acc::default();
        replay(&case, &mut acc);
        ctx.finish_replay(acc);
    }
    let quick = ctx.quick();

    // (a) print / scan of every scaled value
    {
        let ranges = value_ranges(quick);
        let (cum, n) = cumulate(&ranges);
        let bounds = if quick { "scaled values of both signs with |s| < 2^24, within 2^16 of 2^k (k=24..31), within 64 of every multiple of 65536; print for all, scan back for |s| <= 2^30-1" } else { "all 2^32 scaled values: print for all, scan back (parse_no_units, parse_from_string) for all 2^31-1 values |s| <= 2^30-1" };
        let (r, c) = (&ranges, &cum);
        ctx.family_ranges("print-scan", bounds, n, |rg, acc| {
            for idx in rg {
                let m = nth_in_ranges(r, c, idx);
                if m <= MAXI {
                    check_print_scan(idx, m, acc);
                }
                if m > 0 {
                    check_print_scan(idx, -m, acc);
                }
            }
        });
    }
    // (a') the same round trip through \the and the VM's scanner
    {
        let mut vals: Vec<i64> = (-ctx.pick(2048i64, 65536)..=ctx.pick(2048, 65536)).collect();
        for k in 11..=31u32 {
            for d in -ctx.pick(8i64, 64)..=ctx.pick(8, 64) {
                for s in [1i64, -1] {
                    let v = s * (1i64 << k) + d;
                    if (MINI..=MAXI).contains(&v) {
                        vals.push(v);
                    }
                }
            }
        }
        vals.sort();
        vals.dedup();
        let chunks: Vec<Vec<i64>> = vals.chunks(8).map(|c| c.to_vec()).collect();
        let ch = &chunks;
        ctx.family("vm-print-scan", &format!("\\dimen2=\\the\\dimen0 for {} values: |s| <= {} and +-{} around +-2^k (k=11..31), 8 per program", vals.len(), ctx.pick(2048, 65536), ctx.pick(8, 64)), chunks.len() as u64, |i, acc| check_vm_roundtrip(i, &ch[i as usize], acc));
    }
    // (b1) every short fraction in every unit
    {
        let fr = fractions(ctx.pick(2, 4));
        let signs = ["", "-"];
        let ints = ["", "0", "1", "16383"];
        let rad = [signs.len() as u64, ints.len() as u64, fr.len() as u64, BASE_UNITS.len() as u64];
        let f = &fr;
        ctx.family("const-dimen-fractions", &format!("\\dimen0=<sign><int><frac><unit>: signs {signs:?} x integer parts {ints:?} x {} fractions (every digit string of length <= {}, 9..9 / 0..01 / 49..9 / 50..0 up to 20 digits, binary ties, continental commas) x 11 units", fr.len(), ctx.pick(2, 4)), vcore::product(&rad), |i, acc| {
            let d = vcore::digits(i, &rad);
            let src = format!("{}{}{}{}", signs[d[0] as usize], ints[d[1] as usize], f[d[2] as usize], BASE_UNITS[d[3] as usize]);
            check_const(i, Kind::Dimen, &default_regs(), &src, acc);
            if i % 4099 == 17 {
                acc.sample(i, || json!({"constant": src}));
            }
        });
    }
    // (b2) boundaries: every sign string x integer part x boundary fraction x unit spelling
    {
        let ints = int_parts();
        let fr: Vec<&str> = if quick { vec!["", ".5", ".999999", ".00000762939453125", ",5", " .5"] } else { boundary_fractions() };
        let units = all_units();
        let signs: Vec<&str> = if quick { vec!["", "-", "- +-", " -"] } else { SIGNS.to_vec() };
        let rad = [signs.len() as u64, ints.len() as u64, fr.len() as u64, units.len() as u64];
        let (ints, fr, units, signs) = (&ints, &fr, &units, &signs);
        ctx.family("const-dimen-boundaries", &format!("\\dimen0=<sign><int><frac><unit>: {} sign strings x {} integer parts (decimal/octal/hex/alphabetic/internal at 0,1,7,16383,16384,2^30-1,2^30,2^31-1,2^31, 20 digits, empty, vacuous) x {} fractions x {} unit spellings (all units, true, upper case, spaces, macros expanding to spaces, internal quantities as units, unknown)", signs.len(), ints.len(), fr.len(), units.len()), vcore::product(&rad), |i, acc| {
            let d = vcore::digits(i, &rad);
            let src = format!("{}{}{}{}", signs[d[0] as usize], ints[d[1] as usize], fr[d[2] as usize], units[d[3] as usize]);
            check_const(i, Kind::Dimen, &default_regs(), &src, acc);
        });
    }
    // (b3) integer constants
    {
        let ints = int_parts();
        let tails = ["", " ", "  ", "\\s\\s ", "pt", ".5", " 1", "A", "a"];
        let rad = [SIGNS.len() as u64, ints.len() as u64, tails.len() as u64];
        let ints = &ints;
        ctx.family("const-int", &format!("\\count0=<sign><int><tail>: {} sign strings x {} integer parts x tails {tails:?}", SIGNS.len(), ints.len()), vcore::product(&rad), |i, acc| {
            let d = vcore::digits(i, &rad);
            let src = format!("{}{}{}", SIGNS[d[0] as usize], ints[d[1] as usize], tails[d[2] as usize]);
            check_const(i, Kind::Count, &default_regs(), &src, acc);
        });
    }
    // (b3') every sign string: all strings over {+, -, space} up to a length, in front of every kind of body
    {
        let maxlen = ctx.pick(3u32, 5);
        let n_signs = vcore::strings_upto(3, maxlen);
        let bodies: [(Kind, &str); 16] = [
            (Kind::Count, "7"), (Kind::Count, "'7"), (Kind::Count, "\"7"), (Kind::Count, "`a"), (Kind::Count, "\\count1 "), (Kind::Count, "\\dimen1 "), (Kind::Count, "\\skip1 "), (Kind::Count, "2147483648"),
            (Kind::Dimen, "7pt"), (Kind::Dimen, ".5pt"), (Kind::Dimen, "\\dimen1 "), (Kind::Dimen, "2\\skip1 "), (Kind::Dimen, "\\count1 sp"), (Kind::Dimen, "16384pt"),
            (Kind::Skip, "\\skip1 "), (Kind::Skip, "1pt plus 2fil"),
        ];
        let rad = [n_signs, bodies.len() as u64, 2];
        ctx.family("const-signs", &format!("every sign string over {{+, -, space}} of length <= {maxlen} ({n_signs}) x 16 bodies (decimal / octal / hex / alphabetic / internal count, dimen, skip as integer, dimension and glue; overflowing values) x {{as is, the same signs also in front of the stretch}}"), vcore::product(&rad), |i, acc| {
            let d = vcore::digits(i, &rad);
            let signs: String = vcore::nth_string(3, d[0]).into_iter().map(|x| ['+', '-', ' '][x as usize]).collect();
            let (kind, body) = bodies[d[1] as usize];
            let src = if d[2] == 1 && kind == Kind::Skip && body.contains("plus ") { format!("{signs}{}", body.replace("plus ", &format!("plus {signs}"))) } else if d[2] == 1 { format!("{signs}{body} ") } else { format!("{signs}{body}") };
            let minus = signs.chars().filter(|c| *c == '-').count();
            if minus >= 2 {
                acc.count("sign_string_with_two_or_more_minus");
            }
            if signs.len() >= 3 && signs.contains(' ') {
                acc.count("sign_string_len3_with_space");
            }
            check_const(i, kind, &default_regs(), &src, acc);
        });
    }
    // (b3'') constants that end where the input ends (no token follows the last line)
    {
        let consts = ["1pt", "1pt ", "-1.5pt", "1", "1.", "1p", "-", "'", "`", "`a", "7", "'7", "\"7F", "\\count1 ", "\\dimen1 ", "\\skip1 ", "1\\dimen1 ", "1pt plus", "1pt plus 1fil", "1pt plus 1fi", "1pt plus 1fil minus 2fill", "16384pt", "2147483648", "1true", "1 truept", "1em"];
        let kinds = [Kind::Count, Kind::Dimen, Kind::Skip];
        let rad = [kinds.len() as u64, consts.len() as u64];
        ctx.family("const-at-end-of-input", &format!("\\<count|dimen|skip>0=<c> as the last thing of the input ({} constants, complete and cut off at every stage), value read by a second source", consts.len()), vcore::product(&rad), |i, acc| {
            let d = vcore::digits(i, &rad);
            check_const_eof(i, kinds[d[0] as usize], consts[d[1] as usize], acc);
        });
    }
    // (b4) glue
    {
        let widths = ["0pt", "1pt", "-1.5pt ", "16384pt", "\\dimen1 ", "\\count1 pt", "-\\count1 sp", "\\skip1 ", "-\\skip1 ", "1", ".5\\dimen1 "];
        let comps = [
            "", "1pt", "1fil", " 1.5fill", "-2filll", "1fillll", "1fil l", "1 fil", "1FIL", "1fil ", "30000000fil", "-30000000fill", "0fil", "\\dimen1 ", "1\\dimen1 ", "-.5\\skip1 ", "1fi", "1", "\\count1 fil", "16383.99999fil", "\\s\\s 2filll", "1true pt", "1em", "1truefil", "\"A.5pt", "'7,5fil", "`a.25fill",
        ];
        let kws = [("plus", "minus"), (" plus ", " minus "), ("\\s\\s plus", "\\s\\s minus"), ("PLUS", "Minus")];
        let rad = [widths.len() as u64, comps.len() as u64, comps.len() as u64, kws.len() as u64];
        ctx.family("const-glue", &format!("\\skip0=<width> plus <stretch> minus <shrink>: {} widths x {} stretch x {} shrink components (all orders, fillll, `fil l`, overflow, internal quantities, missing units) x {} keyword spellings/spacings", widths.len(), comps.len(), comps.len(), kws.len()), vcore::product(&rad), |i, acc| {
            let d = vcore::digits(i, &rad);
            let (kp, km) = kws[d[3] as usize];
            let mut src = widths[d[0] as usize].to_string();
            if !comps[d[1] as usize].is_empty() {
                src.push_str(kp);
                src.push_str(comps[d[1] as usize]);
            }
            if !comps[d[2] as usize].is_empty() {
                src.push_str(km);
                src.push_str(comps[d[2] as usize]);
            }
            check_const(i, Kind::Skip, &default_regs(), &src, acc);
        });
    }
    // (b5) coercions and internal quantities as units, over the operand lattice
    {
        let lat = lattice();
        let targets = [Kind::Count, Kind::Dimen, Kind::Skip];
        let signs = ["", "-", "--"];
        let heads = ["", "1", "2.5", "0", ".99999", "16384", "2147483647"];
        let internals = ["\\count1 ", "\\dimen1 ", "\\skip1 "];
        let tails = ["", "pt", "sp", " plus\\count1 fil"];
        let rad = [targets.len() as u64, signs.len() as u64, heads.len() as u64, internals.len() as u64, lat.len() as u64, tails.len() as u64];
        let lat = &lat;
        ctx.family("const-internal", &format!("\\<count|dimen|skip>0=<sign><head><internal><tail>: signs {signs:?} x heads {heads:?} x internal count/dimen/skip holding each of {} lattice values (incl. +-2^30, +-(2^31-1), -2^31) x tails {tails:?}", lat.len()), vcore::product(&rad), |i, acc| {
            let d = vcore::digits(i, &rad);
            let v = lat[d[4] as usize];
            let regs = Regs { count1: v, dimen1: v, skip1: Glue { width: v, stretch: 65536, stretch_order: 1, shrink: -3, shrink_order: 0 } };
            let src = format!("{}{}{}{}", signs[d[1] as usize], heads[d[2] as usize], internals[d[3] as usize], tails[d[5] as usize]);
            check_const(i, targets[d[0] as usize], &regs, &src, acc);
        });
    }
    // (c1) arithmetic on count and dimen
    {
        let lat = lattice();
        let kinds = [Kind::Count, Kind::Dimen];
        let rad = [VARIANTS.len() as u64, kinds.len() as u64, OPS.len() as u64, lat.len() as u64, lat.len() as u64];
        let lat = &lat;
        ctx.family("arith-count-dimen", &format!("\\advance/\\multiply/\\divide on \\count1 and \\dimen1: all pairs of a {}-value lattice (0, +-1,2,3,7,10,1000,46340,46341, +-(2^k-1),2^k,2^k+1 for k=8,14,15,16,29,30, +-(2^31-2), +-(2^31-1), -2^31) x plain / \\global in a group / local in a group", lat.len()), vcore::product(&rad), |i, acc| {
            let d = vcore::digits(i, &rad);
            check_arith(i, kinds[d[1] as usize], OPS[d[2] as usize], lat[d[3] as usize], lat[d[4] as usize], VARIANTS[d[0] as usize], acc);
            if i % 5003 == 11 {
                acc.sample(i, || json!({"program": arith_program(kinds[d[1] as usize], OPS[d[2] as usize], lat[d[3] as usize], lat[d[4] as usize], VARIANTS[d[0] as usize])}));
            }
        });
    }
    // (c2) arithmetic on glue
    {
        let gl = glue_lattice();
        let lat = lattice();
        let n_adv = (gl.len() * gl.len()) as u64;
        let n_md = (gl.len() * lat.len() * 2) as u64;
        let (gl, lat) = (&gl, &lat);
        ctx.family("arith-skip", &format!("\\advance\\skip1 by \\skip2 for all pairs of {} glue values (4 orders, zero components that carry an order, extreme widths) + \\multiply/\\divide\\skip1 by each of {} lattice integers; a follow-up \\advance by `0pt plus 1pt minus 1pt` exposes hidden orders", gl.len(), lat.len()), n_adv + n_md, |i, acc| {
            if i < n_adv {
                check_glue_arith(i, Op::Advance, (i / gl.len() as u64) as usize, (i % gl.len() as u64) as usize, 0, acc);
            } else {
                let j = i - n_adv;
                let d = vcore::digits(j, &[2, gl.len() as u64, lat.len() as u64]);
                check_glue_arith(i, if d[0] == 0 { Op::Multiply } else { Op::Divide }, d[1] as usize, 0, lat[d[2] as usize], acc);
            }
        });
    }
    // (c3) kernels
    {
        let ranges = kernel_ranges(quick);
        let (cum, n) = cumulate(&ranges);
        let what = if quick { "x over |x| < 2^20 and +-4096 around +-2^k (k=20..31)" } else { "x over all 2^32 values" };
        for k in [Kernel::NxPlusY, Kernel::XnOverD, Kernel::Div] {
            let (r, c) = (&ranges, &cum);
            let params = match k {
                Kernel::NxPlusY => format!("(n,y) in {:?}", nxy_pairs()),
                Kernel::XnOverD => format!("(n,d) in {:?}", XN_PAIRS),
                Kernel::Div => format!("n in {:?}", kernel_multipliers()),
            };
            ctx.family_ranges(&format!("kernel-{}", kernel_name(k)), &format!("Scaled::{}: {what}; {params}", kernel_name(k)), n, |rg, acc| check_kernel_range(k, r, c, rg, acc));
        }
        // every kernel on the lattice squared, including -2^31 on either side (only "no panic" is required there)
        {
            let lat = lattice();
            let rad = [3, lat.len() as u64, lat.len() as u64, NXY_Y.len() as u64];
            let lat = &lat;
            ctx.family("kernel-extremes", &format!("nx_plus_y(x; n, y), checked_mul(x; n), checked_div(x; n) for x, n over the {}-value lattice (incl. -2^31) and y in {:?}", lat.len(), NXY_Y), vcore::product(&rad), |i, acc| {
                let d = vcore::digits(i, &rad);
                check_extreme(i, d[0] as usize, lat[d[1] as usize], lat[d[2] as usize], NXY_Y[d[3] as usize], acc);
            });
        }
        // from_decimal_digits
        let maxlen = ctx.pick(5u32, 7);
        let n_short = vcore::strings_upto(10, maxlen);
        let pats: Vec<Vec<u8>> = {
            let mut v = vec![];
            for l in 1..=17usize {
                for lead in 0..10u8 {
                    for fill in [0u8, 9, 4, 5] {
                        for last in [0u8, 1, 4, 5, 9] {
                            let mut s = vec![fill; l];
                            s[0] = lead;
                            s[l - 1] = last;
                            v.push(s);
                        }
                    }
                }
            }
            v
        };
        let p = &pats;
        ctx.family("kernel-from_decimal_digits", &format!("every digit string of length <= {maxlen}; lengths 1..17 with lead digit x fill 0/9/4/5 x last digit 0/1/4/5/9"), n_short + pats.len() as u64, |i, acc| {
            if i < n_short {
                let s: Vec<u8> = vcore::nth_string(10, i).into_iter().map(|x| x as u8).collect();
                check_decimal_digits(i, &s, acc);
            } else {
                check_decimal_digits(i, &p[(i - n_short) as usize], acc);
            }
        });
        // Scaled::new
        let ints: Vec<i64> = {
            let mut v: Vec<i64> = (0..ctx.pick(20000i64, 1 << 21)).collect();
            for k in 14..=31u32 {
                for d in -ctx.pick(64i64, 4096)..=ctx.pick(64, 4096) {
                    let x = (1i64 << k) + d;
                    if x <= MAXI {
                        v.push(x);
                    }
                }
            }
            // the overflow boundary of every unit: 16384*d/n
            for (n, d) in XN_PAIRS.iter().take(8) {
                let b = 16384 * d / n;
                for x in b - 3..=b + 3 {
                    v.push(x);
                }
            }
            v.sort();
            v.dedup();
            v
        };
        let fracs: Vec<i64> = if quick { vec![0, 1, 2, 32767, 32768, 65534, 65535] } else { (0..65536).step_by(257).chain([1, 2, 32767, 32768, 65534, 65535]).collect() };
        let rad = [ints.len() as u64, fracs.len() as u64, 9];
        let (ints, fracs) = (&ints, &fracs);
        ctx.family("kernel-scaled-new", &format!("Scaled::new(int, frac, unit): {} integer parts (0..{}, windows around 2^k for k=14..31, the overflow boundary of every unit) x {} fractions x 9 units", ints.len(), ctx.pick(20000, 1 << 21), fracs.len()), vcore::product(&rad), |i, acc| {
            let d = vcore::digits(i, &rad);
            check_new(i, ints[d[0] as usize], fracs[d[1] as usize], d[2] as usize, acc);
        });
    }

    dump_classes();
    ctx.require("five_fraction_digits_needed", "print_scaled needs all five fraction digits");
    ctx.require("fraction_adjacent_to_an_integer", "fraction part is 1 or 65535 sp (rounding next to a carry)");
    ctx.require("printed_beyond_max_dimen", "values beyond 2^30-1 are printed");
    ctx.require("err_dimension_too_large", "a constant overflows 2^30 sp");
    ctx.require("dimen_exactly_max_without_error", "a constant equals +-(2^30-1) sp exactly");
    ctx.require("err_number_too_big", "an integer constant overflows 2^31-1");
    ctx.require("int_exactly_max_without_error", "an integer constant equals +-(2^31-1)");
    ctx.require("err_illegal_unit", "unknown unit");
    ctx.require("err_illegal_fil", "fillll");
    ctx.require("err_missing_number", "vacuous constant");
    ctx.require("alphabetic_constant_non_ascii", "alphabetic constant of a 2-, 3- or 4-byte character");
    ctx.require("constant_spans_an_end_of_line", "an end of line (or a comment) inside or right after a constant");
    ctx.require("sign_string_with_two_or_more_minus", "sign string with several minus signs");
    ctx.require("sign_string_len3_with_space", "sign string of three characters with an interior or leading space");
    ctx.require("constant_complete_at_end_of_input", "a complete constant is the last thing of the input");
    ctx.require("constant_cut_off_by_end_of_input", "the input ends inside a constant");
    ctx.require("nondecimal_constant_followed_by_fraction", "an octal / hex / alphabetic integer part directly followed by a decimal point and digits (judged precisely)");
    for u in ["unit_pt", "unit_pc", "unit_in", "unit_bp", "unit_cm", "unit_mm", "unit_dd", "unit_cc", "unit_sp", "unit_em", "unit_ex", "unit_true", "unit_fil"] {
        ctx.require(u, "the unit is exercised");
    }
    ctx.require("product_exactly_at_limit", "\\multiply result is exactly the largest legal value");
    ctx.require("product_one_beyond_limit", "\\multiply result is one beyond the largest legal value");
    ctx.require("advance_wraps", "\\advance leaves the 32-bit range");
    ctx.require("division_truncates_toward_zero_negative", "\\divide of operands with different signs and a remainder");
    ctx.require("division_by_zero", "\\divide by 0");
    ctx.require("glue_sum_orders_differ", "glue sum with different orders");
    ctx.require("glue_sum_zero_component_with_order_scanned", "glue sum where the scanned glue has a zero component of infinite order");
    ctx.require("glue_sum_zero_component_with_higher_order_in_register", "glue sum where the register has a zero component of higher order");
    ctx.require("kernel_overflow_or_div0_cases", "kernel sweep reaches the overflow side");
    ctx.require("fraction_rounds_up_to_one", "a decimal fraction rounds to 65536 sp (carry into the integer part)");
    ctx.require("scaled_new_overflow", "unit conversion overflows");
    ctx.require("undefined_by_texweb_no_panic", "operands of -2^31 were exercised");
    ctx.finish("print/scan: every scaled value in the stated ranges (non-trivial = non-zero); constants: full products of the stated menus (non-trivial = non-zero value or an error in the model); arithmetic: all lattice pairs (non-trivial = the value changes or an error is raised); kernels: every x in the stated ranges for every listed parameter (non-trivial = operands inside TeX's range)");
}

fn replay(case: &Value, acc: &mut Acc) {
    match case["kind"].as_str() {
        Some("print-scan") => check_print_scan(0, case["s"].as_i64().unwrap(), acc),
        Some("const") => check_const(0, Kind::from(case["target"].as_str().unwrap()), &regs_from(&case["regs"]), case["constant"].as_str().unwrap(), acc),
        Some("const-eof") => check_const_eof(0, Kind::from(case["target"].as_str().unwrap()), case["constant"].as_str().unwrap(), acc),
        Some("arith") => check_arith(0, Kind::from(case["target"].as_str().unwrap()), Op::from(case["op"].as_str().unwrap()), case["a"].as_i64().unwrap(), case["b"].as_i64().unwrap(), VARIANTS.iter().find(|v| **v == case["variant"].as_str().unwrap()).unwrap(), acc),
        Some("glue-arith") => check_glue_arith(0, Op::from(case["op"].as_str().unwrap()), case["g"].as_u64().unwrap() as usize, case["rhs"].as_u64().unwrap() as usize, case["n"].as_i64().unwrap(), acc),
        Some("vm-roundtrip") => {
            let v: Vec<i64> = case["values"].as_array().unwrap().iter().map(|x| x.as_i64().unwrap()).collect();
            check_vm_roundtrip(0, &v, acc)
        }
        Some("kernel") => {
            acc.eval();
            check_kernel_one(0, kernel_from(case["kernel"].as_str().unwrap()), case["x"].as_i64().unwrap(), case["p"].as_u64().unwrap() as usize, acc)
        }
        Some("extreme") => check_extreme(0, case["which"].as_u64().unwrap() as usize, case["x"].as_i64().unwrap(), case["n"].as_i64().unwrap(), case["y"].as_i64().unwrap(), acc),
        Some("digits") => {
            let d: Vec<u8> = case["digits"].as_array().unwrap().iter().map(|x| x.as_u64().unwrap() as u8).collect();
            check_decimal_digits(0, &d, acc)
        }
        Some("new") => check_new(0, case["int"].as_i64().unwrap(), case["frac"].as_i64().unwrap(), case["unit"].as_u64().unwrap() as usize, acc),
        _ => {
            eprintln!("replay: unknown case kind");
            std::process::exit(2);
        }
    }
}
