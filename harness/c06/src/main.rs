//! C06 — not built yet.
fn main() {
    eprintln!("c06: check not built yet");
    std::process::exit(2);
}
