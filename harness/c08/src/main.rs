//! C08 — not built yet.
fn main() {
    eprintln!("c08: check not built yet");
    std::process::exit(2);
}
