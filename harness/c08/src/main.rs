//! C08 — checkpoint transparency: serialise a VM at a line boundary, deserialise it with the same
//! built-ins (JSON, MessagePack, bincode), continue: same output, same errors, same final values.
//! Engine: fault enumeration (every line boundary of every program x every format). DESIGN.md §3 C08.
//!
//! Oracles
//!  1. differential: run(P1) in a VM; then run(P2;Q) in that same VM (reference) and in each VM
//!     obtained from it by serialise+deserialise. Q is an observer that prints every target the
//!     fragments touch and then closes every open conditional and group one at a time, printing
//!     again after each close (so values saved in open groups are observed too).
//!     The single-source run(P;Q) is compared as well (it must equal the reference).
//!  2. structural (recorded, not judged): serialise(deserialise(serialise(vm))) vs serialise(vm) as canonical
//!     JSON values. The statement speaks about behaviour on further input, not about the representation, so a
//!     difference is an outcome class and a counter; that the restored VM can be serialised again IS judged.

use serde_json::{json, Value};
use vcore::{Acc, Ctx, Level};
use vtex::{Format, RunOut, FORMATS};

// ---------------------------------------------------------------- fragments

#[derive(Clone, Copy)]
struct Frag {
    text: &'static str,
    /// change of the number of open groups / conditionals
    dg: i32,
    dc: i32,
    /// member of the reduced alphabet (one fragment per state component)
    core: bool,
    /// what the fragment leaves behind (used for the vacuity counters, computed from the case)
    tags: &'static [&'static str],
}

const fn f(text: &'static str, dg: i32, dc: i32, core: bool, tags: &'static [&'static str]) -> Frag {
    Frag { text, dg, dc, core, tags }
}

/// One-line fragments. Every fragment ends in a space, a brace or a character token so that a
/// changed \endlinechar never glues to a control word.
const FRAGS: &[Frag] = &[
    f("\\def\\a{A1}", 0, 0, true, &["def-a", "local"]),
    f("\\gdef\\a{A2}", 0, 0, false, &["def-a"]),
    f("\\catcode`\\~=13 \\def~{T1}", 0, 0, true, &["active-def", "local"]),
    f("\\let~=\\a ", 0, 0, false, &["active-def", "let-a", "local"]),
    f("\\def\\m#1#2.{#2#1}", 0, 0, false, &["macro-params", "local"]),
    f("\\let\\b=\\a ", 0, 0, true, &["let-a", "local"]),
    f("\\let\\c=\\the ", 0, 0, true, &["alias-expansion", "local"]),
    f("\\let\\d=\\def ", 0, 0, false, &["alias-execution", "local"]),
    f("\\let\\e=x", 0, 0, false, &["alias-char", "local"]),
    f("\\let\\newname=\\relax ", 0, 0, false, &["interner", "local"]),
    // interner edge names: the EMPTY control-sequence name (a backslash that ends a line while \endlinechar=-1;
    // a three-line fragment, its inner line ends are not checkpoints because \def is still scanning there),
    // a one-character non-ASCII name, and names that are prefixes of each other (\a, \ab, \abc)
    f("\\endlinechar=-1 \n\\def\\\n{E0}\\endlinechar=13\\relax ", 0, 0, true, &["empty-name", "local"]),
    f("\\def\\é{E1}", 0, 0, false, &["edge-name", "local", "pairs-only"]),
    f("\\def\\ab{E2}", 0, 0, false, &["edge-name", "local", "pairs-only"]),
    f("\\def\\abc{E3}", 0, 0, false, &["edge-name", "local", "pairs-only"]),
    // FIRST and LAST element of every indexed piece of state: registers 0 and 32767 / 255 directly, through
    // aliases, and as the current value inside an open group (the outer value sits in the save stack)
    f("\\count0=70 \\count32767=71 \\dimen0=7pt \\dimen32767=8pt \\skip0=7pt plus 1pt \\skip32767=8pt minus 1pt \\toks0={t0}\\toks255={t255}\\count32766=76 \\toks254={t254}", 0, 0, false, &["first-last", "local", "pairs-only"]),
    f("\\countdef\\cy=0 \\cy=72 \\countdef\\cz=32767 \\cz=73 \\toksdef\\ty=0 \\ty={ty}\\toksdef\\tz=255 \\tz={tz}", 0, 0, false, &["first-last", "alias-variable", "local", "pairs-only"]),
    f("{\\count0=74 \\count32767=75 \\dimen32767=9pt \\skip32767=9pt plus 2fil \\toks0={g0}\\toks255={g255}", 1, 0, true, &["first-last", "local", "pairs-only"]),
    // code tables: characters 0, 127 (low table ends), 128 (high table begins), U+10FFFE
    f("\\catcode0=11 \\catcode127=11 \\catcode128=11 \\catcode1114110=11 \\catcode1114111=11 \\catcode129=11 \\mathcode0=1 \\mathcode127=2 \\mathcode128=3 \\mathcode1114110=4 \\mathcode1114111=5 ", 0, 0, false, &["first-last", "high-code", "local", "pairs-only"]),
    // streams 0 and 15 (stream 15 positioned after its first line), first and last element of an allocated array
    f("\\openin 0 f \\openin 15 g \\read 15 to \\rz ", 0, 0, false, &["first-last", "stream", "read", "local", "pairs-only"]),
    f("\\arr 0=5 \\arr 2=6 ", 0, 0, false, &["first-last", "alloc", "local", "pairs-only"]),
    // integers on both sides of every width boundary of the binary formats (MessagePack fixint / 8 / 16 / 32 bits,
    // bincode varint 250/251, 2^16, 2^32), largest dimensions, all glue orders, largest \\mathchardef and \\chardef
    f("\\count100=127 \\count101=128 \\count102=250 \\count103=251 \\count104=255 \\count105=256 \\count106=65535 \\count107=65536 \\count108=2147483647 \\count109=-32 \\count110=-33 \\count111=-128 \\count112=-129 \\count113=-32768 \\count114=-32769 \\count115=-2147483647 \\dimen2=16383.99998pt \\dimen3=-16383.99998pt \\skip2=1pt plus 16383fill minus 1filll \\skip3=-1pt plus -2fil \\mathchardef\\i=32767 \\chardef\\h=1114111 ", 0, 0, false, &["width-boundary", "local", "pairs-only"]),
    // 3- and 4-byte characters in names, bodies and token lists, a non-ASCII active character; a stream on a file
    // with a non-ASCII name, on an empty file and on a blank-only file
    f("\\def\\€{€3}\\def\\😀{😀4}\\toks2={é€😀}\\catcode`\\√=13 \\def√{AE}", 0, 0, false, &["non-ascii", "local", "pairs-only"]),
    f("\\openin 5 fé \\openin 6 e \\openin 7 b ", 0, 0, false, &["non-ascii", "empty-file", "stream", "pairs-only"]),
    // every prefix at once, globally, inside a group
    f("{\\global\\long\\outer\\def\\mq#1{q#1}", 1, 0, false, &["local"]),
    // a recoverable error: fatal in the default \\errorstopmode (no checkpoint then), recovered and RECORDED in the
    // state (errormode::Component::errors) after \\scrollmode
    f(RECOVERABLE_ERROR, 0, 0, false, &["recovered-error", "pairs-only"]),
    // CONTAINERS with >= 3-5 DISTINCT elements in a non-sorted order, observed order-sensitively after the restore:
    // delimiters of 1..5 distinct tokens (Nevec / Matcher), 3 prefix tokens + two delimited parameters, `#{`
    f("\\def\\da#1a{[#1]}\\def\\db#1ab{[#1]}\\def\\dc#1abc{[#1]}\\def\\dd#1abcd{[#1]}\\def\\de#1abcde{[#1]}\\def\\dp xyz#1-=>#2.{(#1/#2)}\\def\\dh#1#{<#1>}", 0, 0, false, &["long-delimiter", "macro-params", "local", "pairs-only"]),
    // token list of 5 distinct tokens, replacement text that interleaves 3 parameters with 3 tokens, 3 singletons and 3 arrays assigned out of order
    f("\\toks3={zyxwv}\\def\\dr#1#2#3{#3c#1b#2a}\\ny=32 \\nx=31 \\n=30 \\ax 1=41 \\arr 2=43 \\ax 0=40 \\ay 0=44 ", 0, 0, false, &["containers", "alloc", "local", "pairs-only"]),
    // three open groups, each saving different values of several variables and commands (save-stack lists and command groups of 3-4 entries)
    f("{\\count1=21 \\count2=22 \\count3=23 \\count4=24 {\\count1=31 \\dimen1=5pt \\def\\a{x1}\\def\\ab{x2}\\def\\abc{x3}\\def\\me{x4}{\\count1=41 \\count3=43 \\toks1={g3}\\def\\ab{y2}\\fa ", 3, 0, false, &["containers", "three-groups", "def-a", "font", "local", "pairs-only"]),
    // three more streams, read from in an order different from their numbers
    f("\\openin 1 f \\openin 2 g \\openin 4 fé \\read 2 to \\ra \\read 1 to \\rb \\read 1 to \\rc ", 0, 0, false, &["containers", "stream", "read", "local", "pairs-only"]),
    // three active characters defined in non-alphabetic order
    f("\\catcode`\\?=13 \\catcode`\\!=13 \\def?{Q}\\def~{T3}\\def!{B}", 0, 0, false, &["containers", "active-def", "local", "pairs-only"]),
    // three open conditionals of three kinds, and the only sequence of \\or / \\else / \\fi that closes them silently in this order
    f("\\iftrue \\iffalse\\else \\ifcase 2 \\or\\or ", 0, 3, false, &["containers", "three-conditionals", "pairs-only"]),
    f("\\or wrong\\fi \\fi \\else wrong\\fi ", 0, -3, false, &["pairs-only"]),
    // macro shapes: every optional part of a serialised macro (prefix tokens, parameters, replacement) empty in
    // one fragment and non-empty in another; an empty macro as a saved outer meaning and as an active character
    f("\\def\\me{}\\def\\gobble#1{}\\def\\mp ab{}", 0, 0, false, &["macro-shape", "local", "pairs-only"]),
    f("\\def\\mn#1#2#3#4#5#6#7#8#9{#9#1}\\def\\mh#1{a##b}\\def\\md xy#1.#2{[#2#1]}", 0, 0, false, &["macro-shape", "macro-params", "local", "pairs-only"]),
    f("\\def\\me{}{\\def\\me{X}", 1, 0, false, &["macro-shape", "local", "pairs-only"]),
    f("\\def~{}", 0, 0, false, &["macro-shape", "active-def", "local", "pairs-only"]),
    f("\\countdef\\f=5 \\f=55 ", 0, 0, true, &["alias-variable", "local"]),
    f("\\toksdef\\g=6 \\g={tk}", 0, 0, false, &["alias-variable", "local"]),
    f("\\chardef\\h=72 ", 0, 0, false, &["chardef", "local"]),
    f("\\mathchardef\\i=73 ", 0, 0, false, &["mathchardef", "local"]),
    f("\\count1=11 ", 0, 0, false, &["local"]),
    f("\\dimen1=2pt ", 0, 0, false, &["local"]),
    f("\\skip1=3pt plus 1fil ", 0, 0, false, &["local"]),
    f("\\toks1={T}", 0, 0, false, &["local"]),
    f("\\catcode`\\|=13 ", 0, 0, false, &["local"]),
    f("\\catcode`\\é=11 ", 0, 0, true, &["high-code", "local"]),
    f("\\mathcode`\\k=5 ", 0, 0, false, &["local"]),
    f("\\mathcode`\\é=6 ", 0, 0, false, &["high-code", "local"]),
    f("\\endlinechar=65 ", 0, 0, false, &["local"]),
    f("\\globaldefs=1 ", 0, 0, true, &["globaldefs", "local"]),
    f("\\year=1999 ", 0, 0, false, &["local"]),
    f("\\scrollmode ", 0, 0, false, &[]),
    f("{", 1, 0, false, &[]),
    f("{\\count1=12 \\def\\a{A3}", 1, 0, true, &["def-a", "local"]),
    f("{\\global\\count1=13 ", 1, 0, false, &[]),
    f("{\\catcode`\\é=7 ", 1, 0, false, &["high-code", "local"]),
    f("}", -1, 0, true, &[]),
    f("\\iftrue ", 0, 1, false, &[]),
    f("\\iffalse\\else ", 0, 1, true, &[]),
    f("\\ifcase 1 \\or ", 0, 1, false, &[]),
    f("\\fi ", 0, -1, true, &[]),
    f("\\newInt\\n \\n=9 ", 0, 0, false, &["alloc", "local"]),
    f("\\arr 1=7 ", 0, 0, false, &["alloc", "local"]),
    f("\\fa ", 0, 0, false, &["font", "local"]),
    f("{\\fb ", 1, 0, true, &["font", "local"]),
    f("\\openin 3 f ", 0, 0, false, &["stream"]),
    f("\\read 3 to \\r ", 0, 0, false, &["read", "local"]),
];

const RECOVERABLE_ERROR: &str = "\\catcode1114112=11 ";
/// Finding (not in DESIGN §4): a VM that holds a recorded error cannot be serialised to JSON –
/// `TracedTexError::token_traces` is a `HashMap<Token, _>`, and JSON keys must be strings ("key must be a
/// string"); MessagePack and bincode are unaffected. Goes through `acc.known` under this id.
const FINDING_RECORDED_ERROR: &str = "D7b-json-recorded-error";

/// Line 0 of every program (before the first checkpoint): names that the observer reads with \the
/// must be defined, because \the of an undefined name is a todo!() in texcraft.
const PRELUDE: &str = "\\countdef\\f=9 \\toksdef\\g=9 \\mathchardef\\i=1 \\chardef\\hh=72 \\newInt\\n \\newIntArray\\arr 3 \\newInt\\nx \\newIntArray\\ax 2 \\newInt\\ny \\newIntArray\\ay 1 ";

/// Prints every target. Each item is safe whether or not the name is defined.
const OBSERVE: &str = ";\\a;\\b;\\c\\hh;\\d\\zz{Z}\\zz;\\e;\\the\\f;\\the\\g;\\h;\\the\\i;\\m12.;\\newname;\\é;\\ab;\\abc;\\firstseeninq;\\me;\\gobble x;\\mp ab;\\mn123456789;\\mh x;\\md xy1.2;\\the\\count0 ;\\the\\count32767 ;\\the\\dimen0 ;\\the\\dimen32767 ;\\the\\skip0 ;\\the\\skip32767 ;\\the\\toks0 ;\\the\\toks255 ;\\the\\catcode0 ;\\the\\catcode127 ;\\the\\catcode128 ;\\the\\catcode1114110 ;\\the\\catcode1114111 ;\\the\\mathcode0 ;\\the\\mathcode127 ;\\the\\mathcode128 ;\\the\\mathcode1114110 ;\\the\\mathcode1114111 ;\\ifeof 0 c\\else o\\fi;\\ifeof 15 c\\else o\\fi;\\rz;\\the\\arr 0 ;\\the\\arr 2 ;\\the\\count32766 ;\\the\\toks254 ;\\the\\catcode129 ;\\the\\count100 ;\\the\\count101 ;\\the\\count102 ;\\the\\count103 ;\\the\\count104 ;\\the\\count105 ;\\the\\count106 ;\\the\\count107 ;\\the\\count108 ;\\the\\count109 ;\\the\\count110 ;\\the\\count111 ;\\the\\count112 ;\\the\\count113 ;\\the\\count114 ;\\the\\count115 ;\\the\\dimen2 ;\\the\\dimen3 ;\\the\\skip2 ;\\the\\skip3 ;\\€;\\😀;\\the\\toks2 ;√;\\ifeof 5 c\\else o\\fi;\\ifeof 6 c\\else o\\fi;\\ifeof 7 c\\else o\\fi;\\mq x;\\the\\n;\\the\\arr 1 ;\\r;\\ifeof 3 c\\else o\\fi;\\the\\count1 ;\\the\\dimen1 ;\\the\\skip1 ;\\the\\toks1 ;\\the\\count5 ;\\the\\toks6 ;\\the\\catcode`\\| ;\\the\\catcode`\\é ;\\the\\mathcode`\\k ;\\the\\mathcode`\\é ;\\the\\endlinechar ;\\the\\globaldefs ;\\the\\year ;\\the\\month ;\\the\\day ;\\the\\time ;\\the\\tracingmacros ;\\the\\dumpFormat ;\\the\\dumpValidate ;\\probefont;~;|;\\the\\count2 ;\\the\\count3 ;\\the\\count4 ;\\the\\toks3 ;\\dr 123;\\the\\nx ;\\the\\ny ;\\the\\ax 0 ;\\the\\ax 1 ;\\the\\ay 0 ;!;?;\\ifeof 1 c\\else\\read 1 to \\rd [\\rd]\\fi;\\ifeof 2 c\\else\\read 2 to \\rd [\\rd]\\fi;\\ifeof 4 c\\else\\read 4 to \\rd [\\rd]\\fi;\\ra;\\rb;\\rc;\\da 1a;\\db 1ba2ab;\\dc 1acb2abc;\\dd 1adbc2abcd;\\de 1aebcd2abcde;\\dp xyz1=->2-=>3.;\\dh 12{};";

/// two plain lines first: a restored lexer that forgets it is past its first line merges them
const FILE_F: &str = "r1\nr2\n{r3\nr4}\nr5\n";

/// Lexes a line-final backslash from source text while \endlinechar=-1: the empty-name control sequence.
const OBSERVE_EMPTY_NAME: [&str; 3] = ["{\\endlinechar=-1 ", ";\\", "}"];

/// LAST observer line (after every drain, so its global effects disturb nothing): \\global in front of EVERY prefixable
/// command kind and \\long / \\outer \\def, executed after the checkpoint – behaviour that depends on state which is
/// serde(skip) and rebuilt on load (prefix tags, conditional tags, \\jobname) – then the results are read.
const OBSERVE_PREFIXES: &str = "{\\global\\let\\gl=\\hh \\global\\advance\\count6 by 3 \\global\\multiply\\count6 by 2 \\global\\divide\\count6 by 1 \\global\\countdef\\gc=6 \\global\\toksdef\\gt=6 \\global\\chardef\\gh=71 \\global\\mathchardef\\gm=5 \\global\\count7=7 \\global\\fa \\global\\def\\gd{d}\\gdef\\ge{e}\\long\\def\\gp#1{#1}\\outer\\def\\go{o}\\long\\outer\\global\\def\\gq{q}\\gp p\\go};\\gl;\\the\\count6 ;\\the\\gc;\\the\\gt;\\gh;\\the\\gm;\\the\\count7 ;\\probefont;\\gd;\\ge;\\gq;\\jobname;\\ifnum 1<2 t\\else f\\fi;\\ifodd 3 t\\fi;";

fn observer(open_conds: i32, open_groups: i32) -> Vec<String> {
    let mut lines = vec![OBSERVE.to_string()];
    lines.extend(OBSERVE_EMPTY_NAME.iter().map(|s| s.to_string()));
    for _ in 0..open_conds {
        lines.push(format!("\\fi {OBSERVE}"));
    }
    for _ in 0..open_groups {
        lines.push(format!("}}{OBSERVE}"));
    }
    lines.push(OBSERVE_PREFIXES.to_string());
    lines
}

fn join_with(lines: &[String], eol: &str, final_eol: bool) -> String {
    let mut s = lines.join(eol);
    if final_eol && !lines.is_empty() {
        s.push_str(eol);
    }
    s
}

fn join(lines: &[String]) -> String {
    lines.iter().map(|l| format!("{l}\n")).collect()
}

// ---------------------------------------------------------------- stream steps (second family)

const STREAM_STEPS: &[&str] = &[
    "\\openin 3 f ",
    "\\openin 4 g ",
    "\\read 3 to \\x [\\x]",
    "\\read 4 to \\y [\\y]",
    "\\ifeof 3 c\\else o\\fi ",
    "\\ifeof 4 c\\else o\\fi ",
    "\\closein 3 ",
    "{\\read 3 to \\x ",
    "}[\\x]",
    "\\global\\read 4 to \\y ",
    "\\input g ",
];
const STREAM_FILES: &[(&str, &str)] = &[("f.tex", "l1\n{l2\nl3}\nl4\n"), ("g.tex", "m1\nm2\nm3")];

// ---------------------------------------------------------------- one case

struct Case {
    family: &'static str,
    /// lines of P (line 0 may be a prelude that is never a checkpoint boundary on its own)
    p: Vec<String>,
    /// lines of Q
    q: Vec<String>,
    /// first boundary that is a checkpoint (boundary k = after line k-1 of P)
    first_boundary: usize,
    /// boundaries at which oracle 2 (canonical JSON) is evaluated too
    json_boundaries: Vec<usize>,
    files: &'static [(&'static str, &'static str)],
    sel: Value,
    /// line terminator written after every line, and whether the LAST line of each pushed source gets one
    eol: &'static str,
    final_eol: bool,
    /// false: the VM has no prelude line (bare programs)
    bare: bool,
    /// continuation run with the strict handlers (undefined control sequence = fatal error)
    strict: bool,
}

/// Like vtex::run, but the error is the title followed by the FULL rendered error (source line, column and
/// annotation of every traced token, stack trace, notes): "same errors" is compared on what a user would see.
/// Rendering happens here, inside the caller's catch: a panic while tracing is a failure of the continuation.
fn run_full<Hd: vtex::texlang::vm::Handlers<vtex::HState>>(vm: &mut vtex::Vm, src: &str) -> RunOut {
    vm.state.env.out.borrow_mut().clear();
    let _ = vm.push_source("t.tex", src);
    let r = vm.run::<Hd>();
    let out = vm.state.env.out.borrow().concat();
    // The "did you mean \\x?" note of an undefined control sequence picks one of several equally close names in the
    // subject's hash order: it differs between two fresh VMs as well, so it is not part of "the same error".
    RunOut { out, err: r.err().map(|e| format!("{}\n{}", e.error.title(), e.to_string().lines().filter(|l| !l.contains("= note: did you mean")).collect::<Vec<_>>().join("\n"))) }
}
/// `strict`: an undefined control sequence is the fatal error of the default handlers instead of a recorded `<undef>`
fn run_src(vm: &mut vtex::Vm, src: &str, strict: bool) -> RunOut {
    if strict {
        run_full::<vtex::HStrict>(vm, src)
    } else {
        run_full::<vtex::H>(vm, src)
    }
}

fn fresh(files: &[(&str, &str)]) -> Box<vtex::Vm> {
    let vm = vtex::new_vm();
    for (n, c) in files {
        vm.state.env.fs.borrow().add(n, c);
    }
    vm
}

/// Canonical form of a serialised VM: containers whose order is the subject's hash order are made
/// order-independent. (1) `commands_map.macros` is a table indexed by `{"Macro": u}` entries whose
/// numbering follows a HashMap iteration: references are replaced by the macro itself and the table
/// by its length. (2) every list in `save_stack[*]` is a set of (variable, index, value) triples.
fn canonical(mut v: Value) -> Value {
    let macros = v["commands_map"]["macros"].as_array().cloned().unwrap_or_default();
    fn inline(x: &mut Value, macros: &[Value]) {
        match x {
            Value::Object(o) => {
                if o.len() == 1 {
                    if let Some(u) = o.get("Macro").and_then(|u| u.as_u64()) {
                        let m = macros.get(u as usize).cloned().unwrap_or(json!("<dangling macro index>"));
                        o.insert("Macro".into(), m);
                        return;
                    }
                }
                for (_, y) in o.iter_mut() {
                    inline(y, macros);
                }
            }
            Value::Array(a) => {
                for y in a.iter_mut() {
                    inline(y, macros);
                }
            }
            _ => {}
        }
    }
    if let Some(cm) = v.get_mut("commands_map") {
        for key in ["commands", "active_char"] {
            if let Some(c) = cm.get_mut(key) {
                inline(c, &macros);
            }
        }
        cm["macros"] = json!({"count": macros.len()});
    }
    // (3) the allocator's array table is a HashMap written as a list of pairs
    if let Some(a) = v.get_mut("state").and_then(|s| s.get_mut("alloc")).and_then(|s| s.get_mut("array_refs")).and_then(|s| s.as_array_mut()) {
        a.sort_by_key(|x| x.to_string());
    }
    if let Some(ss) = v.get_mut("save_stack").and_then(|s| s.as_array_mut()) {
        for level in ss.iter_mut() {
            if let Some(o) = level.as_object_mut() {
                for (_, list) in o.iter_mut() {
                    if let Some(a) = list.as_array_mut() {
                        a.sort_by_key(|x| x.to_string());
                    }
                }
            }
        }
    }
    v
}

fn first_diff(a: &Value, b: &Value, path: String) -> Option<String> {
    match (a, b) {
        (Value::Object(x), Value::Object(y)) => {
            for k in x.keys().chain(y.keys()) {
                match (x.get(k), y.get(k)) {
                    (Some(p), Some(q)) => {
                        if let Some(d) = first_diff(p, q, format!("{path}.{k}")) {
                            return Some(d);
                        }
                    }
                    (p, q) => return Some(format!("{path}.{k}: {} vs {}", p.map(|v| vcore::compact(v, 120)).unwrap_or("<absent>".into()), q.map(|v| vcore::compact(v, 120)).unwrap_or("<absent>".into()))),
                }
            }
            None
        }
        (Value::Array(x), Value::Array(y)) => {
            if x.len() != y.len() {
                return Some(format!("{path}: {} items vs {} items", x.len(), y.len()));
            }
            for (i, (p, q)) in x.iter().zip(y.iter()).enumerate() {
                if let Some(d) = first_diff(p, q, format!("{path}[{i}]")) {
                    return Some(d);
                }
            }
            None
        }
        _ => {
            if a == b {
                None
            } else {
                Some(format!("{path}: {} vs {}", vcore::compact(a, 120), vcore::compact(b, 120)))
            }
        }
    }
}

#[derive(Debug)]
struct Failure {
    /// explained by the known finding FINDING_RECORDED_ERROR (predicate on the case + adjusted expectation)
    known: bool,
    boundary: usize,
    format: Option<Format>,
    expected: String,
    observed: String,
    note: String,
}

/// Everything one execution of a case can find. `reference_ok` = the un-checkpointed runs agree.
fn execute_case(c: &Case, acc: Option<&mut Acc>) -> Vec<Failure> {
    let mut fails: Vec<Failure> = vec![];
    let mut local = Acc::default();
    let all: Vec<String> = c.p.iter().chain(c.q.iter()).cloned().collect();
    // single-source run of the whole program
    let whole = vcore::catch(|| {
        let mut vm = fresh(c.files);
        run_src(&mut vm, &join_with(&all, c.eol, c.final_eol), c.strict)
    });
    for k in c.first_boundary..=c.p.len() {
        let p1 = join_with(&all[..k], c.eol, c.final_eol);
        let p2 = join_with(&all[k..], c.eol, c.final_eol);
        local.count("checkpoints");
        // P1 in a fresh VM
        let mut vm = fresh(c.files);
        let o1 = match vcore::catch(|| run_src(&mut vm, &p1, c.strict)) {
            Ok(o) => o,
            Err(p) => {
                if p.cutoff {
                    local.cutoffs += 1;
                } else {
                    // not a checkpoint matter (C09 owns totality); nothing to checkpoint
                    local.skipped += 1;
                    local.class(&format!("P1 panics: {}", p.site()));
                }
                continue;
            }
        };
        if o1.err.is_some() {
            // a VM that stopped with a fatal error is not a checkpoint state of the property
            local.skipped += 1;
            local.class("P1 ends with a fatal error (no checkpoint taken)");
            continue;
        }
        // oracle 2 input + the three restored VMs, all taken before the reference continues
        let json_here = c.json_boundaries.contains(&k);
        let v0 = if json_here { vcore::catch(|| canonical(vtex::to_json_value(&vm))).ok() } else { None };
        let mut restored: Vec<(Format, Result<Box<vtex::Vm>, vcore::Panic>)> = vec![];
        for fmt in FORMATS {
            restored.push((fmt, vcore::catch(|| vtex::checkpoint(&vm, fmt))));
        }
        // reference: the same VM continues without a checkpoint
        let reference = vcore::catch(|| run_src(&mut vm, &p2, c.strict));
        let reference = match reference {
            Ok(r) => r,
            Err(p) => {
                if p.cutoff {
                    local.cutoffs += 1;
                } else {
                    local.skipped += 1;
                    local.class(&format!("reference continuation panics: {}", p.site()));
                }
                continue;
            }
        };
        // Splitting the source is not a checkpoint yet. run(P;Q) differs from run(P1);run(P2;Q) exactly
        // when the last command of P1 scans past the end of its line (e.g. a file name glued to a
        // letter \endlinechar): then "pending input exhausted" holds only for the split run, which is
        // the property's situation. Recorded, never attributed to serialisation.
        if let Ok(w) = &whole {
            let glued = RunOut { out: format!("{}{}", o1.out, reference.out), err: reference.err.clone() };
            // (titles only: the rendered source positions legitimately differ between one source and two)
            let title = |r: &RunOut| r.err.as_ref().map(|e| e.lines().next().unwrap_or("").to_string());
            if w.out != glued.out || title(w) != title(&glued) {
                local.count("split_alone_changes_behaviour");
                local.class(&format!("single-source run differs from the split run without any checkpoint (last line of P1: `{}`)", all[k - 1]));
            }
        }
        local.class(&format!("reference: {}", if reference.err.is_some() { "ends with error" } else { "completes" }));
        for (fmt, r) in restored {
            local.count("round_trips");
            let mut vm2 = match r {
                Ok(v) => v,
                Err(p) => {
                    fails.push(Failure { known: false, boundary: k, format: Some(fmt), expected: "serialise + deserialise succeed".into(), observed: p.describe(), note: "panic in serialise/deserialise".into() });
                    continue;
                }
            };
            if let Some(v0) = &v0 {
                local.count("json_roundtrips_compared");
                match vcore::catch(|| canonical(vtex::to_json_value(&vm2))) {
                    Ok(v2) => {
                        if *v0 != v2 {
                            // Not a failure: the statement is about behaviour on further input; a loader that
                            // normalises the representation (renumbers names, drops a redundant saved entry,
                            // forgets exhausted sources) keeps the property. Recorded so that a representation
                            // difference the observer does not reach is visible in the evidence.
                            local.count("restored_vm_serialises_differently");
                            local.class(&format!("restored VM serialises differently ({fmt:?}): {}", vcore::clip(&first_diff(v0, &v2, "vm".into()).unwrap_or_default(), 160)));
                        }
                    }
                    Err(p) => fails.push(Failure { known: false, boundary: k, format: Some(fmt), expected: "the restored VM can be serialised".into(), observed: p.describe(), note: "panic serialising the restored VM".into() }),
                }
            }
            match vcore::catch(|| run_src(&mut vm2, &p2, c.strict)) {
                Ok(got) => {
                    if got != reference {
                        fails.push(Failure { known: false, boundary: k, format: Some(fmt), expected: reference.show(), observed: got.show(), note: "continuation after the checkpoint differs from the continuation without it".into() });
                    }
                }
                Err(p) if p.cutoff => local.cutoffs += 1,
                Err(p) => fails.push(Failure { known: false, boundary: k, format: Some(fmt), expected: reference.show(), observed: p.describe(), note: "continuation after the checkpoint panics".into() }),
            }
        }
    }
    // known finding: predicate on the CASE (an error was recorded before the boundary: \\scrollmode precedes
    // the error fragment) + adjusted expectation (exactly the JSON serialiser refuses the non-string map key;
    // the other formats must be transparent as always)
    for f in fails.iter_mut() {
        let recorded = {
            let lines = &c.p[..f.boundary.min(c.p.len())];
            match (lines.iter().position(|l| l.contains("\\scrollmode")), lines.iter().rposition(|l| l.as_str() == RECOVERABLE_ERROR)) {
                (Some(a), Some(b)) => a < b,
                _ => false,
            }
        };
        let json_serialiser = (f.format == Some(Format::Json) && f.note == "panic in serialise/deserialise") || f.note == "panic serialising the restored VM";
        if recorded && json_serialiser && f.observed.contains("key must be a string") {
            f.known = true;
        }
    }
    if let Some(acc) = acc {
        acc.merge(local);
    }
    fails
}

const REEXEC: usize = 5;

fn run_case(idx: u64, c: &Case, nontrivial_boundaries: u64, acc: &mut Acc) {
    acc.eval();
    if c.q.last().map(|l| l.as_str()) == Some(OBSERVE_PREFIXES) {
        acc.count("global_prefix_on_each_prefixable_command_kind_after_checkpoint");
    }
    if nontrivial_boundaries > 0 {
        acc.nontrivial();
    }
    let mut fails = execute_case(c, Some(&mut *acc));
    if fails.is_empty() {
        return;
    }
    if fails.iter().all(|f| f.known) {
        let f0 = &fails[0];
        acc.class("known finding: JSON cannot serialise a VM that holds a recorded error");
        acc.known(FINDING_RECORDED_ERROR, idx, || json!({"family": c.family, "sel": c.sel, "P": c.p, "first_boundary": c.first_boundary, "checkpoint_after_line": f0.boundary, "format": "Json", "observed": f0.observed}));
        return;
    }
    fails.retain(|f| !f.known);
    // the subject's hash order cannot be seeded: re-execute, any failing execution is a counterexample
    let mut failing = 1;
    for _ in 1..REEXEC {
        if execute_case(c, None).iter().any(|f| !f.known) {
            failing += 1;
        }
    }
    let first = &fails[0];
    let case = json!({
        "family": c.family, "sel": c.sel, "P": c.p, "Q": c.q, "first_boundary": c.first_boundary, "json_boundaries": c.json_boundaries,
        "files": c.files.iter().map(|(n, t)| json!([n, t])).collect::<Vec<_>>(),
        "failing_checkpoints": fails.iter().map(|f| json!({"after_line": f.boundary, "format": f.format.map(|x| format!("{x:?}")), "note": f.note})).collect::<Vec<_>>(),
        "executions_failing": format!("{failing}/{REEXEC}"), "order_dependent": failing < REEXEC,
        "test_body": format!("let mut vm = vtex::new_vm(); /* files: {:?} */ vtex::run(&mut vm, {:?}); let mut vm2 = vtex::checkpoint(&vm, vtex::Format::{:?}); assert_eq!(vtex::run(&mut vm, {:?}), vtex::run(&mut vm2, {:?}));",
            c.files.iter().map(|x| x.0).collect::<Vec<_>>(), join(&c.p[..first.boundary.min(c.p.len())]), first.format.unwrap_or(Format::Json),
            join(&c.p[first.boundary.min(c.p.len())..].iter().chain(c.q.iter()).cloned().collect::<Vec<_>>()), "<same>"),
    });
    acc.class(&format!("FAIL after line `{}`: {}", c.p.get(first.boundary.wrapping_sub(1)).map(|s| s.as_str()).unwrap_or(""), first.note));
    acc.fail(idx, case, &first.expected, &first.observed, format!("checkpoint after line {} of P ({:?}): {}; {} failing checkpoint(s) in this program; {failing}/{REEXEC} executions fail", first.boundary, first.format, first.note, fails.len()));
}

// ---------------------------------------------------------------- fragment programs

/// Counters computed from the fragments before the checkpoint (never from the implementation).
fn count_state(frs: &[&Frag], acc: &mut Acc) -> bool {
    let mut groups: Vec<bool> = vec![]; // per open group: a local assignment happened in it
    let mut conds = 0;
    let mut globaldefs = false;
    let mut any_def = false;
    let mut a_defined = false;
    let mut shared = false;
    let mut tags: Vec<&str> = vec![];
    for fr in frs {
        if fr.dg > 0 {
            groups.push(false);
        }
        if fr.tags.contains(&"local") {
            any_def = true;
            if !globaldefs {
                if let Some(g) = groups.last_mut() {
                    *g = true;
                }
            }
        }
        if fr.tags.contains(&"def-a") {
            a_defined = true;
        }
        if fr.tags.contains(&"let-a") && a_defined {
            shared = true;
        }
        if fr.tags.contains(&"globaldefs") {
            globaldefs = true;
        }
        if fr.dg < 0 {
            groups.pop();
            // definitions made in the group may be gone: be conservative about \a
            a_defined = false;
        }
        conds += fr.dc;
        for t in fr.tags {
            if !tags.contains(t) {
                tags.push(t);
            }
        }
    }
    if groups.iter().any(|g| *g) {
        acc.count("save_stack_nonempty_at_checkpoint");
    }
    if !groups.is_empty() {
        acc.count("open_group_at_checkpoint");
    }
    if conds > 0 {
        acc.count("open_conditional_at_checkpoint");
    }
    if shared {
        acc.count("macro_shared_by_two_names");
    }
    for (t, name) in [
        ("alias-expansion", "alias_of_expansion_primitive"),
        ("alias-execution", "alias_of_execution_primitive"),
        ("alias-char", "alias_of_character_token"),
        ("alias-variable", "alias_of_register"),
        ("active-def", "active_character_definition"),
        ("high-code", "high_code_table_entry"),
        ("stream", "open_read_stream"),
        ("font", "font_selected"),
        ("alloc", "allocated_variable"),
        ("macro-params", "macro_with_parameters"),
        ("empty-name", "empty_control_sequence_name_defined"),
        ("first-last", "first_or_last_element_of_indexed_state_set"),
        ("width-boundary", "integer_width_boundary_values_set"),
        ("long-delimiter", "macro_delimiter_of_3_or_more_distinct_tokens_called_after_checkpoint"),
        ("containers", "container_with_3_or_more_distinct_elements_out_of_order"),
        ("three-groups", "three_open_groups_saving_different_values"),
        ("three-conditionals", "three_open_conditionals_of_different_kinds"),
        ("non-ascii", "three_and_four_byte_characters_in_state"),
        ("empty-file", "stream_on_empty_or_blank_file"),
        ("macro-shape", "macro_with_an_empty_part_defined"),
        ("edge-name", "non_ascii_or_prefix_name_defined"),
    ] {
        if tags.contains(&t) {
            acc.count(name);
        }
    }
    !groups.is_empty() || conds > 0 || any_def
}

#[derive(Clone, Copy)]
struct Variant {
    eol: &'static str,
    final_eol: bool,
    bare: bool,
}
const STANDARD: Variant = Variant { eol: "\n", final_eol: true, bare: false };
/// Reads only what is safe without the prelude line.
const BARE_OBSERVE: &str = ";\\a;\\b;\\me;~;|;\\the\\count1 ;\\the\\count32767 ;\\the\\toks1 ;\\the\\catcode`\\é ;\\the\\globaldefs ;\\ifeof 3 c\\else o\\fi;\\probefont;";

fn frag_case(family: &'static str, alphabet: &[usize], digits: &[u64], json_last: bool) -> Option<(Case, Vec<&'static Frag>)> {
    frag_case_v(family, alphabet, digits, json_last, STANDARD)
}

fn frag_case_v(family: &'static str, alphabet: &[usize], digits: &[u64], json_last: bool, v: Variant) -> Option<(Case, Vec<&'static Frag>)> {
    let frs: Vec<&'static Frag> = digits.iter().map(|d| &FRAGS[alphabet[*d as usize]]).collect();
    let (mut g, mut c) = (0, 0);
    for fr in &frs {
        g += fr.dg;
        c += fr.dc;
        if g < 0 || c < 0 {
            return None;
        }
    }
    let mut p = if v.bare { vec![] } else { vec![PRELUDE.to_string()] };
    p.extend(frs.iter().map(|f| f.text.to_string()));
    let n = p.len();
    if v.bare {
        // no prelude: the fresh VM itself (boundary 0) and the state after each fragment are checkpointed
        let mut q = vec![BARE_OBSERVE.to_string()];
        q.extend((0..c).map(|_| format!("\\fi {BARE_OBSERVE}")));
        q.extend((0..g).map(|_| format!("}}{BARE_OBSERVE}")));
        return Some((
            Case { family, p, q, first_boundary: 0, json_boundaries: if json_last { (0..=n).collect() } else { vec![] }, files: &[("f.tex", FILE_F)], sel: json!({"alphabet": alphabet, "digits": digits, "json_last": json_last, "eol": v.eol, "final_eol": v.final_eol, "bare": true}), eol: v.eol, final_eol: v.final_eol, bare: true, strict: false },
            frs,
        ));
    }
    Some((
        Case { family, p, q: observer(c, g), first_boundary: 2, json_boundaries: if json_last { vec![n] } else { vec![] }, files: &[("f.tex", FILE_F), ("g.tex", "g1\ng2\n"), ("fé.tex", "é1\n"), ("e.tex", ""), ("b.tex", "  \n")], sel: json!({"alphabet": alphabet, "digits": digits, "json_last": json_last, "eol": v.eol, "final_eol": v.final_eol, "bare": false}), eol: v.eol, final_eol: v.final_eol, bare: false, strict: false },
        frs,
    ))
}

#[derive(Clone, Copy, PartialEq)]
enum JsonOracle {
    Never,
    Always,
    /// only for programs made of core fragments (budget: ~110 ms per boundary for 4 JSON values of a 2.9 MB VM)
    CoreOnly,
}

fn run_frag_family(ctx: &mut Ctx, name: &'static str, bounds: &str, alphabet: Vec<usize>, len: usize, json: JsonOracle, only_last_boundary: bool) {
    let k = alphabet.len() as u64;
    let n = k.pow(len as u32);
    ctx.family(name, bounds, n, |idx, acc| {
        let d = vcore::digits(idx, &vec![k; len]);
        let json_last = match json {
            JsonOracle::Never => false,
            JsonOracle::Always => true,
            JsonOracle::CoreOnly => d.iter().all(|x| FRAGS[alphabet[*x as usize]].core),
        };
        match frag_case(name, &alphabet, &d, json_last) {
            None => acc.skipped += 1,
            Some((mut case, frs)) => {
                if only_last_boundary {
                    case.first_boundary = case.p.len();
                }
                if name == "triples-full" {
                    case.first_boundary = 3;
                }
                if len == 1 {
                    // the 1-fragment programs also checkpoint the state left by the prelude line alone
                    case.first_boundary = 1;
                }
                let mut nt = 0;
                for b in case.first_boundary..=case.p.len() {
                    let mut tmp = Acc::default();
                    if count_state(&frs[..b - 1], &mut tmp) {
                        nt += 1;
                    }
                    acc.merge(tmp);
                }
                run_case(idx, &case, nt, acc);
                if idx % 997 == 498 {
                    acc.sample(idx, || json!({"family": name, "P": case.p, "Q": case.q, "checkpoints_after_lines": (case.first_boundary..=case.p.len()).collect::<Vec<_>>(), "formats": ["Json", "MessagePack", "Bincode"]}));
                }
            }
        }
    });
}

fn stream_case(digits: &[u64]) -> Option<Case> {
    let seq: Vec<&str> = digits.iter().map(|d| STREAM_STEPS[*d as usize]).collect();
    let mut depth = 0i32;
    for s in &seq {
        if s.starts_with('{') {
            depth += 1;
        }
        if s.starts_with('}') {
            depth -= 1;
            if depth < 0 {
                return None;
            }
        }
    }
    let tail = format!("{}[\\x][\\y]\\ifeof 3 c\\else o\\fi \\ifeof 4 c\\else o\\fi ", "}".repeat(depth as usize));
    Some(Case { family: "open-read-streams", p: seq.iter().map(|s| s.to_string()).collect(), q: vec![tail], first_boundary: 1, json_boundaries: vec![], files: STREAM_FILES, sel: json!({"digits": digits}), eol: "\n", final_eol: true, bare: false, strict: false })
}

// ---------------------------------------------------------------- integer parameters at values outside their effective range

/// every integer parameter the stdlib offers (plus an allocated \newInt variable)
const INT_PARAMS: [&str; 11] = ["\\endlinechar", "\\globaldefs", "\\tracingmacros", "\\year", "\\month", "\\day", "\\time", "\\dumpFormat", "\\dumpValidate", "\\n", "\\count1"];
/// both sides of every range in which some parameter has an effect (-1/0, ASCII, one byte, char::MAX, i32)
const INT_VALUES: [i64; 13] = [-7, -2, -1, 0, 127, 128, 255, 256, 300, 1114111, 1114112, 2147483647, -2147483647];

/// digits = [parameter, value, form]; form 0: plain assignment, 1: inside an open group (the outer value is saved),
/// 2: \global inside an open group
fn int_param_case(d: &[u64]) -> Case {
    let (p, v, form) = (INT_PARAMS[d[0] as usize], INT_VALUES[d[1] as usize], d[2]);
    let text = match form {
        0 => format!("{p}={v} "),
        1 => format!("{{{p}={v} "),
        _ => format!("{{\\global{p}={v} "),
    };
    Case {
        family: "int-parameter-values",
        p: vec![PRELUDE.to_string(), text],
        q: observer(0, if form == 0 { 0 } else { 1 }),
        first_boundary: 2,
        json_boundaries: vec![],
        files: &[("f.tex", FILE_F)],
        sel: json!({"int_param": d}),
        eol: "\n",
        final_eol: true,
        bare: false,
        strict: false,
    }
}

// ---------------------------------------------------------------- errors located at tokens that were lexed before the checkpoint

/// (definition stored before the checkpoint, continuation that executes it). Every continuation ends in a fatal
/// error whose token – or a token of its stack trace / notes – comes from the source text of P1.
const FAULTY: [(&str, &str); 11] = [
    ("\\def\\fA{\\undefinedcs}", "\\fA"),
    ("\\toks5={\\undefinedcs}", "\\the\\toks5 "),
    ("\\def\\fB{\\count}", "\\fB\\relax"),
    ("\\def\\fC{\\count1=\\relax}", "\\fC"),
    ("\\def\\fD{\\global\\relax}", "\\fD"),
    ("\\def\\fE{\\catcode1114112=11 }", "\\fE"),
    ("\\def\\fF#1.{#1}", "\\fF abc"),
    ("\\def\\fG{\\fi}", "\\fG"),
    // multi-byte text in front of the faulty token on its source line (columns are counted in characters)
    ("\\def\\fH{é€😀\\undefinedcs}", "\\fH"),
    // the faulty token sits in a saved outer meaning and is reached after the group closes
    ("\\def\\fI{\\undefinedcs}{\\def\\fI{ok}", "\\fI}\\fI"),
    // stored on the second line of a two-line source
    ("\\count1=1 \n  \\toks5={ab\\count1=\\relax}", "\\the\\toks5 "),
];

/// digits = [faulty definition, general fragment placed before it (0 = none, k = core fragment k-1)]
fn faulty_case(d: &[u64], core: &[usize]) -> Option<Case> {
    let (def, call) = FAULTY[d[0] as usize];
    let mut p = vec![PRELUDE.to_string()];
    if d[1] > 0 {
        let fr = &FRAGS[core[d[1] as usize - 1]];
        if fr.dg < 0 || fr.dc < 0 {
            return None;
        }
        p.push(fr.text.to_string());
    }
    p.push(def.to_string());
    let n = p.len();
    Some(Case { family: "stored-faulty-tokens", p, q: vec![call.to_string()], first_boundary: n, json_boundaries: vec![], files: &[("f.tex", FILE_F)], sel: json!({"faulty": d}), eol: "\n", final_eol: true, bare: false, strict: true })
}

// ---------------------------------------------------------------- code tables: every class of the initial table set to every code

/// (character code, its category code in the initial table)
const CAT_CLASSES: [(u32, u8); 17] = [(92, 0), (123, 1), (125, 2), (36, 3), (38, 4), (13, 5), (35, 6), (94, 7), (95, 8), (0, 9), (32, 10), (65, 11), (42, 12), (55, 12), (126, 13), (37, 14), (127, 15)];
/// one character of every class, lexed from source text after the checkpoint (CR, % and DEL on lines of their own: they end the line or the run)
const LEX_LINES: [&str; 4] = [";A;*;7;~;x^y_z;$;&;#;\u{0}; ;{};\\relax;", ";\r;after CR", ";%;after percent", ";\u{7f};"];

/// digits = [class, code 0..15, form (0 plain, 1 inside an open group)]
fn catcode_case(d: &[u64]) -> Case {
    let (ch, _) = CAT_CLASSES[d[0] as usize];
    let text = format!("{}\\catcode{ch}={} ", if d[2] == 1 { "{" } else { "" }, d[1]);
    let read = format!(";\\the\\catcode{ch} ;");
    // DEL last: it is an invalid character (fatal error) unless its code was changed
    let mut q = vec![read.clone()];
    q.extend(LEX_LINES[..3].iter().map(|l| l.to_string()));
    if d[2] == 1 {
        q.push("}".into());
        q.push(read);
        q.extend(LEX_LINES[..3].iter().map(|l| l.to_string()));
    }
    q.push(LEX_LINES[3].to_string());
    Case { family: "code-table-values", p: vec![PRELUDE.to_string(), text], q, first_boundary: 2, json_boundaries: vec![], files: &[("f.tex", FILE_F)], sel: json!({"catcode": d}), eol: "\n", final_eol: true, bare: false, strict: false }
}
const MATH_CHARS: [u32; 6] = [0, 48, 65, 97, 127, 128];
const MATH_VALUES: [u32; 5] = [0, 1, 28672, 28929, 32767];
/// digits = [character, value, form]
fn mathcode_case(d: &[u64]) -> Case {
    let ch = MATH_CHARS[d[0] as usize];
    let text = format!("{}\\mathcode{ch}={} ", if d[2] == 1 { "{" } else { "" }, MATH_VALUES[d[1] as usize]);
    let read = format!(";\\the\\mathcode{ch} ;");
    let mut q = vec![read.clone()];
    if d[2] == 1 {
        q.push(format!("}}{read}"));
    }
    Case { family: "code-table-values", p: vec![PRELUDE.to_string(), text], q, first_boundary: 2, json_boundaries: vec![], files: &[("f.tex", FILE_F)], sel: json!({"mathcode": d}), eol: "\n", final_eol: true, bare: false, strict: false }
}

// ---------------------------------------------------------------- the \dump primitive (job.rs: the stdlib's own route to a format file)

fn builtins_with_dump() -> std::collections::HashMap<&'static str, vtex::texlang::command::BuiltIn<vtex::HState>> {
    let mut m = vtex::builtins();
    m.insert("dump", vtex::texlang_stdlib::job::get_dump());
    m
}

fn fresh_with_dump(files: &[(&str, &str)]) -> Box<vtex::Vm> {
    let mut vm = vtex::texlang::vm::VM::<vtex::HState>::new_with_built_in_commands(builtins_with_dump());
    vm.state.time = vtex::texlang_stdlib::time::Component::new_with_values(0, 1, 1, 2000);
    vtex::prepare(&mut vm);
    for (n, c) in files {
        vm.state.env.fs.borrow().add(n, c);
    }
    Box::new(vm)
}

/// P = prelude + fragments, then `\endlinechar=-1` and, as the last token of the last line, `\dump` (so no input is
/// pending when the VM serialises itself; \dumpValidate=1 makes the primitive load its own output again).
/// Format 1 (JSON): the harness loads the written file and continues with Q in the loaded VM and in the original.
/// Formats 0 (MessagePack) and 2 (bincode): the dump with its self-validation must succeed.
fn dump_case(idx: u64, alphabet: &[usize], digits: &[u64], fmt: usize, acc: &mut Acc) {
    let (case, _) = match frag_case("dump-primitive", alphabet, digits, false) {
        Some(c) => c,
        None => {
            acc.skipped += 1;
            return;
        }
    };
    acc.eval();
    acc.nontrivial();
    acc.count("dump_primitive_runs");
    let mut p1 = case.p.clone();
    p1.push("\\endlinechar=-1 ".into());
    p1.push(format!("\\dumpFormat={fmt} \\dumpValidate=1 \\dump"));
    let p1 = join_with(&p1, "\n", false);
    let q = join(&case.q);
    let sel = json!({"alphabet": alphabet, "digits": digits, "dump_format": fmt});
    let cj = |extra: &str| json!({"family": "dump-primitive", "sel": sel, "P1": p1, "Q": q, "what": extra});
    let mut vm = fresh_with_dump(case.files);
    let o1 = match vcore::catch(|| vtex::run(&mut vm, &p1)) {
        Ok(o) => o,
        Err(p) if p.cutoff => {
            acc.cutoffs += 1;
            return;
        }
        Err(p) => {
            acc.fail(idx, cj("P1 with \\dump"), "\\dump serialises the VM (and, with \\dumpValidate=1, loads it again)", p.describe(), format!("\\dump panics (\\dumpFormat={fmt})"));
            return;
        }
    };
    if let Some(e) = &o1.err {
        // fragments that cannot run on their own (a \read without \openin …) end P1 before the dump
        let alone = vcore::catch(|| vtex::run(&mut fresh_with_dump(case.files), &join(&case.p))).ok().and_then(|r| r.err);
        if alone.is_some() {
            acc.skipped += 1;
            return;
        }
        acc.fail(idx, cj("P1 with \\dump"), "\\dump succeeds", format!("fatal error: {e}"), format!("\\dump fails (\\dumpFormat={fmt})"));
        return;
    }
    if fmt != 1 {
        acc.class(&format!("\\dump format {fmt}: written and self-validated"));
        return;
    }
    let name = std::path::PathBuf::from("jobname.fmt.json");
    let bytes = {
        let fs = vm.state.env.fs.borrow();
        let files = fs.files.borrow();
        files.get(&name).cloned().or_else(|| files.get(&std::path::Path::new(vtex::VFS_ROOT).join(&name)).cloned())
    };
    let bytes = match bytes {
        Some(b) => b,
        None => {
            acc.fail(idx, cj("looking for jobname.fmt.json"), "\\dump wrote jobname.fmt.json through the file system", "no such file", "\\dump wrote nothing");
            return;
        }
    };
    let restored = vcore::catch(|| {
        let mut d = serde_json::Deserializer::from_slice(&bytes);
        let mut vm2 = vtex::texlang::vm::VM::<vtex::HState>::deserialize_with_built_in_commands(&mut d, builtins_with_dump()).unwrap();
        vtex::prepare(&mut vm2);
        vm2.state.env.fs = vm.state.env.fs.clone();
        Box::new(vm2)
    });
    let mut vm2 = match restored {
        Ok(v) => v,
        Err(p) => {
            acc.fail(idx, cj("loading jobname.fmt.json"), "the dumped file loads", p.describe(), "the file written by \\dump cannot be loaded");
            return;
        }
    };
    let reference = vcore::catch(|| run_src(&mut vm, &q, false));
    let got = vcore::catch(|| run_src(&mut vm2, &q, false));
    match (reference, got) {
        (Ok(r), Ok(g)) => {
            if r != g {
                acc.fail(idx, cj("continuation after loading the dump"), r.show(), g.show(), "the VM loaded from the \\dump file behaves differently from the VM that dumped");
            } else {
                acc.class("\\dump format 1: loaded VM continues identically");
            }
        }
        (Ok(r), Err(p)) => acc.fail(idx, cj("continuation after loading the dump"), r.show(), p.describe(), "the VM loaded from the \\dump file panics"),
        (Err(_), _) => acc.skipped += 1,
    }
}

// ---------------------------------------------------------------- main

fn main() {
    let mut ctx = Ctx::new("C08", Level::FaultEnumeration);

    if let Some((_fam, case)) = ctx.replay_case() {
        let mut acc = Acc::default();
        let digits: Vec<u64> = case["sel"]["digits"].as_array().map(|a| a.iter().filter_map(|x| x.as_u64()).collect()).unwrap_or_default();
        let c = if case["family"] == "open-read-streams" {
            stream_case(&digits)
        } else {
            let alphabet: Vec<usize> = case["sel"]["alphabet"].as_array().map(|a| a.iter().filter_map(|x| x.as_u64().map(|v| v as usize)).collect()).unwrap_or_default();
            let arr = |k: &str| case["sel"][k].as_array().map(|d| d.iter().filter_map(|x| x.as_u64()).collect::<Vec<u64>>());
            let core_idx: Vec<usize> = (0..FRAGS.len()).filter(|i| FRAGS[*i].core).collect();
            let special = arr("faulty").and_then(|d| faulty_case(&d, &core_idx)).or_else(|| arr("catcode").map(|d| catcode_case(&d))).or_else(|| arr("mathcode").map(|d| mathcode_case(&d)));
            if let Some(c) = special {
                run_case(0, &c, 1, &mut acc);
                ctx.finish_replay(acc);
            }
            if let Some(d) = case["sel"]["int_param"].as_array() {
                let d: Vec<u64> = d.iter().filter_map(|x| x.as_u64()).collect();
                run_case(0, &int_param_case(&d), 1, &mut acc);
                ctx.finish_replay(acc);
            }
            if let Some(fmt) = case["sel"]["dump_format"].as_u64() {
                dump_case(0, &alphabet, &digits, fmt as usize, &mut acc);
                ctx.finish_replay(acc);
            }
            let v = Variant { eol: if case["sel"]["eol"] == "\r\n" { "\r\n" } else { "\n" }, final_eol: case["sel"]["final_eol"].as_bool().unwrap_or(true), bare: case["sel"]["bare"].as_bool().unwrap_or(false) };
            frag_case_v("replay", &alphabet, &digits, case["sel"]["json_last"].as_bool().unwrap_or(false), v).map(|(mut c, _)| {
                c.first_boundary = case["first_boundary"].as_u64().unwrap_or(if v.bare { 0 } else { 2 }) as usize;
                c
            })
        };
        match c {
            Some(c) => run_case(0, &c, 1, &mut acc),
            None => {
                eprintln!("replay: cannot rebuild the case");
                std::process::exit(2);
            }
        }
        ctx.finish_replay(acc);
    }

    // every fragment must be able to run (after the prelude) on its own; otherwise its checkpoints would silently
    // never be taken. Exempt: closers, and fragments that are meant to need earlier state or to fail.
    for fr in FRAGS.iter().filter(|f| f.dg >= 0 && f.dc >= 0 && f.text != RECOVERABLE_ERROR && f.text != "\\read 3 to \\r ") {
        let r = vcore::catch(|| vtex::run(&mut fresh(&[("f.tex", FILE_F), ("g.tex", "g1\ng2\n"), ("fé.tex", "é1\n"), ("e.tex", ""), ("b.tex", "  \n")]), &format!("{PRELUDE}\n{}\n", fr.text)));
        match r {
            Ok(o) if o.err.is_none() => {}
            Ok(o) => ctx.machinery_error(format!("fragment `{}` does not run on its own: {:?}", fr.text, o.err)),
            Err(p) => ctx.machinery_error(format!("fragment `{}` panics on its own: {}", fr.text, p.describe())),
        }
    }

    ctx.assume("a checkpoint is taken only when run(P1) returned without a fatal error and with all input consumed (the property's precondition); programs whose P1 ends in an error are skipped at that boundary");
    ctx.assume("what is serde(skip) by design is re-attached after loading exactly as vtex::checkpoint does: the in-memory file system (same Rc), a fresh scripted terminal with no lines, log sinks, the step budget, the working directory");
    ctx.assume("the reference behaviour is the same VM continuing without a checkpoint (run(P1); run(P2;Q)), which is the property's statement; the single-source run(P;Q) is compared too, and a difference caused by splitting the source alone (the last command of P1 scans past its line end, so input is not exhausted at that boundary in the single-source run) is counted in 'split_alone_changes_behaviour' and as an outcome class, never attributed to serialisation");
    ctx.assume("line 0 of every fragment program pre-defines the names that the observer reads with \\the (\\f \\g \\i \\hh \\n \\nx \\ny \\arr \\ax \\ay): \\the of an undefined name is a todo!() in texcraft (C09); the first checkpoint is after line 1");
    ctx.assume("oracle 2 is recorded, not judged (a behaviour-preserving loader may normalise the representation): differences appear as outcome classes and in the counter 'restored_vm_serialises_differently'; a panic while serialising the restored VM is judged. It compares canonical JSON: the macro table referenced by index and the per-level lists of the save stack are hash-ordered in the subject and are compared as (multi)sets");
    ctx.assume("hash order inside the subject cannot be seeded: a failing program is re-executed 5 times and reported if any execution fails");
    ctx.assume("X (outside): checkpoints with pending input; \\dump is not a built-in");

    let all: Vec<usize> = (0..FRAGS.len()).collect();
    let core: Vec<usize> = (0..FRAGS.len()).filter(|i| FRAGS[*i].core).collect();
    // narrowly targeted fragments (one container / limit / shape each) meet every other fragment in pairs-full; the
    // 3-fragment programs of the thorough tier run over the general fragments
    let general: Vec<usize> = (0..FRAGS.len()).filter(|i| FRAGS[*i].core || !FRAGS[*i].tags.contains(&"pairs-only")).collect();
    let quick = ctx.quick();

    // F1: single fragments, all oracles
    run_frag_family(&mut ctx, "singles-full", &format!("every program of 1 fragment ({} one-line fragments); checkpoint after the prelude line and after the fragment; JSON, MessagePack, bincode; canonical-JSON oracle after the fragment", all.len()), all.clone(), 1, JsonOracle::Always, false);
    // F2: all pairs over the full alphabet, both boundaries, three formats
    run_frag_family(
        &mut ctx,
        "pairs-full",
        &format!("every program of 2 fragments over the full alphabet ({} fragments); checkpoint after line 1 and after line 2; three formats; canonical-JSON oracle at the last boundary {}", all.len(), if quick { "when both fragments are core fragments" } else { "of every program" }),
        all.clone(),
        2,
        if quick { JsonOracle::CoreOnly } else { JsonOracle::Always },
        false,
    );
    // F3: triples (and 4-line programs)
    if quick {
        run_frag_family(&mut ctx, "triples-core", &format!("every program of 3 fragments over the core alphabet ({} fragments, one per state component); checkpoint after each of the 3 lines; three formats", core.len()), core.clone(), 3, JsonOracle::Never, false);
    } else {
        run_frag_family(&mut ctx, "triples-full", &format!("every program of 3 fragments over the {} general fragments (the narrowly targeted ones – one container, limit or macro shape each – meet every other fragment in pairs-full); checkpoint after line 2 and after line 3 (the state after line 1 with every 1-fragment continuation is in pairs-full); three formats; canonical-JSON comparison at the last boundary of the all-core programs", general.len()), general.clone(), 3, JsonOracle::CoreOnly, false);
        run_frag_family(&mut ctx, "quads-core", &format!("every program of 4 fragments over the core alphabet ({} fragments); checkpoint after each of the 4 lines; three formats", core.len()), core.clone(), 4, JsonOracle::Never, false);
    }
    // F4: open \read streams
    {
        let len = ctx.pick(3usize, 4usize);
        let k = STREAM_STEPS.len() as u64;
        let n = k.pow(len as u32);
        ctx.family("open-read-streams", &format!("every sequence of {len} stream steps over {k} steps (\\openin on two streams, \\read incl. a multi-line brace group and inside a TeX group, \\global\\read, \\ifeof, \\closein, \\input) on files f.tex (4 lines, lines 2-3 one brace group) and g.tex (3 plain lines, no final newline); checkpoint after every line; three formats"), n, |idx, acc| {
            let d = vcore::digits(idx, &vec![k; len]);
            match stream_case(&d) {
                None => acc.skipped += 1,
                Some(case) => {
                    let opened = |upto: usize| d[..upto].iter().any(|x| *x <= 1);
                    let mut nt = 0;
                    for b in 1..=case.p.len() {
                        if opened(b) {
                            nt += 1;
                            acc.count("open_read_stream");
                        }
                        if d[..b].iter().any(|x| *x == 2 || *x == 3 || *x == 7) && opened(b) {
                            acc.count("stream_positioned_mid_file");
                        }
                    }
                    run_case(idx, &case, nt, acc);
                    if idx % 499 == 250 {
                        acc.sample(idx, || json!({"family": "open-read-streams", "P": case.p, "Q": case.q}));
                    }
                }
            }
        });
    }

    // F5: programs without the prelude line, including the checkpoint of a completely fresh VM
    {
        let alphabet = all.clone();
        let k = alphabet.len() as u64;
        ctx.family("bare-programs", &format!("every program of 1 fragment WITHOUT the prelude line ({k} fragments): checkpoint of the fresh VM (before any input) and after the fragment; three formats; canonical-JSON comparison at both; observer restricted to what is readable without the prelude"), k, |idx, acc| {
            match frag_case_v("bare-programs", &alphabet, &[idx], true, Variant { bare: true, ..STANDARD }) {
                None => acc.skipped += 1,
                Some((case, _)) => {
                    acc.count("fresh_vm_checkpointed");
                    run_case(idx, &case, 1, acc);
                    if idx == 0 {
                        acc.sample(idx, || json!({"family": "bare-programs", "P": case.p, "Q": case.q, "checkpoints_after_lines": [0, 1]}));
                    }
                }
            }
        });
    }
    // F6: other line terminators and a last line without terminator
    {
        let alphabet = core.clone();
        let k = alphabet.len() as u64;
        const VARIANTS: [Variant; 3] = [Variant { eol: "\n", final_eol: false, bare: false }, Variant { eol: "\r\n", final_eol: true, bare: false }, Variant { eol: "\r\n", final_eol: false, bare: false }];
        ctx.family("pairs-core-line-endings", &format!("every program of 2 core fragments ({k} fragments) x 3 ways of ending lines: LF without terminator on the last line of each pushed source, CR LF, CR LF without terminator on the last line; checkpoint after each line; three formats"), k * k * 3, |idx, acc| {
            let d = vcore::digits(idx, &[3, k, k]);
            match frag_case_v("pairs-core-line-endings", &alphabet, &d[1..], false, VARIANTS[d[0] as usize]) {
                None => acc.skipped += 1,
                Some((case, _)) => {
                    acc.count(if d[0] == 0 { "source_without_final_line_terminator" } else { "source_with_cr_lf" });
                    run_case(idx, &case, 1, acc);
                }
            }
        });
    }
    // F8: every integer parameter at values on both sides of every range in which it has an effect
    {
        let n = (INT_PARAMS.len() * INT_VALUES.len() * 3) as u64;
        ctx.family("int-parameter-values", &format!("{} integer parameters ({}) x {} values ({:?}) x 3 forms (plain, local inside an open group, \\global inside an open group); checkpoint after the assignment; three formats; the observer reads every parameter with \\the", INT_PARAMS.len(), INT_PARAMS.join(" "), INT_VALUES.len(), INT_VALUES), n, |idx, acc| {
            let d = vcore::digits(idx, &[INT_PARAMS.len() as u64, INT_VALUES.len() as u64, 3]);
            let v = INT_VALUES[d[1] as usize];
            // outside the range in which the value has an effect, and not the canonical "disabled" value
            let out_of_range = match INT_PARAMS[d[0] as usize] {
                "\\endlinechar" => v < -1 || v > 1114111,
                "\\globaldefs" | "\\tracingmacros" => v < -1 || v > 2,
                "\\dumpFormat" | "\\dumpValidate" => !(0..=2).contains(&v),
                "\\month" => !(1..=12).contains(&v),
                _ => false,
            };
            if out_of_range {
                acc.count("int_parameter_holds_out_of_range_disabled_value");
            }
            let case = int_param_case(&d);
            run_case(idx, &case, 1, acc);
            if idx % 97 == 40 {
                acc.sample(idx, || json!({"family": "int-parameter-values", "P": case.p}));
            }
        });
    }
    // F9: errors of the continuation located at tokens of P1
    {
        let corev = core.clone();
        let n = (FAULTY.len() * (corev.len() + 1)) as u64;
        ctx.family("stored-faulty-tokens", &format!("{} faulty definitions stored by P1 (undefined control sequence in a macro body / token register / saved outer meaning / after multi-byte text / on a second line, missing number, bad prefix, out-of-range code, runaway delimited argument, stray \\fi), alone or after each of the {} core fragments; checkpoint after P1; the continuation executes the stored tokens under the strict handlers; output and the full rendered error are compared; three formats", FAULTY.len(), corev.len()), n, |idx, acc| {
            let d = vcore::digits(idx, &[FAULTY.len() as u64, corev.len() as u64 + 1]);
            match faulty_case(&d, &corev) {
                None => acc.skipped += 1,
                Some(case) => {
                    acc.count("error_after_checkpoint_located_at_token_lexed_before_it");
                    run_case(idx, &case, 1, acc);
                    if d[1] == 0 {
                        acc.sample(idx, || json!({"family": "stored-faulty-tokens", "P": case.p, "continuation": case.q}));
                    }
                }
            }
        });
    }
    // F10: code tables with a non-uniform initial state: every class set to every code (sparse encodings against a default)
    {
        let nc = (CAT_CLASSES.len() * 16 * 2) as u64;
        let nm = (MATH_CHARS.len() * MATH_VALUES.len() * 2) as u64;
        ctx.family("code-table-values", &format!("\\catcode of one character of each of the {} classes of the initial table (escape, braces, $, &, CR, #, ^, _, NUL, space, letter, other, digit, ~, %, DEL) set to each code 0..15, outside and inside an open group; after the checkpoint \\the\\catcode is read and one character of every class is lexed from source text; \\mathcode of characters {:?} set to {:?}; three formats", CAT_CLASSES.len(), MATH_CHARS, MATH_VALUES), nc + nm, |idx, acc| {
            let case = if idx < nc {
                let d = vcore::digits(idx, &[CAT_CLASSES.len() as u64, 16, 2]);
                if d[1] == 12 && CAT_CLASSES[d[0] as usize].1 != 12 {
                    acc.count("catcode_set_to_the_type_default_where_initial_table_differs");
                }
                catcode_case(&d)
            } else {
                let d = vcore::digits(idx - nc, &[MATH_CHARS.len() as u64, MATH_VALUES.len() as u64, 2]);
                if d[1] == 0 {
                    acc.count("mathcode_set_to_zero");
                }
                mathcode_case(&d)
            };
            run_case(idx, &case, 1, acc);
            if idx % 131 == 60 {
                acc.sample(idx, || json!({"family": "code-table-values", "P": case.p, "Q": case.q}));
            }
        });
    }
    // F7: the stdlib's own \\dump primitive
    {
        let alphabet = all.clone();
        let k = alphabet.len() as u64;
        ctx.family("dump-primitive", &format!("every program of 1 fragment ({k} fragments) followed by \\endlinechar=-1 and a line that ends in \\dump, with \\dumpValidate=1, for \\dumpFormat 0 (MessagePack), 1 (JSON), 2 (bincode); the JSON file is loaded by the harness and the observer runs in the loaded and in the dumping VM"), k * 3, |idx, acc| {
            let d = vcore::digits(idx, &[k, 3]);
            dump_case(idx, &alphabet, &d[..1], d[1] as usize, acc);
        });
    }

    for (c, m) in [
        ("global_prefix_on_each_prefixable_command_kind_after_checkpoint", "after the checkpoint the observer runs \\global\\let, \\global\\advance/\\multiply/\\divide, \\global\\countdef/\\toksdef/\\chardef/\\mathchardef, \\global on a register and a font selector, \\global\\def, \\gdef, \\long/\\outer\\def"),
        ("error_after_checkpoint_located_at_token_lexed_before_it", "the continuation raises an error whose token (or a token of its stack trace) was lexed before the checkpoint; the full rendered error is compared"),
        ("catcode_set_to_the_type_default_where_initial_table_differs", "an ASCII character whose initial category code is not 12 is set to 12 (the type's default) before the checkpoint"),
        ("int_parameter_holds_out_of_range_disabled_value", "an integer parameter holds a value outside the range in which it has an effect (e.g. \\endlinechar=300 or -7) at the checkpoint"),
        ("fresh_vm_checkpointed", "a VM that has not read any input is checkpointed"),
        ("source_without_final_line_terminator", "the last line of each pushed source has no line terminator"),
        ("source_with_cr_lf", "lines end in CR LF"),
        ("dump_primitive_runs", "the \\dump primitive serialises the VM from inside a run"),
        ("checkpoints", "line boundaries at which a checkpoint was taken"),
        ("round_trips", "serialise+deserialise round trips executed"),
        ("json_roundtrips_compared", "restored VMs compared with the original as canonical JSON"),
        ("save_stack_nonempty_at_checkpoint", "a checkpoint inside a group that holds a saved value"),
        ("open_group_at_checkpoint", "a checkpoint inside an open group"),
        ("open_conditional_at_checkpoint", "a checkpoint inside an open conditional"),
        ("macro_shared_by_two_names", "one macro reachable through two names (Rc de-duplication path)"),
        ("alias_of_expansion_primitive", "\\let alias of an expansion primitive"),
        ("alias_of_execution_primitive", "\\let alias of an execution primitive"),
        ("alias_of_character_token", "\\let alias of a character token"),
        ("alias_of_register", "\\countdef/\\toksdef alias"),
        ("active_character_definition", "definition of an active character"),
        ("high_code_table_entry", "\\catcode/\\mathcode of a character above 127"),
        ("open_read_stream", "an \\openin stream is open at the checkpoint"),
        ("stream_positioned_mid_file", "a stream was read from before the checkpoint"),
        ("font_selected", "a font selector ran before the checkpoint"),
        ("allocated_variable", "\\newInt / \\newIntArray variable assigned"),
        ("macro_with_parameters", "macro with delimited and undelimited parameters"),
        ("macro_delimiter_of_3_or_more_distinct_tokens_called_after_checkpoint", "macros with delimiters of 1..5 distinct tokens, 3 prefix tokens, two delimited parameters and #{ are defined before the checkpoint; the observer calls each with a near-miss (permuted) and a matching text"),
        ("container_with_3_or_more_distinct_elements_out_of_order", "a token list, replacement text, allocator, stream table, active-character map, save-stack level or conditional stack holds >= 3 distinct elements in a non-sorted order at the checkpoint"),
        ("three_open_groups_saving_different_values", "three nested groups are open at the checkpoint, each holding saved values of several variables and commands"),
        ("three_open_conditionals_of_different_kinds", "\\iftrue, the \\else branch of \\iffalse and case 2 of \\ifcase are open at the checkpoint"),
        ("integer_width_boundary_values_set", "register values on both sides of 2^7, 250/251, 2^8, 2^16, 2^31, -2^5, -2^7, -2^15, largest dimensions, fil/fill/filll set before the checkpoint"),
        ("three_and_four_byte_characters_in_state", "3- and 4-byte characters in control-sequence names, macro bodies, token lists, an active character or a file name before the checkpoint"),
        ("stream_on_empty_or_blank_file", "a read stream on an empty file and on a blank-only file is open at the checkpoint"),
        ("first_or_last_element_of_indexed_state_set", "register 0 / 32767 / 255, code-table entry 0 / 127 / 128 / U+10FFFE / U+10FFFF, stream 0 / 15 or array element first / last set before the checkpoint"),
        ("macro_with_an_empty_part_defined", "a macro with empty replacement text, prefix-only, 9 parameters or ## defined before the checkpoint"),
        ("empty_control_sequence_name_defined", "the empty control-sequence name is defined before the checkpoint and lexed again from source text after it"),
        ("non_ascii_or_prefix_name_defined", "a one-character non-ASCII name or a name that is a prefix of another name is defined before the checkpoint"),
    ] {
        ctx.require(c, m);
    }
    ctx.finish("a case is one program P (a prelude line plus 1-4 one-line fragments, or a sequence of stream steps) with its observer Q; every line boundary of P is a checkpoint, taken in JSON, MessagePack and bincode; programs are enumerated exhaustively over the fragment alphabets (index -> digits), never sampled; non-trivial = at least one checkpoint of the program is taken with an open group, an open conditional, a non-default definition or an open stream (computed from the fragments); evaluations counts programs, the counters 'checkpoints' and 'round_trips' count the faults injected");
}
