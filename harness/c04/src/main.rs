//! C04 — not built yet.
fn main() {
    eprintln!("c04: check not built yet");
    std::process::exit(2);
}
